# Build of the verification machinery. Everything is compiled from H4_SRC's working tree
# (default /repo); nothing depends on /repo/_build.
H4_SRC ?= /repo
V      := $(patsubst %/,%,$(dir $(abspath $(lastword $(MAKEFILE_LIST)))))
B      ?= $(V)/build
CC      = clang
CXX     = clang++
GUARD   = -DH4_VERIF
DEFS    = -DHAVE_CONFIG_H -D_POSIX_C_SOURCE=200809L $(GUARD)
INC     = -I$(H4_SRC)/hdf/src -I$(V)/cfg
MFINC   = $(INC) -I$(H4_SRC)/mfhdf/src
SAN     = -fsanitize=address,undefined -fno-sanitize=shift-base,function -fno-sanitize-recover=undefined -fno-omit-frame-pointer
OPT     = -g -O1 -w
LIBS    = -lz -ljpeg -lm

HDF_C  := $(wildcard $(H4_SRC)/hdf/src/*.c)
MF_C   := $(filter-out %/hdfnctest.c,$(wildcard $(H4_SRC)/mfhdf/src/*.c))
HDRS   := $(wildcard $(H4_SRC)/hdf/src/*.h) $(wildcard $(H4_SRC)/mfhdf/src/*.h) $(V)/cfg/h4config.h

SAN_OBJ   := $(patsubst $(H4_SRC)/hdf/src/%.c,$(B)/san/hdf_%.o,$(HDF_C)) $(patsubst $(H4_SRC)/mfhdf/src/%.c,$(B)/san/mf_%.o,$(MF_C))
PLAIN_OBJ := $(patsubst $(H4_SRC)/hdf/src/%.c,$(B)/plain/hdf_%.o,$(HDF_C)) $(patsubst $(H4_SRC)/mfhdf/src/%.c,$(B)/plain/mf_%.o,$(MF_C))
FUZZ_OBJ  := $(patsubst $(H4_SRC)/hdf/src/%.c,$(B)/fuzz/hdf_%.o,$(HDF_C)) $(patsubst $(H4_SRC)/mfhdf/src/%.c,$(B)/fuzz/mf_%.o,$(MF_C))

WRAPS = -Wl,--wrap=fopen,--wrap=fclose,--wrap=fread,--wrap=fwrite,--wrap=fseek,--wrap=ftell,--wrap=fflush

.PHONY: build tools fuzz all clean
build: $(B)/h4x $(B)/c06_enum
all: build tools fuzz

$(B)/san/hdf_%.o: $(H4_SRC)/hdf/src/%.c $(HDRS) | $(B)/san
	$(CC) $(OPT) $(SAN) $(DEFS) $(INC) -c $< -o $@
$(B)/san/mf_%.o: $(H4_SRC)/mfhdf/src/%.c $(HDRS) | $(B)/san
	$(CC) $(OPT) $(SAN) $(DEFS) -DHDF $(MFINC) -c $< -o $@
$(B)/plain/hdf_%.o: $(H4_SRC)/hdf/src/%.c $(HDRS) | $(B)/plain
	$(CC) $(OPT) $(DEFS) $(INC) -c $< -o $@
$(B)/plain/mf_%.o: $(H4_SRC)/mfhdf/src/%.c $(HDRS) | $(B)/plain
	$(CC) $(OPT) $(DEFS) -DHDF $(MFINC) -c $< -o $@
$(B)/fuzz/hdf_%.o: $(H4_SRC)/hdf/src/%.c $(HDRS) | $(B)/fuzz
	$(CC) $(OPT) $(SAN) -fsanitize=fuzzer-no-link $(DEFS) $(INC) -c $< -o $@
$(B)/fuzz/mf_%.o: $(H4_SRC)/mfhdf/src/%.c $(HDRS) | $(B)/fuzz
	$(CC) $(OPT) $(SAN) -fsanitize=fuzzer-no-link $(DEFS) -DHDF $(MFINC) -c $< -o $@

$(B)/san $(B)/plain $(B)/fuzz $(B)/tools:
	mkdir -p $@

$(B)/libh4san.a: $(SAN_OBJ)
	rm -f $@; ar rcs $@ $^
$(B)/libh4plain.a: $(PLAIN_OBJ)
	rm -f $@; ar rcs $@ $^
$(B)/libh4fuzz.a: $(FUZZ_OBJ)
	rm -f $@; ar rcs $@ $^

$(B)/h4x: $(V)/src/h4x.c $(V)/src/wrapio.c $(V)/src/h4x_helpers.c $(V)/src/h4x_describe.c $(B)/libh4san.a
	$(CC) $(OPT) $(SAN) $(DEFS) -DHDF $(MFINC) $(V)/src/h4x.c $(V)/src/wrapio.c $(V)/src/h4x_helpers.c $(V)/src/h4x_describe.c \
	  -Wl,--whole-archive $(B)/libh4san.a -Wl,--no-whole-archive $(WRAPS) -rdynamic -ldl $(LIBS) -o $@

$(B)/c06_enum: $(V)/src/c06_enum.c $(B)/libh4san.a
	$(CC) -g -O2 -w $(SAN) $(DEFS) -DHDF $(MFINC) $< $(B)/libh4san.a $(LIBS) -lpthread -o $@

# ---- tools (built with the same sanitizers as the library, so that memory errors in tool code are visible) ----
HREPACK_C := $(filter-out %/hrepacktst.c %/hrepack_check.c,$(wildcard $(H4_SRC)/mfhdf/hrepack/*.c))
HDIFF_C   := $(filter-out %/hdifftst.c,$(wildcard $(H4_SRC)/mfhdf/hdiff/*.c)) $(H4_SRC)/mfhdf/util/h4getopt.c
HDP_C     := $(wildcard $(H4_SRC)/mfhdf/hdp/*.c)
HIMPORT_C := $(H4_SRC)/mfhdf/hdfimport/hdfimport.c
TOOLINC   = $(MFINC) -I$(H4_SRC)/mfhdf/util -I$(H4_SRC)/mfhdf/hdiff -I$(H4_SRC)/mfhdf/hrepack

tools: $(B)/tools/hrepack $(B)/tools/hdiff $(B)/tools/hdp $(B)/tools/hdfimport
$(B)/tools/hrepack: $(HREPACK_C) $(B)/libh4san.a | $(B)/tools
	$(CC) $(OPT) $(SAN) $(DEFS) -DHDF $(TOOLINC) $(HREPACK_C) $(B)/libh4san.a $(LIBS) -o $@
$(B)/tools/hdiff: $(HDIFF_C) $(B)/libh4san.a | $(B)/tools
	$(CC) $(OPT) $(SAN) $(DEFS) -DHDF $(TOOLINC) $(HDIFF_C) $(B)/libh4san.a $(LIBS) -o $@
$(B)/tools/hdp: $(HDP_C) $(B)/libh4san.a | $(B)/tools
	$(CC) $(OPT) $(SAN) $(DEFS) -DHDF $(TOOLINC) $(HDP_C) $(B)/libh4san.a $(LIBS) -o $@
$(B)/tools/hdfimport: $(HIMPORT_C) $(B)/libh4san.a | $(B)/tools
	$(CC) $(OPT) $(SAN) $(DEFS) -DHDF $(TOOLINC) $(HIMPORT_C) $(B)/libh4san.a $(LIBS) -o $@

clean:
	rm -rf $(B)
