#!/usr/bin/env python3
"""run.py CNN [--tier quick|thorough] [--replay file]  — entry point of every check."""
import os, sys
VERIF = os.environ.get("VERIF_ROOT") or os.path.dirname(os.path.abspath(__file__))
os.environ["VERIF_ROOT"] = VERIF
sys.path.insert(0, os.path.join(VERIF, "py"))
sys.path.insert(0, VERIF)
from h4verif import runner
if __name__ == "__main__":
    sys.exit(runner.main())
