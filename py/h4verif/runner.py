"""Shared driver for all property checks (DESIGN.md §2.3, §2.7).

A check module (checks/cNN.py) provides:
  PROPERTY, LEVEL, RULE, BUDGET = {'quick': {'shards': k, 'cases': n}, 'thorough': {...}}
  strategy(tier)            -> hypothesis strategy of JSON-serialisable cases
  run_case(case)            -> CaseResult
  nontrivial(labels)        -> bool
  known_match(case, failure, entry) -> bool      (optional)
  extra(tier, seed, ctx)    -> optional non-Hypothesis phase (enumerators, fuzzers); returns dict
  NEED = ('h4x',) | ('h4x','tools')
"""
import os, sys, json, time, hashlib, subprocess, importlib, traceback, fcntl, random

VERIF = os.environ.get("VERIF_ROOT", "/verif")
sys.path.insert(0, os.path.join(VERIF, "py"))
sys.path.insert(0, VERIF)


class CaseResult:
    def __init__(self, labels=(), failure=None, sample=None, excluded=(), units=1, nt_keys=None):
        self.labels = set(labels)
        self.failure = failure      # None or dict(kind=..., detail=..., ...)
        self.sample = sample        # short human-readable form of the case
        self.excluded = list(excluded)
        self.units = units          # executions this case stands for (e.g. crash images)
        self.nt_keys = nt_keys      # optional: distinct non-trivial sub-cases (suffixes of the case hash)


def case_hash(case):
    return hashlib.sha1(json.dumps(case, sort_keys=True, default=str).encode()).hexdigest()


def load_known(prop):
    p = os.path.join(VERIF, "known_findings.json")
    if not os.path.exists(p):
        return []
    with open(p) as f:
        allk = json.load(f)
    return [e for e in allk.get("findings", []) if e.get("property") == prop]


def build(need=("h4x",)):
    os.makedirs(os.path.join(VERIF, "build"), exist_ok=True)
    lock = open(os.path.join(VERIF, "build", ".lock"), "w")
    fcntl.flock(lock, fcntl.LOCK_EX)
    try:
        targets = ["build"]
        if "tools" in need:
            targets.append("tools")
        if "fuzz" in need:
            targets.append("fuzz")
        p = subprocess.run(["make", "-C", VERIF, "-j16", "-s"] + targets, stdout=subprocess.PIPE,
                           stderr=subprocess.STDOUT)
        if p.returncode != 0:
            sys.stdout.write(p.stdout.decode("utf-8", "replace")[-4000:])
            print("CHECK-ERROR build failed")
            sys.exit(2)
    finally:
        fcntl.flock(lock, fcntl.LOCK_UN)
        lock.close()


def load_module(prop):
    return importlib.import_module("checks.%s" % prop.lower())


def apply_known(mod, case, res, known):
    """If res.failure matches a *known* (unfixed) finding, suppress it. Returns key or None."""
    if res.failure is None:
        return None
    km = getattr(mod, "known_match", None)
    if km is None:
        return None
    for e in known:
        if e.get("status") != "known":
            continue
        try:
            if km(case, res.failure, e):
                return e["key"]
        except Exception:
            traceback.print_exc()
    return None


# ------------------------------------------------------------------ shard worker
def shard_main(prop, tier, seed, shard, cases, outpath):
    from hypothesis import given, settings, seed as hseed, HealthCheck, Phase
    mod = load_module(prop)
    known = load_known(prop)
    stats = dict(evaluations=0, nt_hashes=set(), labels={}, samples=[], suppressed={}, excluded={},
                 failure=None, fail_case=None, errors=0)
    state = dict(last_fail=None)

    def body(case):
        res = mod.run_case(case)
        stats["evaluations"] += getattr(res, "units", 1)
        for l in res.labels:
            stats["labels"][l] = stats["labels"].get(l, 0) + 1
        for x in res.excluded:
            stats["excluded"][x] = stats["excluded"].get(x, 0) + 1
        if mod.nontrivial(res.labels):
            h = case_hash(case)
            new = h not in stats["nt_hashes"]
            if getattr(res, "nt_keys", None):
                for k in res.nt_keys:
                    stats["nt_hashes"].add(h[:20] + ":" + str(k))
            stats["nt_hashes"].add(h)
            if new and len(stats["samples"]) < 3 and res.sample is not None:
                stats["samples"].append(res.sample)
        if res.failure is not None:
            key = apply_known(mod, case, res, known)
            if key:
                stats["suppressed"][key] = stats["suppressed"].get(key, 0) + 1
                return
            state["last_fail"] = (case, res.failure)
            raise AssertionError(res.failure.get("kind", "failure"))

    strat = mod.strategy(tier)
    test = given(strat)(body)
    test = hseed(seed * 1000 + shard)(test)
    test = settings(max_examples=cases, database=None, deadline=None, derandomize=False,
                    report_multiple_bugs=False, suppress_health_check=list(HealthCheck),
                    phases=[Phase.generate, Phase.shrink], print_blob=False)(test)
    t0 = time.time()
    try:
        test()
    except AssertionError:
        if state["last_fail"] is not None:
            stats["fail_case"], stats["failure"] = state["last_fail"]
        else:
            stats["errors"] += 1
            stats["error_text"] = traceback.format_exc()
    except Exception:
        stats["errors"] += 1
        stats["error_text"] = traceback.format_exc()
    stats["wall_s"] = time.time() - t0
    stats["nt_hashes"] = sorted(stats["nt_hashes"])
    with open(outpath, "w") as f:
        json.dump(stats, f, default=str)


# ------------------------------------------------------------------ main driver
def confirm(mod, case, known, times=3):
    """Replay a failing case outside Hypothesis; returns (n_fail, last_failure, suppressed_key)."""
    nfail, last, key = 0, None, None
    for _ in range(times):
        res = mod.run_case(case)
        if res.failure is not None:
            k = apply_known(mod, case, res, known)
            if k:
                key = k
            else:
                nfail += 1
                last = res.failure
    return nfail, last, key


def write_replay(prop, case, failure):
    d = os.path.join(VERIF, "replays", prop)
    os.makedirs(d, exist_ok=True)
    h = case_hash(case)[:16]
    p = os.path.join(d, h + ".json")
    with open(p, "w") as f:
        json.dump(dict(property=prop, case=case, failure=failure), f, indent=1, default=str)
    return p


def validate_evidence(ev):
    try:
        import jsonschema
        with open("/root/.vp/EVIDENCE.schema.json") as f:
            schema = json.load(f)
        jsonschema.validate(ev, schema)
    except ImportError:
        pass
    except FileNotFoundError:
        pass


def main(argv=None):
    import argparse
    ap = argparse.ArgumentParser()
    ap.add_argument("prop")
    ap.add_argument("--tier", default=os.environ.get("VERIF_TIER", "quick"))
    ap.add_argument("--replay")
    ap.add_argument("--shard", type=int)
    ap.add_argument("--cases", type=int)
    ap.add_argument("--shards", type=int)
    ap.add_argument("--out")
    ap.add_argument("--seed", type=int)
    ap.add_argument("--no-build", action="store_true")
    a = ap.parse_args(argv)
    prop = a.prop.upper()
    seed = a.seed if a.seed is not None else int(os.environ.get("VERIF_SEED", "1") or 1)
    tier = a.tier if a.tier in ("quick", "thorough") else "quick"

    if a.shard is not None:
        shard_main(prop, tier, seed, a.shard, a.cases, a.out)
        return 0

    mod = load_module(prop)
    if not a.no_build:
        build(getattr(mod, "NEED", ("h4x",)))
    known = load_known(prop)

    if a.replay:
        with open(a.replay) as f:
            rec = json.load(f)
        case = rec["case"] if isinstance(rec, dict) and "case" in rec else rec
        res = mod.run_case(case)
        if res.failure is not None:
            key = apply_known(mod, case, res, known)
            print(json.dumps(res.failure, indent=1, default=str)[:6000])
            if key:
                print("KNOWN-FINDING: property=%s %s" % (prop, key))
                return 0
            print("VIOLATION property=%s replay=%s" % (prop, a.replay))
            return 1
        print("replay passes: property=%s %s" % (prop, a.replay))
        return 0

    t0 = time.time()
    violations = []
    inconclusive = []
    known_lines = []
    corpus_replayed = 0

    # 1. corpus replay (regressions of fixed findings + directed probes of known ones)
    cdir = os.path.join(VERIF, "corpus", prop)
    known_repro = {os.path.basename(e["repro"]): e for e in known if e.get("repro")}
    if os.path.isdir(cdir):
        for fn in sorted(os.listdir(cdir)):
            if not fn.endswith(".json"):
                continue
            path = os.path.join(cdir, fn)
            with open(path) as f:
                rec = json.load(f)
            case = rec["case"] if isinstance(rec, dict) and "case" in rec else rec
            corpus_replayed += 1
            res = mod.run_case(case)
            if res.failure is None:
                continue
            key = apply_known(mod, case, res, known)
            if key:
                line = "KNOWN-FINDING: property=%s %s" % (prop, next(
                    (e["text"] for e in known if e["key"] == key), key))
                if line not in known_lines:
                    known_lines.append(line)
                continue
            nfail, last, _ = confirm(mod, case, known)
            if nfail == 3:
                violations.append((path, last))
            else:
                inconclusive.append(dict(path=path, nfail=nfail))

    # 2. generated search, sharded
    budget = mod.BUDGET[tier]
    shards = a.shards or budget["shards"]
    cases = a.cases or budget["cases"]
    from h4verif import exe
    root = exe.scratch_root()
    procs = []
    for s in range(shards):
        out = os.path.join(root, "shard%d.json" % s)
        cmd = [sys.executable, os.path.join(VERIF, "run.py"), prop, "--tier", tier, "--shard", str(s),
               "--cases", str(cases), "--out", out, "--seed", str(seed), "--no-build"]
        procs.append((s, out, subprocess.Popen(cmd, stdout=subprocess.PIPE, stderr=subprocess.STDOUT)))
    merged = dict(evaluations=0, nt=set(), labels={}, samples=[], suppressed={}, excluded={}, errors=0)
    error_texts = []
    fails = []
    for s, out, p in procs:
        so, _ = p.communicate()
        if not os.path.exists(out):
            merged["errors"] += 1
            error_texts.append(so.decode("utf-8", "replace")[-3000:])
            continue
        with open(out) as f:
            st = json.load(f)
        merged["evaluations"] += st["evaluations"]
        merged["nt"].update(st["nt_hashes"])
        for k, v in st["labels"].items():
            merged["labels"][k] = merged["labels"].get(k, 0) + v
        for k, v in st["suppressed"].items():
            merged["suppressed"][k] = merged["suppressed"].get(k, 0) + v
        for k, v in st["excluded"].items():
            merged["excluded"][k] = merged["excluded"].get(k, 0) + v
        for smp in st["samples"]:
            if len(merged["samples"]) < 4:
                merged["samples"].append(smp)
        merged["errors"] += st["errors"]
        if st.get("error_text"):
            error_texts.append(st["error_text"])
        if st.get("fail_case") is not None:
            fails.append((st["fail_case"], st["failure"]))

    seen = set()
    for case, failure in fails:
        h = case_hash(case)
        if h in seen:
            continue
        seen.add(h)
        nfail, last, _ = confirm(mod, case, known)
        path = write_replay(prop, case, last or failure)
        if nfail == 3:
            violations.append((path, last))
        else:
            inconclusive.append(dict(path=path, nfail=nfail))

    # 3. optional extra phase (enumerators, fuzzers)
    extra = {}
    nt_extra = 0
    if hasattr(mod, "extra"):
        try:
            extra = mod.extra(tier, seed, dict(known=known)) or {}
        except SystemExit:
            raise
        except Exception:
            merged["errors"] += 1
            error_texts.append(traceback.format_exc())
        for v in extra.pop("violations", []):
            violations.append(v)
        for l in extra.pop("known_lines", []):
            if l not in known_lines:
                known_lines.append(l)
        merged["evaluations"] += extra.pop("evaluations", 0)
        for h in extra.pop("nt_hashes", []):
            merged["nt"].add(h)
        nt_extra = int(extra.pop("nt_count", 0))
        for smp in extra.pop("samples", []):
            if len(merged["samples"]) < 6:
                merged["samples"].append(smp)

    # known findings that have a directed probe but did not reproduce are reported as info
    for l in known_lines:
        print(l)
    for k, n in merged["suppressed"].items():
        line = "KNOWN-FINDING: property=%s %s" % (prop, next((e["text"] for e in known if e["key"] == k), k))
        if line not in known_lines:
            known_lines.append(line)
            print(line)

    wall = time.time() - t0
    ev = dict(property_id=prop, tier=tier, seed=seed, level=mod.LEVEL, wall_s=round(wall, 2),
              violations=len(violations),
              coverage=dict(evaluations=merged["evaluations"], distinct_nontrivial=len(merged["nt"]) + nt_extra,
                            rule=mod.RULE, samples=merged["samples"], labels=merged["labels"],
                            excluded_by_known_finding=merged["excluded"],
                            suppressed_known_finding_hits=merged["suppressed"],
                            inconclusive=inconclusive, corpus_replayed=corpus_replayed,
                            shards=shards, cases_per_shard=cases, **extra),
              assumptions=getattr(mod, "ASSUMPTIONS", []))
    evdir = os.environ.get("VERIF_EVIDENCE_DIR") or os.path.join(VERIF, "evidence")   # scratch dir for sensitivity runs
    os.makedirs(evdir, exist_ok=True)
    try:
        validate_evidence(ev)
    except Exception as ex:
        if not violations:
            print("CHECK-ERROR evidence does not validate: %s" % str(ex)[:300])
            with open(os.path.join(evdir, prop + ".json"), "w") as f:
                json.dump(ev, f, indent=1, default=str)
            return 2
    with open(os.path.join(evdir, prop + ".json"), "w") as f:
        json.dump(ev, f, indent=1, default=str)

    print("%s %s: evaluations=%d distinct_nontrivial=%d violations=%d wall=%.1fs labels=%s" % (
        prop, tier, merged["evaluations"], len(merged["nt"]) + nt_extra, len(violations), wall,
        json.dumps(merged["labels"], sort_keys=True)))
    if violations:
        for path, failure in violations:
            print("  failure: %s" % json.dumps(failure, default=str)[:1500])
            print("VIOLATION property=%s replay=%s" % (prop, path))
        return 1
    if merged["errors"]:
        for t in error_texts:
            print(t)
        print("CHECK-ERROR %d shard/internal errors" % merged["errors"])
        return 2
    minnt = getattr(mod, "MIN_NT", {}).get(tier, 2)
    if len(merged["nt"]) + nt_extra < minnt:
        print("CHECK-ERROR only %d non-trivial cases (< %d)" % (len(merged["nt"]) + nt_extra, minnt))
        return 2
    return 0
