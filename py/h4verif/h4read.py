"""Independent logical reader for HDF4 files, written from the format specification only (no library code).

Built on h4fmt (descriptor chain + special-element headers).  Everything here returns plain Python values; a
StructureError means the bytes on disk are not internally consistent.
"""
import os, struct, zlib
from . import h4fmt
from .h4fmt import (SPECIAL_LINKED, SPECIAL_EXT, SPECIAL_COMP, SPECIAL_CHUNKED, DFTAG_LINKED, is_special, base_tag,
                    RecordError, parse_vg, parse_vh)

DFTAG_COMPRESSED = 40
DFTAG_CHUNK = 61
DFTAG_VH, DFTAG_VS, DFTAG_VG = 1962, 1963, 1965
DFTAG_NDG, DFTAG_SDD, DFTAG_SD, DFTAG_NT = 720, 701, 702, 106
DFTAG_RIG, DFTAG_ID, DFTAG_RI, DFTAG_LUT, DFTAG_LD = 306, 300, 302, 301, 307
DFTAG_FID, DFTAG_FD, DFTAG_DIL, DFTAG_DIA = 100, 101, 104, 105
COMP_NONE, COMP_RLE, COMP_NBIT, COMP_SKPHUFF, COMP_DEFLATE = 0, 1, 2, 3, 4


class StructureError(Exception):
    pass


class Unsupported(Exception):
    """The element uses an encoding this reader does not implement (n-bit, skipping Huffman, szip, jpeg)."""


def rle_decode(src, want):
    """HDF4 run-length coding: control byte c; c&0x80 -> run of (c&0x7f) copies of next byte, else c literals."""
    out = bytearray()
    i = 0
    n = len(src)
    while len(out) < want and i < n:
        c = src[i]
        i += 1
        if c & 0x80:
            cnt = (c & 0x7f) + 3          # runs are at least 3 long
            if i >= n:
                raise StructureError("RLE stream truncated inside a run")
            out += bytes([src[i]]) * cnt
            i += 1
        else:
            cnt = c + 1                   # mixes are at least 1 long
            out += src[i:i + cnt]
            i += cnt
    return bytes(out[:want])


class Reader:
    def __init__(self, path, use_mmap=False):
        self.path = path
        self.dir = os.path.dirname(os.path.abspath(path))
        self.f = h4fmt.parse_file_mmap(path) if use_mmap else h4fmt.parse_file(path)
        self.problems = list(self.f.violations)

    # ------------------------------------------------------------------ elements
    def dd(self, tag, ref):
        return self.f.find(tag, ref)

    def blocks(self, dd):
        """Physical (offset, length) pieces holding the element's stored bytes, in logical order, the way the
        raw-location queries are documented to report them: plain -> one block; linked -> the data blocks that
        exist (last one cut to the data length); compressed -> the blocks of the compressed stream."""
        if dd.off < 0 or dd.len < 0:
            return []
        if not is_special(dd.tag):
            return [(dd.off, dd.len)]
        info = self.f.special_info(dd)
        if info is None:
            raise StructureError("special element %d/%d has no readable header" % (dd.tag, dd.ref))
        code = info["code"]
        if code == SPECIAL_LINKED:
            return self._linked_data_blocks(dd, info)
        if code == SPECIAL_COMP:
            if info["length"] == 0:
                return []
            c = self.f.by_key.get((DFTAG_COMPRESSED, info["comp_ref"])) or \
                self.f.by_key.get((DFTAG_COMPRESSED | 0x4000, info["comp_ref"]))
            if c is None:
                raise StructureError("compressed element %d/%d: stream 40/%d missing" % (dd.tag, dd.ref, info["comp_ref"]))
            return self.blocks(c)
        if code == SPECIAL_EXT:
            return [("ext", info["offset"], info["length"], info["name"])]
        raise Unsupported("blocks of special code %d" % code)

    def _linked_data_blocks(self, dd, info):
        total, blen, nblk = info["total"], info["block_len"], info["nblocks"]
        out = []
        acc = 0
        link_ref = info["link_ref"]
        seen = set()
        while link_ref != 0:
            if link_ref in seen:
                raise StructureError("linked element %d/%d: block table chain cycles" % (dd.tag, dd.ref))
            seen.add(link_ref)
            t = self.f.by_key.get((DFTAG_LINKED, link_ref))
            if t is None:
                raise StructureError("linked element %d/%d: block table %d missing" % (dd.tag, dd.ref, link_ref))
            traw = self.f.raw(t)
            if traw is None or len(traw) < 2 + 2 * nblk:
                raise StructureError("linked element %d/%d: block table %d too short" % (dd.tag, dd.ref, link_ref))
            nxt = struct.unpack(">H", traw[:2])[0]
            refs = struct.unpack(">%dH" % nblk, traw[2:2 + 2 * nblk])
            for r in refs:
                if r == 0:
                    continue
                b = self.f.by_key.get((DFTAG_LINKED, r))
                if b is None:
                    raise StructureError("linked element %d/%d: data block %d missing" % (dd.tag, dd.ref, r))
                out.append([b.off, b.len])
            link_ref = nxt
        # the last block holds only what is left of the data
        for i, (o, l) in enumerate(out):
            if i == len(out) - 1:
                out[i][1] = min(l, max(total - acc, 0)) if l == blen else l
            acc += l
        return [tuple(x) for x in out]

    def stored_bytes(self, dd):
        """Bytes of the element as stored (after undoing linked/external placement, before decompression)."""
        if dd.off < 0 or dd.len < 0:
            return b""
        if not is_special(dd.tag):
            return bytes(self.f.raw(dd))
        info = self.f.special_info(dd)
        if info is None:
            raise StructureError("special element %d/%d has no readable header" % (dd.tag, dd.ref))
        code = info["code"]
        if code == SPECIAL_LINKED:
            segs, data = self.f.linked_blocks(dd, info)
            if data is None:
                raise StructureError("linked element %d/%d unreadable: %s" % (dd.tag, dd.ref, self.f.violations[-1:]))
            return data
        if code == SPECIAL_EXT:
            name = info["name"].split(b"\0")[0].decode("latin-1")
            p = name if os.path.isabs(name) else os.path.join(self.dir, name)
            if not os.path.exists(p):
                raise StructureError("external element %d/%d: file %r missing" % (dd.tag, dd.ref, name))
            with open(p, "rb") as fh:
                fh.seek(info["offset"])
                return fh.read(info["length"])
        raise Unsupported("stored bytes of special code %d" % code)

    def logical(self, dd):
        """Logical content of an element (decompressed / dechunked)."""
        if dd.off < 0 or dd.len < 0:
            return b""
        if not is_special(dd.tag):
            return bytes(self.f.raw(dd))
        info = self.f.special_info(dd)
        if info is None:
            raise StructureError("special element %d/%d has no readable header" % (dd.tag, dd.ref))
        code = info["code"]
        if code in (SPECIAL_LINKED, SPECIAL_EXT):
            return self.stored_bytes(dd)
        if code == SPECIAL_COMP:
            return self._decomp(dd, info)
        if code == SPECIAL_CHUNKED:
            return self._dechunk(dd, info)
        raise Unsupported("special code %d" % code)

    def _decomp(self, dd, info):
        want = info["length"]
        if want == 0:
            return b""
        c = self.f.by_key.get((DFTAG_COMPRESSED, info["comp_ref"])) or \
            self.f.by_key.get((DFTAG_COMPRESSED | 0x4000, info["comp_ref"]))
        if c is None:
            raise StructureError("compressed element %d/%d: stream 40/%d missing" % (dd.tag, dd.ref, info["comp_ref"]))
        src = self.stored_bytes(c)
        coder = info["coder"]
        if coder == COMP_NONE:
            out = src[:want]
        elif coder == COMP_RLE:
            out = rle_decode(src, want)
        elif coder == COMP_DEFLATE:
            try:
                out = zlib.decompressobj().decompress(src)[:want]
            except zlib.error as e:
                raise StructureError("compressed element %d/%d: deflate stream invalid: %s" % (dd.tag, dd.ref, e))
        else:
            raise Unsupported("coder %d" % coder)
        if len(out) < want:
            raise StructureError("compressed element %d/%d: stream decodes to %d bytes, header says %d" % (
                dd.tag, dd.ref, len(out), want))
        return out

    def chunk_table(self, dd, info=None):
        """Rows of the chunk table of a chunked element: list of (origin tuple, chunk tag, chunk ref)."""
        info = info or self.f.special_info(dd)
        vh = self.f.by_key.get((info["tbl_tag"], info["tbl_ref"]))
        if vh is None:
            raise StructureError("chunked element %d/%d: chunk table %d/%d missing" % (
                dd.tag, dd.ref, info["tbl_tag"], info["tbl_ref"]))
        try:
            h = parse_vh(self.f.raw(vh))
        except RecordError as e:
            raise StructureError("chunked element %d/%d: chunk table header: %s" % (dd.tag, dd.ref, e))
        nd = info["ndims"]
        if h["ivsize"] != 4 * nd + 4:
            raise StructureError("chunk table record size %d for %d dimensions" % (h["ivsize"], nd))
        vs = self.f.find(DFTAG_VS, vh.ref)
        data = self.logical(vs) if vs is not None else b""
        if len(data) < h["nvert"] * h["ivsize"]:
            raise StructureError("chunk table data shorter than its %d records" % h["nvert"])
        rows = []
        for i in range(h["nvert"]):
            rec = data[i * h["ivsize"]:(i + 1) * h["ivsize"]]
            org = struct.unpack(">%di" % nd, rec[:4 * nd])
            tag, ref = struct.unpack(">HH", rec[4 * nd:])
            rows.append((org, tag, ref))
        return rows

    def _dechunk(self, dd, info):
        import numpy as np
        nd = info["ndims"]
        dims = [x["dim_length"] for x in info["dims"]]
        cl = [x["chunk_length"] for x in info["dims"]]
        nts = info["nt_size"]
        if any(c <= 0 for c in cl) or nts <= 0:
            raise StructureError("chunked element %d/%d: bad chunk lengths %r / nt size %d" % (dd.tag, dd.ref, cl, nts))
        nchunks = [(d + c - 1) // c for d, c in zip(dims, cl)]
        fill = info["fill"][:nts] if len(info["fill"]) >= nts else info["fill"] + b"\0" * (nts - len(info["fill"]))
        full = np.frombuffer(fill * int(np.prod([n * c for n, c in zip(nchunks, cl)])), dtype="V%d" % nts).reshape(
            [n * c for n, c in zip(nchunks, cl)]).copy()
        seen = set()
        for org, tag, ref in self.chunk_table(dd, info):
            if org in seen:
                raise StructureError("chunk table lists chunk %r twice" % (org,))
            seen.add(org)
            if any(o < 0 or o >= n for o, n in zip(org, nchunks)):
                raise StructureError("chunk origin %r outside the chunk grid %r" % (org, nchunks))
            c = self.f.find(tag, ref)
            if c is None:
                raise StructureError("chunk %r: data element %d/%d missing" % (org, tag, ref))
            raw = self.logical(c)
            need = int(np.prod(cl)) * nts
            if len(raw) < need:
                raise StructureError("chunk %r holds %d bytes, chunk size is %d" % (org, len(raw), need))
            blk = np.frombuffer(raw[:need], dtype="V%d" % nts).reshape(cl)
            sl = tuple(slice(o * c_, (o + 1) * c_) for o, c_ in zip(org, cl))
            full[sl] = blk
        return full[tuple(slice(0, d) for d in dims)].tobytes()

    # ------------------------------------------------------------------ groups of tag/refs
    def _pairs(self, dd):
        raw = self.logical(dd)
        return [struct.unpack(">HH", raw[i:i + 4]) for i in range(0, len(raw) - 3, 4)]

    def nt_of(self, ref):
        d = self.f.find(DFTAG_NT, ref)
        if d is None:
            raise StructureError("number type 106/%d missing" % ref)
        raw = self.f.raw(d)
        return dict(version=raw[0], type=raw[1], width=raw[2], cls=raw[3])

    # ------------------------------------------------------------------ SD
    def datasets(self):
        """{ndg ref: dict(rank, dims, nt, data dd or None)} from the NDG groups."""
        out = {}
        for dd in self.f.dds:
            if dd.tag != DFTAG_NDG:
                continue
            pairs = self._pairs(dd)
            sdd = next((r for t, r in pairs if t == DFTAG_SDD), None)
            sd = next(((t, r) for t, r in pairs if t == DFTAG_SD), None)
            if sdd is None:
                raise StructureError("NDG %d has no dimension record" % dd.ref)
            sraw = self.logical(self.f.find(DFTAG_SDD, sdd))
            rank = struct.unpack(">H", sraw[:2])[0]
            dims = list(struct.unpack(">%di" % rank, sraw[2:2 + 4 * rank]))
            nt_tag, nt_ref = struct.unpack(">HH", sraw[2 + 4 * rank:6 + 4 * rank])
            nt = self.nt_of(nt_ref)
            data = self.f.find(sd[0], sd[1]) if sd else None
            out[dd.ref] = dict(rank=rank, dims=dims, nt=nt, data=data, data_key=sd)
        return out

    # ------------------------------------------------------------------ Vdata / Vgroup
    def vdatas(self):
        out = {}
        for dd in self.f.dds:
            if dd.tag != DFTAG_VH:
                continue
            try:
                h = parse_vh(self.f.raw(dd))
            except RecordError as e:
                raise StructureError("vdata header %d: %s" % (dd.ref, e))
            vs = self.f.find(DFTAG_VS, dd.ref)
            out[dd.ref] = dict(header=h, data=vs)
        return out

    def vgroups(self):
        out = {}
        for dd in self.f.dds:
            if dd.tag != DFTAG_VG:
                continue
            try:
                out[dd.ref] = parse_vg(self.f.raw(dd))
            except RecordError as e:
                raise StructureError("vgroup record %d: %s" % (dd.ref, e))
        return out

    # ------------------------------------------------------------------ GR (vgroup representation)
    def images(self):
        """{name: dict(xdim, ydim, ncomp, nt, interlace, data dd)} from the RI0.0 vgroups."""
        out = {}
        for ref, g in self.vgroups().items():
            if g["cls"] != b"RI0.0":
                continue
            members = list(zip(g["tags"], g["refs"]))
            idr = next((r for t, r in members if t == DFTAG_ID), None)
            rir = next(((t, r) for t, r in members if t == DFTAG_RI), None)
            if idr is None:
                raise StructureError("image vgroup %d has no dimension record" % ref)
            raw = self.logical(self.f.find(DFTAG_ID, idr))
            xdim, ydim, nt_tag, nt_ref, ncomp, il, ctag, cref = struct.unpack(">iiHHHHHH", raw[:20])
            out[g["name"].decode("latin-1")] = dict(xdim=xdim, ydim=ydim, ncomp=ncomp, interlace=il,
                                                    nt=self.nt_of(nt_ref), data=self.f.find(*rir) if rir else None,
                                                    vg_ref=ref, comp=(ctag, cref))
        return out

    # ------------------------------------------------------------------ annotations
    def annotations(self):
        """list of (kind, target (tag,ref) or None, text bytes)."""
        out = []
        for dd in self.f.dds:
            bt = base_tag(dd.tag)
            if bt in (DFTAG_FID, DFTAG_FD):
                out.append(("file_label" if bt == DFTAG_FID else "file_desc", None, self.logical(dd), dd))
            elif bt in (DFTAG_DIL, DFTAG_DIA):
                raw = self.logical(dd)
                if len(raw) < 4:
                    raise StructureError("object annotation %d/%d shorter than its 4-byte target" % (dd.tag, dd.ref))
                out.append(("label" if bt == DFTAG_DIL else "desc", struct.unpack(">HH", raw[:4]), raw[4:], dd))
        return out

    # ------------------------------------------------------------------ whole-file consistency
    def deep_check(self):
        """Walk every special element, vdata, vgroup, chunk table: returns a list of problems (strings)."""
        probs = list(self.problems)
        for dd in self.f.dds:
            try:
                if is_special(dd.tag) and dd.off >= 0:
                    info = self.f.special_info(dd)
                    if info is None:
                        probs.append("special element %d/%d: unreadable header" % (dd.tag, dd.ref))
                        continue
                    code = info["code"]
                    if code == SPECIAL_LINKED:
                        segs, data = self.f.linked_blocks(dd, info)
                        if data is None or len(data) != info["total"]:
                            probs.append("linked element %d/%d: blocks do not cover its length %d" % (
                                dd.tag, dd.ref, info["total"]))
                    elif code == SPECIAL_EXT:
                        if info["length"] < 0 or info["offset"] < 0:
                            probs.append("external element %d/%d: negative offset/length" % (dd.tag, dd.ref))
                    elif code == SPECIAL_COMP:
                        if info["length"] < 0:
                            probs.append("compressed element %d/%d: negative length" % (dd.tag, dd.ref))
                        try:
                            self._decomp(dd, info)
                        except Unsupported:
                            pass
                    elif code == SPECIAL_CHUNKED:
                        try:
                            self._dechunk(dd, info)
                        except Unsupported:
                            pass
                elif dd.tag == DFTAG_VH:
                    h = parse_vh(self.f.raw(dd))
                    off = 0
                    for i in range(h["nfields"]):
                        if h["off"][i] != off:
                            probs.append("vdata %d: field offsets not cumulative" % dd.ref)
                            break
                        off += h["isize"][i]
                    if h["nfields"] and off != h["ivsize"]:
                        probs.append("vdata %d: record size %d != sum of field sizes %d" % (dd.ref, h["ivsize"], off))
                    vs = self.f.find(DFTAG_VS, dd.ref)
                    if vs is not None:
                        try:
                            have = len(self.logical(vs))
                            if have < h["nvert"] * h["ivsize"]:
                                probs.append("vdata %d: %d records x %d bytes but only %d data bytes" % (
                                    dd.ref, h["nvert"], h["ivsize"], have))
                        except Unsupported:
                            pass
                    elif h["nvert"] > 0 and h["ivsize"] > 0:
                        probs.append("vdata %d: %d records but no data element" % (dd.ref, h["nvert"]))
                    for (_fi, atag, aref) in h["attrs"]:
                        if self.f.find(atag, aref) is None:
                            probs.append("vdata %d: attribute %d/%d missing" % (dd.ref, atag, aref))
                elif dd.tag == DFTAG_VG:
                    g = parse_vg(self.f.raw(dd))
                    for (atag, aref) in g["attrs"]:
                        if self.f.find(atag, aref) is None:
                            probs.append("vgroup %d: attribute %d/%d missing" % (dd.ref, atag, aref))
                    if g["cls"] in (b"Var0.0", b"Dim0.0", b"UDim0.0", b"CDF0.0", b"RI0.0", b"RIG0.0"):
                        for t, r in zip(g["tags"], g["refs"]):
                            if self.f.find(t, r) is None:
                                probs.append("vgroup %d (%s): member %d/%d missing" % (
                                    dd.ref, g["cls"].decode(), t, r))
                elif dd.tag in (DFTAG_NDG, DFTAG_RIG):
                    for t, r in self._pairs(dd):
                        # data members may not exist yet and the SD layer adds a deliberately dangling marker
                        # (tag 721): only the descriptive members are required
                        if self.f.find(t, r) is None and t in (DFTAG_SDD, DFTAG_ID, DFTAG_LD):
                            probs.append("group %d/%d: member %d/%d missing" % (dd.tag, dd.ref, t, r))
            except (StructureError, RecordError) as e:
                probs.append(str(e))
            except struct.error as e:
                probs.append("element %d/%d: record truncated (%s)" % (dd.tag, dd.ref, e))
        return probs
