"""Independent HDF4 format reader / validator (DESIGN.md §2.5).

Written from the on-disk layouts documented in the source comments (hfile_priv.h, hblocks.c,
hextelt.c, hcomp.c, hchunks.c, vio.c, vgp.c); it never calls the library.
"""
import struct, os, zlib

MAGIC = b"\x0e\x03\x13\x01"
DFTAG_NULL, DFTAG_LINKED, DFTAG_VERSION, DFTAG_COMPRESSED, DFTAG_FREE = 1, 20, 30, 40, 108
DFTAG_VH, DFTAG_VS, DFTAG_VG = 1962, 1963, 1965
DFTAG_CHUNK = 61
SPECIAL_LINKED, SPECIAL_EXT, SPECIAL_COMP, SPECIAL_VLINKED, SPECIAL_CHUNKED, SPECIAL_BUFFERED, \
    SPECIAL_COMPRAS = 1, 2, 3, 4, 5, 6, 7
COMP_CODE_NONE, COMP_CODE_RLE, COMP_CODE_NBIT, COMP_CODE_SKPHUFF, COMP_CODE_DEFLATE = 0, 1, 2, 3, 4


def is_special(tag):
    return (tag & 0x8000) == 0 and (tag & 0x4000) != 0


def base_tag(tag):
    return tag & ~0x4000 if is_special(tag) else tag


class DD:
    __slots__ = ("tag", "ref", "off", "len", "blk", "idx")

    def __init__(self, tag, ref, off, ln, blk, idx):
        self.tag, self.ref, self.off, self.len, self.blk, self.idx = tag, ref, off, ln, blk, idx

    def __repr__(self):
        return "DD(%d/%d @%d+%d)" % (self.tag, self.ref, self.off, self.len)


class H4File:
    """Parsed file: dd blocks, live dds, structural violations."""

    def __init__(self, data, path=None):
        self.data = data
        self.path = path
        self.violations = []
        self.blocks = []   # (offset, ndds, next)
        self.dds = []      # live DDs (tag not NULL/FREE)
        self.null_dds = 0
        self.by_key = {}   # (tag, ref) -> DD   (exact tag as stored)
        self.fatal = False
        self._parse_dds()

    def bad(self, msg):
        self.violations.append(msg)

    def _parse_dds(self):
        d = self.data
        n = len(d)
        if n < 4 or d[:4] != MAGIC:
            self.bad("bad magic")
            self.fatal = True
            return
        off = 4
        seen = set()
        while True:
            if off in seen:
                self.bad("DD block chain cycles at offset %d" % off)
                self.fatal = True
                return
            seen.add(off)
            if off < 0 or off + 6 > n:
                self.bad("DD block header at %d outside file (size %d)" % (off, n))
                self.fatal = True
                return
            ndds, nxt = struct.unpack(">hi", d[off:off + 6])
            if ndds <= 0:
                self.bad("DD block at %d has ndds=%d" % (off, ndds))
                self.fatal = True
                return
            end = off + 6 + ndds * 12
            if end > n:
                self.bad("DD block at %d (ndds=%d) extends past end of file (%d > %d)" % (off, ndds, end, n))
                self.fatal = True
                return
            bi = len(self.blocks)
            self.blocks.append((off, ndds, nxt))
            for i in range(ndds):
                tag, ref, o, l = struct.unpack(">HHii", d[off + 6 + 12 * i: off + 18 + 12 * i])
                if tag == DFTAG_NULL or tag == DFTAG_FREE:
                    self.null_dds += 1
                    continue
                dd = DD(tag, ref, o, l, bi, i)
                self.dds.append(dd)
            if nxt == 0:
                break
            off = nxt
        # per-DD checks
        for dd in self.dds:
            k = (dd.tag, dd.ref)
            if k in self.by_key:
                self.bad("duplicate tag/ref %d/%d" % k)
            else:
                self.by_key[k] = dd
            if dd.tag == 0:
                self.bad("DD with wildcard tag 0 (ref %d)" % dd.ref)
            if dd.ref == 0:
                self.bad("DD %d/%d has ref 0" % k)
            if dd.off == -1 and dd.len == -1:
                continue  # defined but no data yet
            if dd.off < 0 or dd.len < 0:
                self.bad("DD %d/%d has negative offset/length (%d,%d)" % (dd.tag, dd.ref, dd.off, dd.len))
            elif dd.off + dd.len > n:
                self.bad("DD %d/%d extent [%d,%d) exceeds file size %d" % (dd.tag, dd.ref, dd.off,
                                                                            dd.off + dd.len, n))
        # base/special duplicates
        bases = {}
        for dd in self.dds:
            bk = (base_tag(dd.tag), dd.ref)
            if bk in bases and bases[bk] != dd.tag:
                self.bad("tag/ref %d/%d present both as plain and special" % bk)
            bases[bk] = dd.tag
        # overlap checks: extents of DD blocks and of live elements
        ext = []
        for (boff, ndds, _n) in self.blocks:
            ext.append((boff, boff + 6 + 12 * ndds, "ddblock@%d" % boff))
        ext.append((0, 4, "magic"))
        for dd in self.dds:
            if dd.off >= 0 and dd.len > 0:
                ext.append((dd.off, dd.off + dd.len, "%d/%d" % (dd.tag, dd.ref)))
        ext.sort()
        # sweep: report overlaps unless identical extents (aliases made by Hdupdd)
        active_end, active = -1, None
        for (a, b, name) in ext:
            if a < active_end:
                if not (active[0] == a and active[1] == b and not name.startswith("ddblock")
                        and not active[2].startswith("ddblock")):
                    self.bad("overlap: %s [%d,%d) with %s [%d,%d)" % (name, a, b, active[2], active[0],
                                                                     active[1]))
            if b > active_end:
                active_end, active = b, (a, b, name)

    # ------------------------------------------------------------------ element access
    def find(self, tag, ref):
        """Find by base tag: returns the DD stored either as tag or its special variant."""
        dd = self.by_key.get((tag, ref))
        if dd is None and (tag & 0x8000) == 0:
            dd = self.by_key.get((tag | 0x4000, ref))
        return dd

    def raw(self, dd):
        if dd.off < 0 or dd.len < 0:
            return None
        return self.data[dd.off:dd.off + dd.len]

    def used_end(self):
        """Max end offset of any live element or DD block (C17)."""
        e = 4
        for (boff, ndds, _n) in self.blocks:
            e = max(e, boff + 6 + 12 * ndds)
        for dd in self.dds:
            if dd.off >= 0 and dd.len > 0:
                e = max(e, dd.off + dd.len)
        return e

    def live_keys(self):
        return sorted(self.by_key.keys())

    # -- special elements -------------------------------------------------------------
    def special_info(self, dd):
        """Parse the special-element description record of a special DD."""
        raw = self.raw(dd)
        if raw is None or len(raw) < 2:
            self.bad("special element %d/%d has no header" % (dd.tag, dd.ref))
            return None
        code = struct.unpack(">H", raw[:2])[0]
        info = dict(code=code)
        try:
            if code == SPECIAL_LINKED:
                total, blen, nblk, link_ref = struct.unpack(">iiiH", raw[2:16])
                info.update(total=total, block_len=blen, nblocks=nblk, link_ref=link_ref)
            elif code == SPECIAL_EXT:
                ln, off, nlen = struct.unpack(">iii", raw[2:14])
                info.update(length=ln, offset=off, name=raw[14:14 + nlen])
            elif code == SPECIAL_COMP:
                ver, ulen, cref, model, coder = struct.unpack(">HiHHH", raw[2:14])
                info.update(version=ver, length=ulen, comp_ref=cref, model=model, coder=coder,
                            params=raw[14:])
            elif code == SPECIAL_CHUNKED:
                info.update(self._parse_chunk_header(raw))
            else:
                info.update(raw=raw)
        except struct.error:
            self.bad("special element %d/%d header truncated (code %d)" % (dd.tag, dd.ref, code))
            return None
        return info

    def _parse_chunk_header(self, raw):
        p = 2
        sp_len, = struct.unpack(">i", raw[p:p + 4]); p += 4
        version = raw[p]; p += 1
        flag, elem_tot, chunk_size, nt_size, tbl_tag, tbl_ref, sp_tag, sp_ref, ndims = \
            struct.unpack(">iiiiHHHHi", raw[p:p + 28])
        p += 28
        dims = []
        for _ in range(ndims):
            dflag, dlen, clen = struct.unpack(">iii", raw[p:p + 12])
            p += 12
            dims.append(dict(flag=dflag, dim_length=dlen, chunk_length=clen))
        fill_len, = struct.unpack(">i", raw[p:p + 4]); p += 4
        fill = raw[p:p + fill_len]; p += fill_len
        out = dict(sp_len=sp_len, version=version, flag=flag, elem_tot_length=elem_tot,
                   chunk_size=chunk_size, nt_size=nt_size, tbl_tag=tbl_tag, tbl_ref=tbl_ref,
                   ndims=ndims, dims=dims, fill=fill)
        if (flag & 0xff) in (2, 3) or (flag & 0x2):
            # compression header follows: comp special header length + header
            try:
                clen, = struct.unpack(">i", raw[p:p + 4]); p += 4
                out["comp_header"] = raw[p:p + clen]
            except struct.error:
                pass
        return out

    def linked_blocks(self, dd, info=None):
        """Return list of (offset,length) of data blocks of a linked-block element, and the logical data."""
        info = info or self.special_info(dd)
        if not info or info.get("code") != SPECIAL_LINKED:
            return None, None
        total, blen, nblk = info["total"], info["block_len"], info["nblocks"]
        if total < 0 or blen <= 0 or nblk <= 0:
            self.bad("linked element %d/%d has bad header total=%d block_len=%d nblocks=%d" % (
                dd.tag, dd.ref, total, blen, nblk))
            return None, None
        segs = []
        out = bytearray()
        link_ref = info["link_ref"]
        seen = set()
        remaining = total
        first = True
        while link_ref != 0:
            if link_ref in seen:
                self.bad("linked element %d/%d: block-table chain cycles" % (dd.tag, dd.ref))
                return None, None
            seen.add(link_ref)
            t = self.by_key.get((DFTAG_LINKED, link_ref))
            if t is None:
                if remaining > 0:
                    self.bad("linked element %d/%d: missing block table ref %d" % (dd.tag, dd.ref, link_ref))
                break
            traw = self.raw(t)
            if traw is None or len(traw) < 2 + 2 * nblk:
                self.bad("linked element %d/%d: block table %d too short" % (dd.tag, dd.ref, link_ref))
                return None, None
            nxt = struct.unpack(">H", traw[:2])[0]
            refs = struct.unpack(">%dH" % nblk, traw[2:2 + 2 * nblk])
            for r in refs:
                if remaining <= 0:
                    break
                want = blen
                if first and r != 0:
                    # the first block keeps the length the element had when it was converted
                    b0 = self.by_key.get((DFTAG_LINKED, r))
                    if b0 is not None and b0.len >= 0:
                        want = b0.len
                take = min(want, remaining)
                if r == 0:
                    out += b"\0" * take          # never-written block: reads as zeros
                    segs.append((None, take))
                else:
                    b = self.by_key.get((DFTAG_LINKED, r))
                    if b is None:
                        self.bad("linked element %d/%d: missing data block ref %d" % (dd.tag, dd.ref, r))
                        out += b"\0" * take
                        segs.append((None, take))
                    else:
                        braw = self.raw(b) or b""
                        chunk = braw[:take]
                        if len(chunk) < take:
                            chunk = chunk + b"\0" * (take - len(chunk))
                        out += chunk
                        segs.append((b.off, min(len(braw), take)))
                first = False
                remaining -= take
            link_ref = nxt
        return segs, bytes(out[:total])


def parse_file(path):
    with open(path, "rb") as f:
        data = f.read()
    return H4File(data, path)


def parse_file_mmap(path):
    """Like parse_file but memory-maps the file (sparse files of ~2 GiB must not be read into memory)."""
    import mmap
    f = open(path, "rb")
    try:
        m = mmap.mmap(f.fileno(), 0, access=mmap.ACCESS_READ)
    finally:
        f.close()
    return H4File(m, path)


class RecordError(Exception):
    pass


class _Cur:
    def __init__(self, raw):
        self.raw, self.p = raw, 0

    def take(self, fmt):
        n = struct.calcsize(fmt)
        if self.p + n > len(self.raw):
            raise RecordError("record truncated at byte %d (need %d more, length %d)" % (self.p, n, len(self.raw)))
        v = struct.unpack(fmt, self.raw[self.p:self.p + n])
        self.p += n
        return v if len(v) > 1 else v[0]

    def bytes(self, n):
        if n < 0 or self.p + n > len(self.raw):
            raise RecordError("string of length %d at byte %d exceeds record length %d" % (n, self.p, len(self.raw)))
        v = bytes(self.raw[self.p:self.p + n])
        self.p += n
        return v


def parse_vg(raw):
    """Decode a DFTAG_VG record by the format specification. Raises RecordError when inconsistent."""
    c = _Cur(raw)
    n = c.take(">H")
    tags = [c.take(">H") for _ in range(n)]
    refs = [c.take(">H") for _ in range(n)]
    name = c.bytes(c.take(">H"))
    cls = c.bytes(c.take(">H"))
    extag, exref = c.take(">HH")
    out = dict(nvelt=n, tags=tags, refs=refs, name=name, cls=cls, extag=extag, exref=exref, attrs=[])
    rest = len(raw) - c.p
    # old records: version, more, pad ; new records (version 4): flags(4) [nattrs(4) (tag,ref)*] version more pad
    if rest >= 4 + 4 + 1:
        save = c.p
        flags = c.take(">I")
        try:
            attrs = []
            if flags & 1:
                na = c.take(">i")
                if na < 0 or na > 65535:
                    raise RecordError("attribute count %d" % na)
                attrs = [c.take(">HH") for _ in range(na)]
            ver, more = c.take(">HH")
            if ver == 4 and len(raw) - c.p <= 1:
                out.update(flags=flags, attrs=attrs, version=ver, more=more, consumed=c.p)
                return out
        except RecordError:
            pass
        c.p = save
    ver, more = c.take(">HH")
    out.update(flags=0, version=ver, more=more, consumed=c.p)
    if len(raw) - c.p > 1:
        raise RecordError("vgroup record has %d unexplained trailing bytes" % (len(raw) - c.p))
    return out


def parse_vh(raw):
    """Decode a DFTAG_VH (vdata header) record by the format specification."""
    c = _Cur(raw)
    interlace, nvert, ivsize, nf = c.take(">hiHh")
    if nf < 0:
        raise RecordError("negative field count %d" % nf)
    types = [c.take(">h") for _ in range(nf)]
    isize = [c.take(">H") for _ in range(nf)]
    off = [c.take(">H") for _ in range(nf)]
    order = [c.take(">H") for _ in range(nf)]
    names = []
    for _ in range(nf):
        ln = c.take(">h")
        names.append(c.bytes(ln))
    name = c.bytes(c.take(">h"))
    cls = c.bytes(c.take(">h"))
    extag, exref, ver, more = c.take(">HHhh")
    out = dict(interlace=interlace, nvert=nvert, ivsize=ivsize, nfields=nf, types=types, isize=isize, off=off,
               order=order, names=names, name=name, cls=cls, version=ver, more=more, attrs=[], flags=0)
    rest = len(raw) - c.p
    if rest > 1:
        if rest > 5:
            flags = c.take(">I")
            out["flags"] = flags
            if flags & 1:
                na = c.take(">i")
                if na < 0 or na > 65535:
                    raise RecordError("attribute count %d" % na)
                out["attrs"] = [c.take(">iHH") for _ in range(na)]
        v2, m2 = c.take(">hh")      # duplicated version/more fields
        if (v2, m2) != (ver, more):
            raise RecordError("duplicated version/more fields differ: %r vs %r" % ((v2, m2), (ver, more)))
    if len(raw) - c.p > 1:
        raise RecordError("vdata header has %d unexplained trailing bytes" % (len(raw) - c.p))
    out["consumed"] = c.p
    return out
