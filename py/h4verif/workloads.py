"""Library of representative workload programs (C16 fault enumeration, C17 crash enumeration, C14 inputs).

Each workload is a function(dir) -> (Prog, [paths of files it produces]).  Programs are deterministic,
small, and end with the interface's own close calls."""
import os, struct
import numpy as np
from .exe import Prog, V, Out, OutS, InOut, i32s
from . import sdmodel as sm


def _vals(nt, seed, n):
    return sm.gen_values(nt, seed, n).tobytes()


def chunk_def(shape, comp=None):
    b = bytearray(176)
    for i, c in enumerate(shape):
        struct.pack_into("=i", b, 4 * i, c)
    if comp is not None:
        struct.pack_into("=ii", b, 128, comp[0], 0)
        struct.pack_into("=i", b, 136, comp[1])
    return bytes(b)


def cinfo(param):
    b = bytearray(20)
    struct.pack_into("=i", b, 0, param)
    return bytes(b)


def w_h_elements(d):
    p = Prog()
    f = os.path.join(d, "h.hdf")
    p.call("i", "Hopen", f, 7, 4, bind="f")
    p.call("i", "Hputelement", V("f"), 1000, 1, bytes(range(40)), 40)
    p.call("i", "Hstartaccess", V("f"), 1000, 2, 3 | 0x10, bind="a")
    p.call("i", "Hwrite", V("a"), 10, bytes(range(10)))
    p.call("i", "Hputelement", V("f"), 1001, 1, b"xyz" * 5, 15)
    p.call("i", "Hwrite", V("a"), 30, bytes(range(30)))          # promotes to linked blocks
    p.call("i", "Hseek", V("a"), 5, 0)
    p.call("i", "Hwrite", V("a"), 4, b"\xee" * 4)
    p.call("i", "Hendaccess", V("a"))
    p.call("i", "HLcreate", V("f"), 1002, 1, 8, 2, bind="l")
    p.call("i", "Hwrite", V("l"), 50, bytes(range(50)))
    p.call("i", "Hendaccess", V("l"))
    p.call("i", "Hputelement", V("f"), 1003, 1, b"1", 1)
    p.call("i", "Hputelement", V("f"), 1003, 2, b"22", 2)      # needs a second DD block (ndds=4)
    p.call("i", "Hdupdd", V("f"), 1004, 1, 1000, 1)
    p.call("i", "Hdeldd", V("f"), 1003, 1)
    p.call("i", "Hgetelement", V("f"), 1002, 1, Out(60))
    p.call("i", "Hclose", V("f"))
    return p, [f]


def w_h_external(d):
    p = Prog()
    f = os.path.join(d, "x.hdf")
    p.call("i", "Hopen", f, 7, 0, bind="f")
    p.call("i", "Hputelement", V("f"), 1000, 1, bytes(range(20)), 20)
    p.call("i", "HXcreate", V("f"), 1000, 1, os.path.join(d, "x.ext"), 3, 0, bind="a")
    p.call("i", "Hseek", V("a"), 20, 0)
    p.call("i", "Hwrite", V("a"), 12, b"abcdefghijkl")
    p.call("i", "Hendaccess", V("a"))
    p.call("i", "Hgetelement", V("f"), 1000, 1, Out(40))
    p.call("i", "Hclose", V("f"))
    return p, [f, os.path.join(d, "x.ext")]


def w_sd_basic(d):
    p = Prog()
    f = os.path.join(d, "sd.hdf")
    p.call("i", "SDstart", f, 7, bind="sd")
    p.call("i", "SDcreate", V("sd"), "a", 24, 2, i32s(4, 5), bind="s")
    p.call("i", "SDwritedata", V("s"), i32s(1, 1), None, i32s(2, 3), _vals("int32", 1, 6))
    p.call("i", "SDsetattr", V("s"), "units", 4, 3, b"m/s")
    p.call("i", "SDsetattr", V("sd"), "title", 4, 5, b"hello")
    p.call("i", "SDreaddata", V("s"), i32s(0, 0), None, i32s(4, 5), Out(80))
    p.call("i", "SDendaccess", V("s"))
    p.call("i", "SDend", V("sd"))
    return p, [f]


def w_sd_chunk_comp(d):
    p = Prog()
    f = os.path.join(d, "sdc.hdf")
    p.call("i", "SDstart", f, 7, bind="sd")
    p.call("i", "SDcreate", V("sd"), "c", 22, 2, i32s(6, 6), bind="s")
    p.call("i", "hx_SDsetchunk", V("s"), chunk_def([4, 4], comp=(4, 6)), 3)
    p.call("i", "SDsetchunkcache", V("s"), 1, 0)
    p.call("i", "SDwritedata", V("s"), i32s(0, 0), None, i32s(6, 6), _vals("int16", 2, 36))
    p.call("i", "SDwritedata", V("s"), i32s(3, 3), None, i32s(2, 2), _vals("int16", 3, 4))
    p.call("i", "SDreaddata", V("s"), i32s(0, 0), None, i32s(6, 6), Out(72))
    p.call("i", "SDendaccess", V("s"))
    p.call("i", "SDcreate", V("sd"), "z", 5, 1, i32s(50), bind="s")
    p.call("i", "SDsetcompress", V("s"), 4, cinfo(6))
    p.call("i", "SDwritedata", V("s"), i32s(0), None, i32s(50), _vals("float32", 4, 50))
    p.call("i", "SDendaccess", V("s"))
    p.call("i", "SDend", V("sd"))
    return p, [f]


def w_sd_unlimited(d):
    p = Prog()
    f = os.path.join(d, "sdu.hdf")
    p.call("i", "SDstart", f, 7, bind="sd")
    p.call("i", "SDcreate", V("sd"), "u", 6, 2, i32s(0, 3), bind="s")
    for r in range(4):
        p.call("i", "SDwritedata", V("s"), i32s(r, 0), None, i32s(1, 3), _vals("float64", r, 3))
    p.call("i", "SDcreate", V("sd"), "other", 20, 1, i32s(7), bind="t")
    p.call("i", "SDwritedata", V("t"), i32s(0), None, i32s(7), _vals("int8", 9, 7))
    p.call("i", "SDwritedata", V("s"), i32s(6, 0), None, i32s(1, 3), _vals("float64", 6, 3))
    p.call("i", "SDendaccess", V("s"))
    p.call("i", "SDendaccess", V("t"))
    p.call("i", "SDend", V("sd"))
    return p, [f]


def w_vdata_vgroup(d):
    p = Prog()
    f = os.path.join(d, "v.hdf")
    p.call("i", "Hopen", f, 7, 0, bind="f")
    p.call("i", "Vinitialize", V("f"))
    p.call("i", "VSattach", V("f"), -1, "w", bind="vs")
    p.call("i", "VSfdefine", V("vs"), "a", 24, 1)
    p.call("i", "VSfdefine", V("vs"), "b", 5, 2)
    p.call("i", "VSsetfields", V("vs"), "a,b")
    p.call("i", "VSsetname", V("vs"), "table")
    p.call("i", "VSwrite", V("vs"), bytes(range(120)), 10, 0)
    p.call("i", "VSQueryref", V("vs"), bind="vr")
    p.call("i", "VSsetattr", V("vs"), -1, "note", 4, 4, b"abcd")
    p.call("i", "VSdetach", V("vs"))
    p.call("i", "Vattach", V("f"), -1, "w", bind="g")
    p.call("i", "Vsetname", V("g"), "group")
    p.call("i", "Vaddtagref", V("g"), 1962, V("vr"))
    p.call("i", "Vaddtagref", V("g"), 1000, 7)
    p.call("i", "Vsetattr", V("g"), "ga", 22, 2, _vals("int16", 1, 2))
    p.call("i", "Vdetach", V("g"))
    p.call("i", "VSattach", V("f"), V("vr"), "w", bind="vs")
    p.call("i", "VSseek", V("vs"), 9)
    p.call("i", "VSsetfields", V("vs"), "a,b")
    p.call("i", "VSread", V("vs"), Out(12), 1, 0)
    p.call("i", "VSwrite", V("vs"), bytes(range(100, 160)), 5, 0)
    p.call("i", "VSdetach", V("vs"))
    p.call("i", "Vfinish", V("f"))
    p.call("i", "Hclose", V("f"))
    return p, [f]


def w_gr(d):
    p = Prog()
    f = os.path.join(d, "g.hdf")
    p.call("i", "Hopen", f, 7, 0, bind="f")
    p.call("i", "GRstart", V("f"), bind="gr")
    p.call("i", "GRcreate", V("gr"), "img", 3, 21, 0, i32s(5, 4), bind="ri")
    p.call("i", "GRwriteimage", V("ri"), i32s(1, 1), None, i32s(3, 2), _vals("uint8", 1, 18))
    p.call("i", "GRgetlutid", V("ri"), 0, bind="lut")
    p.call("i", "GRwritelut", V("lut"), 3, 21, 0, 256, _vals("uint8", 2, 768))
    p.call("i", "GRsetattr", V("ri"), "note", 4, 2, b"ok")
    p.call("i", "GRreadimage", V("ri"), i32s(0, 0), None, i32s(5, 4), Out(60))
    p.call("i", "GRendaccess", V("ri"))
    p.call("i", "GRcreate", V("gr"), "cimg", 1, 21, 0, i32s(6, 6), bind="ri")
    p.call("i", "GRsetcompress", V("ri"), 4, cinfo(6))
    p.call("i", "GRwriteimage", V("ri"), i32s(0, 0), None, i32s(6, 6), _vals("uint8", 3, 36))
    p.call("i", "GRendaccess", V("ri"))
    p.call("i", "GRend", V("gr"))
    p.call("i", "Hclose", V("f"))
    return p, [f]


def w_an(d):
    p = Prog()
    f = os.path.join(d, "an.hdf")
    p.call("i", "Hopen", f, 7, 0, bind="f")
    p.call("i", "Hputelement", V("f"), 702, 1, b"data", 4)
    p.call("i", "ANstart", V("f"), bind="an")
    p.call("i", "ANcreatef", V("an"), 2, bind="n")
    p.call("i", "ANwriteann", V("n"), b"file label", 10)
    p.call("i", "ANendaccess", V("n"))
    p.call("i", "ANcreate", V("an"), 702, 1, 1, bind="n")
    p.call("i", "ANwriteann", V("n"), b"a description\0with nul", 22)
    p.call("i", "ANendaccess", V("n"))
    p.call("i", "ANcreate", V("an"), 702, 1, 0, bind="n")
    p.call("i", "ANwriteann", V("n"), b"label", 5)
    p.call("i", "ANwriteann", V("n"), b"a longer label", 14)
    p.call("i", "ANendaccess", V("n"))
    p.call("i", "ANend", V("an"))
    p.call("i", "Hclose", V("f"))
    return p, [f]


def w_sd_reopen_attrs(d):
    """two sessions: create, then reopen read-write, add attributes and another dataset (full metadata rewrite)"""
    p = Prog()
    f = os.path.join(d, "sdr.hdf")
    p.call("i", "SDstart", f, 7, bind="sd")
    p.call("i", "SDcreate", V("sd"), "a", 22, 1, i32s(6), bind="s")
    p.call("i", "SDwritedata", V("s"), i32s(0), None, i32s(6), _vals("int16", 1, 6))
    p.call("i", "SDendaccess", V("s"))
    p.call("i", "SDend", V("sd"))
    p.call("i", "SDstart", f, 3, bind="sd")
    p.call("i", "SDselect", V("sd"), 0, bind="s")
    p.call("i", "SDsetattr", V("s"), "k", 24, 3, _vals("int32", 2, 3))
    p.call("i", "SDsetdatastrs", V("s"), "lab", "unit", "fmt", "cs")
    p.call("i", "SDcreate", V("sd"), "b", 5, 1, i32s(3), bind="t")
    p.call("i", "SDwritedata", V("t"), i32s(0), None, i32s(3), _vals("float32", 3, 3))
    p.call("i", "SDendaccess", V("t"))
    p.call("i", "SDendaccess", V("s"))
    p.call("i", "SDend", V("sd"))
    return p, [f]


def w_sd_dims(d):
    """dimension metadata: named dimensions, scales, dimension strings/attributes, one dimension in the
    backward-compatible representation (extra "DimVal0.0" Vdata written at SDend), a shared dimension"""
    p = Prog()
    f = os.path.join(d, "sdd.hdf")
    p.call("i", "SDstart", f, 7, bind="sd")
    p.call("i", "SDcreate", V("sd"), "a", 22, 2, i32s(3, 4), bind="s")
    p.call("i", "SDgetdimid", V("s"), 0, bind="d0")
    p.call("i", "SDsetdimname", V("d0"), "rows")
    p.call("i", "SDsetdimval_comp", V("d0"), 1)
    p.call("i", "SDgetdimid", V("s"), 1, bind="d1")
    p.call("i", "SDsetdimname", V("d1"), "cols")
    p.call("i", "SDsetdimscale", V("d1"), 4, 5, _vals("float32", 7, 4))
    p.call("i", "SDsetdimstrs", V("d1"), "columns", "km", "F7.2")
    p.call("i", "SDsetattr", V("d1"), "dattr", 22, 2, _vals("int16", 8, 2))
    p.call("i", "SDwritedata", V("s"), i32s(0, 0), None, i32s(3, 4), _vals("int16", 5, 12))
    p.call("i", "SDendaccess", V("s"))
    p.call("i", "SDcreate", V("sd"), "b", 24, 1, i32s(4), bind="t")
    p.call("i", "SDgetdimid", V("t"), 0, bind="e0")
    p.call("i", "SDsetdimname", V("e0"), "cols")
    p.call("i", "SDwritedata", V("t"), i32s(0), None, i32s(4), _vals("int32", 6, 4))
    p.call("i", "SDendaccess", V("t"))
    p.call("i", "SDend", V("sd"))
    return p, [f]


def w_gr_rle8(d):
    """an old-style (DFR8) run-length compressed raster image rewritten through GR (compressed raster driver)"""
    p = Prog()
    f = os.path.join(d, "r8.hdf")
    p.call("i", "DFR8addimage", f, bytes((i * 3) & 0xff for i in range(30)), 6, 5, 11)
    p.call("i", "DFR8restart")
    p.call("i", "Hopen", f, 3, 0, bind="f")
    p.call("i", "GRstart", V("f"), bind="gr")
    p.call("i", "GRselect", V("gr"), 0, bind="ri")
    p.call("i", "GRreadimage", V("ri"), i32s(0, 0), None, i32s(6, 5), Out(30))
    p.call("i", "GRwriteimage", V("ri"), i32s(0, 0), None, i32s(6, 5), bytes((i * 7 + 1) & 0xff for i in range(30)))
    p.call("i", "GRendaccess", V("ri"))
    p.call("i", "GRend", V("gr"))
    p.call("i", "Hclose", V("f"))
    return p, [f]


def w_h_nocache(d):
    """descriptor caching switched off: every descriptor update is written through at once, incl. the creation
    and linking of a second descriptor block; one element is deleted and one rewritten"""
    p = Prog()
    f = os.path.join(d, "nc.hdf")
    p.call("i", "Hopen", f, 7, 4, bind="f")
    p.call("i", "Hcache", V("f"), 0)
    for i in range(1, 8):
        p.call("i", "Hputelement", V("f"), 1000, i, bytes([i]) * (3 * i), 3 * i)
    p.call("i", "Hdeldd", V("f"), 1000, 2)
    p.call("i", "Hputelement", V("f"), 1000, 3, b"rewritten", 9)
    p.call("i", "Hstartwrite", V("f"), 1001, 1, 10, bind="a")
    p.call("i", "Hwrite", V("a"), 10, b"0123456789")
    p.call("i", "Hendaccess", V("a"))
    p.call("i", "Hgetelement", V("f"), 1000, 7, Out(30))
    p.call("i", "Hclose", V("f"))
    return p, [f]


# further write workloads; indices continue after the read-only scans (keeps older replay files valid)
def w_sd_recompress(d):
    """a dataset stored uncompressed in one session is given a compression in the next one (the library reads the
    stored data back and rewrites them as a compressed element), then rewritten"""
    p = Prog()
    f = os.path.join(d, "rc.hdf")
    p.call("i", "SDstart", f, 7, bind="sd")
    p.call("i", "SDcreate", V("sd"), "a", 22, 2, i32s(6, 5), bind="s")
    p.call("i", "SDwritedata", V("s"), i32s(0, 0), None, i32s(6, 5), _vals("int16", 5, 30))
    p.call("i", "SDendaccess", V("s"))
    p.call("i", "SDend", V("sd"))
    p.call("i", "SDstart", f, 3, bind="sd")
    p.call("i", "SDselect", V("sd"), 0, bind="s")
    p.call("i", "SDsetcompress", V("s"), 4, cinfo(6))
    p.call("i", "SDwritedata", V("s"), i32s(0, 0), None, i32s(6, 5), _vals("int16", 9, 30))
    p.call("i", "SDendaccess", V("s"))
    p.call("i", "SDend", V("sd"))
    return p, [f]


WORKLOADS2 = [("sd_dims", w_sd_dims), ("gr_rle8", w_gr_rle8), ("h_nocache", w_h_nocache), ("sd_recompress", w_sd_recompress)]


def w_read_scan(d):
    """build a file fault-free (not traced: separate prelude), then scan it read-only"""
    return None


WORKLOADS = [("h_elements", w_h_elements), ("h_external", w_h_external), ("sd_basic", w_sd_basic),
             ("sd_chunk_comp", w_sd_chunk_comp), ("sd_unlimited", w_sd_unlimited),
             ("vdata_vgroup", w_vdata_vgroup), ("gr", w_gr), ("an", w_an), ("sd_reopen_attrs", w_sd_reopen_attrs)]


def read_scan_program(d, kind):
    """read-only scan programs over files produced by the workloads above (used with a fault-free prelude)"""
    p = Prog()
    if kind == "sd":
        f = os.path.join(d, "sdc.hdf")
        p.call("i", "SDstart", f, 1, bind="sd")
        p.call("i", "SDfileinfo", V("sd"), Out(4), Out(4))
        p.call("i", "SDselect", V("sd"), 0, bind="s")
        p.call("i", "SDreaddata", V("s"), i32s(0, 0), None, i32s(6, 6), Out(72))
        p.call("i", "SDendaccess", V("s"))
        p.call("i", "SDselect", V("sd"), 1, bind="s")
        p.call("i", "SDreaddata", V("s"), i32s(0), None, i32s(50), Out(200))
        p.call("i", "SDendaccess", V("s"))
        p.call("i", "SDend", V("sd"))
    elif kind == "v":
        f = os.path.join(d, "v.hdf")
        p.call("i", "Hopen", f, 1, 0, bind="f")
        p.call("i", "Vinitialize", V("f"))
        p.call("i", "VSfind", V("f"), "table", bind="vr")
        p.call("i", "VSattach", V("f"), V("vr"), "r", bind="vs")
        p.call("i", "VSsetfields", V("vs"), "b,a")
        p.call("i", "VSread", V("vs"), Out(14 * 12), 14, 0)
        p.call("i", "VSdetach", V("vs"))
        p.call("i", "Vfind", V("f"), "group", bind="gr")
        p.call("i", "Vattach", V("f"), V("gr"), "r", bind="g")
        p.call("i", "Vgettagrefs", V("g"), Out(40), Out(40), 10)
        p.call("i", "Vdetach", V("g"))
        p.call("i", "Vfinish", V("f"))
        p.call("i", "Hclose", V("f"))
    else:
        f = os.path.join(d, "h.hdf")
        p.call("i", "Hopen", f, 1, 0, bind="f")
        p.call("i", "Hgetelement", V("f"), 1000, 2, Out(60))
        p.call("i", "Hgetelement", V("f"), 1002, 1, Out(60))
        p.call("i", "hx_find_all", V("f"), 0, 0, 1, Out(16 * 100), 100, 1000)
        p.call("i", "Hclose", V("f"))
    return p


def w_combo(d, fname="combo.hdf"):
    """one file holding objects of every interface and every special-element kind (C14/C13 input)"""
    p = Prog()
    f = os.path.join(d, fname)
    p.call("i", "SDstart", f, 7, bind="sd")
    p.call("i", "SDcreate", V("sd"), "plain", 24, 2, i32s(3, 4), bind="s")
    p.call("i", "SDwritedata", V("s"), i32s(0, 0), None, i32s(3, 4), _vals("int32", 1, 12))
    p.call("i", "SDsetattr", V("s"), "units", 4, 3, b"m/s")
    p.call("i", "SDendaccess", V("s"))
    p.call("i", "SDcreate", V("sd"), "chunked", 22, 2, i32s(5, 5), bind="s")
    p.call("i", "hx_SDsetchunk", V("s"), chunk_def([2, 3], comp=(4, 6)), 3)
    p.call("i", "SDwritedata", V("s"), i32s(0, 0), None, i32s(5, 5), _vals("int16", 2, 25))
    p.call("i", "SDendaccess", V("s"))
    p.call("i", "SDcreate", V("sd"), "unl", 5, 1, i32s(0), bind="s")
    p.call("i", "SDwritedata", V("s"), i32s(0), None, i32s(6), _vals("float32", 3, 6))
    p.call("i", "SDendaccess", V("s"))
    p.call("i", "SDsetattr", V("sd"), "title", 4, 5, b"combo")
    p.call("i", "SDend", V("sd"))
    p.call("i", "Hopen", f, 3, 0, bind="f")
    p.call("i", "Hputelement", V("f"), 1000, 1, bytes(range(40)), 40)
    p.call("i", "HLcreate", V("f"), 1002, 1, 8, 2, bind="l")
    p.call("i", "Hwrite", V("l"), 50, bytes(range(50)))
    p.call("i", "Hendaccess", V("l"))
    p.call("i", "HCcreate", V("f"), 1003, 1, 0, bytes(16), 1, bytes(20), bind="c")
    p.call("i", "Hwrite", V("c"), 60, b"ab" * 30)
    p.call("i", "Hendaccess", V("c"))
    p.call("i", "HXcreate", V("f"), 1004, 1, os.path.join(d, "combo.ext"), 2, 0, bind="x")
    p.call("i", "Hwrite", V("x"), 16, bytes(range(16)))
    p.call("i", "Hendaccess", V("x"))
    p.call("i", "Vinitialize", V("f"))
    p.call("i", "VSattach", V("f"), -1, "w", bind="vs")
    p.call("i", "VSfdefine", V("vs"), "a", 24, 1)
    p.call("i", "VSfdefine", V("vs"), "b", 5, 2)
    p.call("i", "VSsetfields", V("vs"), "a,b")
    p.call("i", "VSsetname", V("vs"), "table")
    p.call("i", "VSwrite", V("vs"), bytes(range(120)), 10, 0)
    p.call("i", "VSQueryref", V("vs"), bind="vr")
    p.call("i", "VSsetattr", V("vs"), -1, "note", 4, 4, b"abcd")
    p.call("i", "VSdetach", V("vs"))
    p.call("i", "Vattach", V("f"), -1, "w", bind="g")
    p.call("i", "Vsetname", V("g"), "group")
    p.call("i", "Vaddtagref", V("g"), 1962, V("vr"))
    p.call("i", "Vaddtagref", V("g"), 1000, 1)
    p.call("i", "Vsetattr", V("g"), "ga", 22, 2, _vals("int16", 1, 2))
    p.call("i", "Vdetach", V("g"))
    p.call("i", "Vfinish", V("f"))
    p.call("i", "GRstart", V("f"), bind="gr")
    p.call("i", "GRcreate", V("gr"), "img", 3, 21, 0, i32s(5, 4), bind="ri")
    p.call("i", "GRwriteimage", V("ri"), i32s(0, 0), None, i32s(5, 4), _vals("uint8", 1, 60))
    p.call("i", "GRgetlutid", V("ri"), 0, bind="lut")
    p.call("i", "GRwritelut", V("lut"), 3, 21, 0, 256, _vals("uint8", 2, 768))
    p.call("i", "GRsetattr", V("ri"), "note", 4, 2, b"ok")
    p.call("i", "GRendaccess", V("ri"))
    p.call("i", "GRend", V("gr"))
    p.call("i", "ANstart", V("f"), bind="an")
    p.call("i", "ANcreatef", V("an"), 2, bind="n")
    p.call("i", "ANwriteann", V("n"), b"file label", 10)
    p.call("i", "ANendaccess", V("n"))
    p.call("i", "ANcreate", V("an"), 1000, 1, 1, bind="n")
    p.call("i", "ANwriteann", V("n"), b"a description", 13)
    p.call("i", "ANendaccess", V("n"))
    p.call("i", "ANcreatef", V("an"), 3, bind="n")
    p.call("i", "ANwriteann", V("n"), b"file description", 16)
    p.call("i", "ANendaccess", V("n"))
    p.call("i", "ANcreate", V("an"), 1000, 1, 0, bind="n")
    p.call("i", "ANwriteann", V("n"), b"object label", 12)
    p.call("i", "ANendaccess", V("n"))
    p.call("i", "ANend", V("an"))
    p.call("i", "Hclose", V("f"))
    return p, [f, os.path.join(d, "combo.ext")]


def combo_reader(d, fname="combo.hdf", acc=1):
    """reads every object of the combo file through its interface (transcript = logical content)"""
    p = Prog()
    f = os.path.join(d, fname)
    p.call("i", "SDstart", f, acc, bind="sd")
    p.call("i", "SDfileinfo", V("sd"), Out(4), Out(4))
    for i, n in ((0, 48), (1, 50), (2, 24)):
        p.call("i", "SDselect", V("sd"), i, bind="s")
        p.call("i", "SDgetinfo", V("s"), OutS(100), Out(4), Out(128), Out(4), Out(4))
        if i == 0:
            p.call("i", "SDreaddata", V("s"), i32s(0, 0), None, i32s(3, 4), Out(48))
            p.call("i", "SDreadattr", V("s"), 0, Out(3))
        elif i == 1:
            p.call("i", "SDreaddata", V("s"), i32s(0, 0), None, i32s(5, 5), Out(50))
        else:
            p.call("i", "SDreaddata", V("s"), i32s(0), None, i32s(6), Out(24))
        p.call("i", "SDendaccess", V("s"))
    p.call("i", "SDreadattr", V("sd"), 0, Out(5))
    p.call("i", "SDend", V("sd"))
    p.call("i", "Hopen", f, acc, 0, bind="f")
    for tag, n in ((1000, 40), (1002, 50), (1003, 60), (1004, 16)):
        p.call("i", "Hgetelement", V("f"), tag, 1, Out(n + 4))
    p.call("i", "Vinitialize", V("f"))
    p.call("i", "VSfind", V("f"), "table", bind="vr")
    p.call("i", "VSattach", V("f"), V("vr"), "r", bind="vs")
    p.call("i", "VSsetfields", V("vs"), "a,b")
    p.call("i", "VSread", V("vs"), Out(120), 10, 0)
    p.call("i", "VSgetattr", V("vs"), -1, 0, Out(4))
    p.call("i", "VSdetach", V("vs"))
    p.call("i", "Vfind", V("f"), "group", bind="gref")
    p.call("i", "Vattach", V("f"), V("gref"), "r", bind="g")
    p.call("i", "Vgettagrefs", V("g"), Out(40), Out(40), 10)
    p.call("i", "Vgetattr", V("g"), 0, Out(4))
    p.call("i", "Vdetach", V("g"))
    p.call("i", "Vfinish", V("f"))
    p.call("i", "GRstart", V("f"), bind="gr")
    p.call("i", "GRselect", V("gr"), 0, bind="ri")
    p.call("i", "GRreadimage", V("ri"), i32s(0, 0), None, i32s(5, 4), Out(60))
    p.call("i", "GRgetlutid", V("ri"), 0, bind="lut")
    p.call("i", "GRreadlut", V("lut"), Out(768))
    p.call("i", "GRgetattr", V("ri"), 0, Out(2))
    p.call("i", "GRendaccess", V("ri"))
    p.call("i", "GRend", V("gr"))
    p.call("i", "ANstart", V("f"), bind="an")
    p.call("i", "hx_an_all", V("an"), 2, Out(20 * 8), 8)
    p.call("i", "hx_an_all", V("an"), 1, Out(20 * 8), 8)
    p.call("i", "ANselect", V("an"), 0, 1, bind="n")
    p.call("i", "ANreadann", V("n"), Out(13), 13)
    p.call("i", "ANendaccess", V("n"))
    p.call("i", "ANend", V("an"))
    p.call("i", "Hclose", V("f"))
    return p
