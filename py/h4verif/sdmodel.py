"""Shared SD (scientific dataset) machinery: number types, array model with fill/unknown cells,
logical histories, and emission of h4x programs under a storage configuration (C03, C04, C10...)."""
import struct, os
import numpy as np
from hypothesis import strategies as st
from .exe import Prog, V, Out, OutS, InOut, i32s, un_i32s

DFNT_NATIVE, DFNT_LITEND = 0x1000, 0x4000
# name -> (DFNT code, numpy native dtype, default fill (bit pattern as python value))
NT = {
    "uchar8": (3, np.uint8, 0), "char8": (4, np.int8, 0),
    "float32": (5, np.float32, np.float32(9.9692099683868690e+36)),
    "float64": (6, np.float64, np.float64(9.9692099683868690e+36)),
    "int8": (20, np.int8, -127), "uint8": (21, np.uint8, 0x81),
    "int16": (22, np.int16, -32767), "uint16": (23, np.uint16, 0x8001),
    "int32": (24, np.int32, -2147483647), "uint32": (25, np.uint32, 0x80000001),
}
INT_NTS = ["int8", "uint8", "int16", "uint16", "int32", "uint32"]
SD_UNLIMITED = 0
SD_FILL, SD_NOFILL = 0, 0x100
COMP_NONE, COMP_RLE, COMP_NBIT, COMP_SKPHUFF, COMP_DEFLATE = 0, 1, 2, 3, 4
HDF_NONE, HDF_CHUNK, HDF_COMP, HDF_NBIT = 0x0, 0x1, 0x3, 0x5


def nt_code(nt, flavour):
    c = NT[nt][0]
    if flavour == "native":
        c |= DFNT_NATIVE
    elif flavour == "little":
        c |= DFNT_LITEND
    return c


def gen_values(nt, seed, n):
    dt = NT[nt][1]
    idx = np.arange(n, dtype=np.int64)
    if nt.startswith("float"):
        v = (seed * 100.0 + idx * 0.5 + 0.25).astype(dt)
    else:
        info = np.iinfo(dt)
        span = int(info.max) - int(info.min) + 1
        v = ((seed * 37 + idx * 3 + 1) % span + int(info.min)).astype(np.int64).astype(dt)
    return v


class ArrayModel:
    """n-d array with per-cell state: 0 untouched (no data stored yet), 1 known value, 2 fill, 3 unknown.
    fill_on is the file-level fill mode in force (SDsetfillmode is per file and not persistent)."""
    UNTOUCHED, KNOWN, FILL, UNKNOWN = 0, 1, 2, 3

    def __init__(self, nt, dims, fillmode_on, user_fill=None):
        self.nt = nt
        self.dt = NT[nt][1]
        self.unlimited = dims[0] == SD_UNLIMITED
        self.dims = list(dims)
        shape = list(dims)
        if self.unlimited:
            shape[0] = 0
        self.val = np.zeros(shape, dtype=self.dt)
        self.st = np.zeros(shape, dtype=np.uint8)
        self.fill_on = fillmode_on
        self.user_fill = user_fill          # numpy scalar or None
        self.written = False
        self.pre_taint_fill = None          # fill mode in force at refused writes issued before any data existed

    @property
    def rank(self):
        return len(self.dims)

    def fill_value(self):
        if self.user_fill is not None:
            return self.dt(self.user_fill) if not isinstance(self.user_fill, np.generic) else self.user_fill
        f = NT[self.nt][2]
        if isinstance(f, np.generic):
            return f
        return np.array([f]).astype(np.int64).astype(self.dt)[0] if f < 0 else np.array([f], dtype=np.uint64).astype(
            self.dt)[0]

    def cur_shape(self):
        return list(self.val.shape)

    def _grow(self, nrec):
        old = self.val.shape[0]
        if nrec <= old:
            return
        shape = list(self.val.shape)
        shape[0] = nrec
        nv = np.zeros(shape, dtype=self.dt)
        ns = np.zeros(shape, dtype=np.uint8)
        nv[:old] = self.val
        ns[:old] = self.st
        # new records: fill (fill mode) or unknown
        ns[old:] = self.FILL if self.fill_on else self.UNKNOWN
        self.val, self.st = nv, ns

    def _untouched_state(self):
        """State of cells no write has touched. A refused write issued before any data were stored may or may
        not have allocated the storage (pre-filling it only if fill mode was on at that moment), so such cells
        are only known to hold the fill value if fill mode was on then and is on now."""
        return self.FILL if (self.fill_on and self.pre_taint_fill is not False) else self.UNKNOWN

    def first_write_prefill(self):
        if not self.written:
            self.written = True
            self.st[self.st == self.UNTOUCHED] = self._untouched_state()

    def classify(self, start, stride, count):
        """returns 'ok', 'grow' (legal growth along unlimited), or 'bad' (outside the extent)"""
        r = self.rank
        stride = stride or [1] * r
        shape = self.cur_shape()
        kind = "ok"
        for i in range(r):
            if count[i] <= 0 or stride[i] <= 0 or start[i] < 0:
                return "bad"
            last = start[i] + (count[i] - 1) * stride[i]
            lim = shape[i] if not (self.unlimited and i == 0) else None
            if lim is None:
                if last >= shape[0]:
                    kind = "grow"
            elif last >= lim:
                return "bad"
        return kind

    def slicer(self, start, stride, count):
        stride = stride or [1] * self.rank
        return tuple(slice(start[i], start[i] + (count[i] - 1) * stride[i] + 1, stride[i]) for i in range(self.rank))

    def write(self, start, stride, count, values):
        stride = stride or [1] * self.rank
        if self.unlimited:
            self._grow(start[0] + (count[0] - 1) * stride[0] + 1)
        self.first_write_prefill()
        sl = self.slicer(start, stride, count)
        self.val[sl] = values.reshape(count)
        self.st[sl] = self.KNOWN

    def taint(self, start, stride, count):
        """a refused out-of-range write: cells of the request that lie inside the array become unknown"""
        stride = stride or [1] * self.rank
        # a refused write may already have allocated (and, in fill mode, pre-filled) the storage -- or not
        if not self.written:
            self.pre_taint_fill = bool(self.fill_on) and self.pre_taint_fill is not False
        shape = self.cur_shape()
        idx = []
        for i in range(self.rank):
            if stride[i] <= 0 or count[i] <= 0:
                return
            ii = [start[i] + k * stride[i] for k in range(count[i])]
            ii = [x for x in ii if 0 <= x < shape[i]]
            if not ii:
                return
            idx.append(ii)
        self.st[np.ix_(*idx)] = self.UNKNOWN

    def expect(self, start, stride, count):
        sl = self.slicer(start, stride, count)
        v = self.val[sl].copy()
        s = self.st[sl].copy()
        # data never stored at all: the SD interface returns the fill value
        s[s == self.UNTOUCHED] = self._untouched_state()
        v[s == self.FILL] = self.fill_value()
        return v.reshape(-1), s.reshape(-1)


# ------------------------------------------------------------------------------ history generation
@st.composite
def dataset_decl(draw, max_rank=4, max_ext=7, nts=None, allow_unlimited=True, flavours=("std", "little", "native")):
    rank = draw(st.integers(1, max_rank))
    dims = [draw(st.integers(1, max_ext)) for _ in range(rank)]
    if allow_unlimited and draw(st.integers(0, 9)) < 3:
        dims[0] = SD_UNLIMITED
    nt = draw(st.sampled_from(nts or sorted(NT)))
    flavour = draw(st.sampled_from(list(flavours)))
    fillmode = draw(st.sampled_from([SD_FILL, SD_FILL, SD_NOFILL]))
    user_fill = None
    if draw(st.booleans()):
        user_fill = draw(st.integers(-100, 100))
        if nt in ("uchar8", "uint8", "uint16", "uint32"):
            user_fill = abs(user_fill)
    return {"rank": rank, "dims": dims, "nt": nt, "flavour": flavour, "fillmode": fillmode, "user_fill": user_fill}


def draw_slab(draw, shape, unlimited, in_range_bias=8):
    """start/stride/count around the legal box"""
    r = len(shape)
    start, stride, count = [], [], []
    use_stride = draw(st.integers(0, 9)) < 5
    mode = draw(st.integers(0, 9))
    for i in range(r):
        ext = shape[i] if not (unlimited and i == 0) else max(shape[i], 1) + draw(st.integers(0, 3))
        ext = max(ext, 1)
        s = draw(st.integers(0, ext - 1))
        sd = draw(st.integers(1, 3)) if use_stride else 1
        maxc = (ext - 1 - s) // sd + 1
        c = draw(st.integers(1, maxc))
        start.append(s); stride.append(sd); count.append(c)
    if mode >= in_range_bias:
        # push one axis out of range in some way
        ax = draw(st.integers(0, r - 1))
        how = draw(st.integers(0, 3))
        if how == 0:
            count[ax] += draw(st.integers(1, 2)) + ((shape[ax] - 1 - start[ax]) // stride[ax] + 1 - count[ax])
        elif how == 1:
            start[ax] = shape[ax] + draw(st.integers(0, 1))
        elif how == 2:
            start[ax] = -1
        else:
            stride[ax] = stride[ax] + shape[ax]
            count[ax] = max(count[ax], 2)
    return start, (stride if use_stride else None), count
