"""Client side of the h4x executor: program builder, runner, result parser."""
import os, subprocess, struct, shutil, tempfile, signal

VERIF = os.environ.get("VERIF_ROOT", "/verif")
BUILD = os.environ.get("H4_BUILD", os.path.join(VERIF, "build"))
H4X = os.path.join(BUILD, "h4x")

FAIL = -1
SUCCEED = 0


class V:
    """Reference to an executor variable (optionally with an integer offset)."""
    __slots__ = ("name", "off")

    def __init__(self, name, off=0):
        self.name, self.off = name, off

    def __add__(self, k):
        return V(self.name, self.off + k)

    def tok(self):
        if self.off == 0:
            return "$" + self.name
        return "$%s%+d" % (self.name, self.off)


class Out:
    __slots__ = ("n", "bind")

    def __init__(self, n, bind=None):
        self.n, self.bind = n, bind


class OutS:
    __slots__ = ("n",)

    def __init__(self, n):
        self.n = n


class InOut:
    __slots__ = ("data", "bind")

    def __init__(self, data, bind=None):
        self.data, self.bind = bytes(data), bind


def pct(s):
    if isinstance(s, str):
        s = s.encode("latin-1")
    if len(s) == 0:
        return "%"
    out = []
    for c in s:
        if 0x20 < c < 0x7f and c != 0x25:
            out.append(chr(c))
        else:
            out.append("%%%02x" % c)
    return "".join(out)


def unpct(t):
    if t == "%":
        return b""
    out = bytearray()
    i = 0
    while i < len(t):
        if t[i] == "%":
            out.append(int(t[i + 1:i + 3], 16))
            i += 3
        else:
            out.append(ord(t[i]))
            i += 1
    return bytes(out)


def i32s(*vals):
    return struct.pack("=%di" % len(vals), *vals)


def un_i32s(b):
    return list(struct.unpack("=%di" % (len(b) // 4), b))


def un_u16s(b):
    return list(struct.unpack("=%dH" % (len(b) // 2), b))


class Prog:
    def __init__(self):
        self.lines = []
        self.notes = []   # human-readable op summaries, parallel to lines

    def raw(self, line, note=None):
        self.lines.append(line)
        self.notes.append(note or line)
        return len(self.lines)  # 1-based line number

    def call(self, rt, fn, *args, bind=None, note=None):
        toks = []
        if bind:
            toks.append("=" + bind)
        toks.append(rt)
        toks.append(fn)
        for a in args:
            if a is None:
                toks.append("n")
            elif isinstance(a, bool):
                toks.append("1" if a else "0")
            elif isinstance(a, int):
                toks.append(str(a))
            elif isinstance(a, V):
                toks.append(a.tok())
            elif isinstance(a, str):
                toks.append("s:" + pct(a))
            elif isinstance(a, (bytes, bytearray)):
                toks.append("x:" + bytes(a).hex())
            elif isinstance(a, Out):
                toks.append("o:%d%s" % (a.n, ("=" + a.bind) if a.bind else ""))
            elif isinstance(a, OutS):
                toks.append("os:%d" % a.n)
            elif isinstance(a, InOut):
                toks.append("io:%s%s" % (a.data.hex(), ("=" + a.bind) if a.bind else ""))
            elif isinstance(a, float):
                toks.append("d:%r" % a)
            else:
                raise TypeError("bad arg %r for %s" % (a, fn))
        return self.raw(" ".join(toks), note)

    def mark(self, text):
        return self.raw("!mark " + text)

    def counts(self):
        return self.raw("!counts")

    def copy(self, src, dst):
        return self.raw("!copy %s %s" % (src, dst))

    def text(self):
        return "\n".join(self.lines) + "\n"


class Res:
    """Result of one executed line."""
    __slots__ = ("ret", "bufs", "kind", "raw")

    def __init__(self, kind, ret, bufs, raw):
        self.kind, self.ret, self.bufs, self.raw = kind, ret, bufs, raw


class RunResult:
    def __init__(self):
        self.res = {}        # lineno -> Res
        self.done = False
        self.rc = None
        self.signal = None
        self.stderr = ""
        self.timeout = False
        self.harness_error = None
        self.last_line = 0

    @property
    def crashed(self):
        return not self.done and self.harness_error is None

    def sanitizer_summary(self):
        for l in self.stderr.splitlines():
            if l.startswith("SUMMARY:") or "runtime error:" in l:
                return l.strip()
        if self.signal:
            return "signal %d" % self.signal
        if self.timeout:
            return "timeout"
        return "exit code %s without completion" % self.rc

    def fault_stack(self):
        """function names on the stack of the stdio call that was made to fail (needs fault_stack=True)"""
        out, on = [], False
        for l in self.stderr.splitlines():
            l = l.strip()
            if l == "H4X-FAULT-STACK":
                on = True
            elif l == "H4X-FAULT-STACK-END":
                break
            elif on and l.startswith("#"):
                parts = l.split()
                if len(parts) >= 4 and parts[2] == "in":
                    out.append(parts[3])
        return out

    def crash_frames(self, n=6):
        out = []
        for l in self.stderr.splitlines():
            l = l.strip()
            if l.startswith("#"):
                parts = l.split()
                if len(parts) >= 4 and parts[2] == "in":
                    out.append(parts[3])
                if len(out) >= n:
                    break
        return out


def parse_output(text, rr):
    for line in text.splitlines():
        if not line:
            continue
        k = line[0]
        parts = line.split(" ")
        if k == "R":
            ln = int(parts[1])
            rtok = parts[2]
            if rtok == "NULL":
                ret = None
            elif rtok.startswith("S:"):
                ret = unpct(rtok[2:])
            else:
                ret = int(rtok)
            bufs = []
            for t in parts[3:]:
                if t.startswith("S:"):
                    bufs.append(unpct(t[2:]))
                elif t.startswith("U:"):
                    bufs.append(("unterminated", unpct(t[2:])))
                elif t == "-":
                    bufs.append(b"")
                else:
                    bufs.append(bytes.fromhex(t))
            rr.res[ln] = Res("R", ret, bufs, line)
            rr.last_line = ln
        elif k == "C":
            ln = int(parts[1])
            d = {}
            for t in parts[2:]:
                a, b = t.split("=")
                d[a] = int(b)
            rr.res[ln] = Res("C", d, [], line)
        elif k == "P":
            ln = int(parts[1])
            rr.res[ln] = Res("P", dict(n=int(parts[2]), nfail=int(parts[3]), first=int(parts[4]),
                                       last=int(parts[5]),
                                       firstfail=int(parts[6]) if len(parts) > 6 else -1), [], line)
            rr.last_line = ln
        elif k == "E":
            rr.harness_error = line
        elif k == "Z":
            rr.done = True


_ENV_BASE = None


def base_env():
    global _ENV_BASE
    if _ENV_BASE is None:
        e = dict(os.environ)
        e["ASAN_OPTIONS"] = "detect_leaks=0:abort_on_error=0:allocator_may_return_null=1:handle_abort=1"
        e["UBSAN_OPTIONS"] = "halt_on_error=1:print_stacktrace=1"
        e.setdefault("H4X_TIMEOUT", "60")
        _ENV_BASE = e
    return dict(_ENV_BASE)


def run_text(text, cwd=None, fault=None, wlog=None, track=None, timeout=90, exe=None, trace=None, fault_stack=False):
    env = base_env()
    if fault_stack:
        env["H4X_FAULT_STACK"] = "1"
    if fault is not None:
        env["H4X_FAULT"] = fault
    if wlog:
        env["H4X_WLOG"] = wlog
    if track:
        env["H4X_TRACK"] = track
    if trace:
        env["H4X_TRACE"] = trace
    rr = RunResult()
    try:
        p = subprocess.run([exe or H4X], input=text.encode("latin-1"), stdout=subprocess.PIPE,
                           stderr=subprocess.PIPE, cwd=cwd, env=env, timeout=timeout)
    except subprocess.TimeoutExpired as ex:
        rr.timeout = True
        parse_output((ex.stdout or b"").decode("latin-1"), rr)
        rr.stderr = (ex.stderr or b"").decode("latin-1", "replace")
        return rr
    rr.rc = p.returncode
    if p.returncode < 0:
        rr.signal = -p.returncode
        if rr.signal == signal.SIGALRM:
            rr.timeout = True
    rr.stderr = p.stderr.decode("latin-1", "replace")
    parse_output(p.stdout.decode("latin-1"), rr)
    if rr.rc != 0:
        rr.done = False
    return rr


def run(prog, **kw):
    return run_text(prog.text(), **kw)


# ---------------------------------------------------------------- scratch dirs
_SCRATCH_ROOT = None


_SCRATCH_PID = None


def scratch_root():
    global _SCRATCH_ROOT, _SCRATCH_PID
    if _SCRATCH_ROOT is not None and _SCRATCH_PID != os.getpid():
        _SCRATCH_ROOT = None        # forked worker: own scratch root (the parent removes its own at exit)
    if _SCRATCH_ROOT is None:
        _SCRATCH_PID = os.getpid()
        base = os.environ.get("VERIF_TMP")
        if not base:
            base = "/dev/shm" if os.path.isdir("/dev/shm") and os.access("/dev/shm", os.W_OK) else \
                os.path.join(BUILD, "tmp")
        os.makedirs(base, exist_ok=True)
        _SCRATCH_ROOT = tempfile.mkdtemp(prefix="h4verif.%d." % os.getpid(), dir=base)
        import atexit
        root, pid = _SCRATCH_ROOT, _SCRATCH_PID
        atexit.register(lambda: os.getpid() == pid and shutil.rmtree(root, ignore_errors=True))
    return _SCRATCH_ROOT


class CaseDir:
    """Fresh scratch directory for one case; removed on exit."""
    _n = 0

    def __enter__(self):
        CaseDir._n += 1
        self.path = os.path.join(scratch_root(), "c%d" % CaseDir._n)
        os.makedirs(self.path, exist_ok=True)
        return self.path

    def __exit__(self, *a):
        shutil.rmtree(self.path, ignore_errors=True)
