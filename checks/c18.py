"""C18 — hrepack preserves all content while changing only layout."""
import os, subprocess, struct
import numpy as np
from hypothesis import strategies as st
from h4verif.exe import Prog, V, run, CaseDir, BUILD, base_env, i32s
from h4verif.runner import CaseResult
from checks import c02

PROPERTY = "C18"
LEVEL = "exploration"
NEED = ("h4x", "tools")
RULE = ("input files generated as for C02 (SD datasets of 8 layouts incl. unlimited, empty and already chunked/"
        "compressed ones, vdatas, nested vgroups, images with palettes, attributes, annotations) are repacked by the "
        "hrepack binary with a generated option set (-t per-object or '*' with RLE / HUFF n / GZIP n / NONE, -c chunk "
        "shapes or NONE, -m threshold, options on the command line or in a -f file). Oracle: exit status 0; a "
        "canonical API-level description of input and output (names, hierarchy, dimensions, types, attributes, "
        "dimension names and scales, palettes, annotations, all data values; written by the harness through the "
        "library API, independent of hdiff) must be equal once the layout columns are masked; every dataset/image "
        "large enough and selected by an option must have the requested compression / chunk shape in the output "
        "(SDgetcompinfo/SDgetchunkinfo/GRgetcompinfo); repacking the "
        "output again with a second generated option set yields equal content again. Non-trivial = at least one "
        "object's layout was changed by the options and the file holds >= 2 kinds of objects.")
BUDGET = {"quick": {"shards": 8, "cases": 200}, "thorough": {"shards": 16, "cases": 3000}}
MIN_NT = {"quick": 300, "thorough": 9000}
ASSUMPTIONS = ["options name only objects that exist and chunk shapes that fit the object's rank and extents",
               "JPEG and SZIP are not requested (lossy / not built)",
               "an unlimited dataset that is compressed becomes fixed-size in the output by design: the record flag is "
               "treated as layout"]
HREPACK = os.path.join(BUILD, "tools", "hrepack")
COMP_CODE = {"NONE": 0, "RLE": 1, "HUFF": 3, "GZIP": 4}


class Fail(Exception):
    def __init__(self, kind, **info):
        self.info = dict(kind=kind, **info)


def nontrivial(labels):
    return "layout_changed" in labels and "multi_kind" in labels


@st.composite
def options_st(draw, sds, imgs):
    """sds: list of (name, dims); imgs: list of (name, (x, y))."""
    opts = {"t": [], "c": [], "m": draw(st.sampled_from([None, None, 1, 64, 1024, 4000])), "file": draw(st.booleans())}
    names = [n for n, _ in sds] + [n for n, _ in imgs]

    def comp():
        k = draw(st.sampled_from(["RLE", "HUFF", "GZIP", "GZIP", "NONE"]))
        if k == "HUFF":
            return "HUFF %d" % draw(st.sampled_from([1, 2, 4]))
        if k == "GZIP":
            return "GZIP %d" % draw(st.integers(1, 9))
        return k
    mode = draw(st.integers(0, 3))
    if names and mode == 1:
        opts["t"].append(["*", comp()])
    elif names and mode >= 2:
        pool = list(names)
        for _ in range(draw(st.integers(1, 2))):
            if not pool:
                break
            pick = draw(st.lists(st.sampled_from(pool), min_size=1, max_size=3, unique=True))
            for x in pick:
                pool.remove(x)
            opts["t"].append([pick, comp()])
    cm = draw(st.integers(0, 3))
    if names and cm == 1:
        opts["c"].append(["*", "NONE"])
    elif cm >= 2:
        for n, dims in draw(st.lists(st.sampled_from(sds + [(n, list(xy)) for n, xy in imgs]), max_size=2,
                                     unique_by=lambda x: x[0])) if (sds or imgs) else []:
            if draw(st.integers(0, 4)) == 0:
                opts["c"].append([[n], "NONE"])
            else:
                opts["c"].append([[n], "x".join(str(draw(st.integers(1, max(1, dd)))) for dd in dims)])
    return opts


@st.composite
def strategy_(draw, tier):
    base = draw(c02.strategy_(tier))
    # make some datasets big enough for the default 1024-byte threshold
    for o in base["objs"]:
        if o["kind"] == "sds" and draw(st.booleans()):
            o["dims"] = [d * draw(st.integers(2, 4)) for d in o["dims"]]
            if "chunk" in o:
                o["chunk"] = [max(1, min(c, d)) for c, d in zip(o["chunk"], o["dims"])]
            rows = o["dims"][0]
            o["parts"] = [[0, rows, o["parts"][0][2] if o["parts"] else o["sess"]]] if o["parts"] or o["layout"] in ("deflate", "rle") else []
        if o["kind"] == "gr" and draw(st.booleans()):
            o["xdim"] *= draw(st.integers(2, 6))
            o["ydim"] *= draw(st.integers(2, 6))
    sds = [(o["name"], o["dims"]) for o in base["objs"] if o["kind"] == "sds"]
    imgs = [(o["name"], (o["xdim"], o["ydim"])) for o in base["objs"] if o["kind"] == "gr"]
    case = {"file": base, "opts": draw(options_st(sds, imgs)), "opts2": draw(options_st(sds, imgs))}
    if draw(st.integers(0, 29 if tier == "thorough" else 44)) == 0:
        # one dataset larger than hrepack's 1 MiB copy buffer (it is then copied strip by strip)
        case["big"] = draw(st.integers(0, len(BIG) - 1))
    return case


BIG = [("float32", [5, 300, 1000]), ("float32", [3, 300000]), ("int32", [2, 700, 400]), ("int16", [4, 1100, 300]),
       ("uint8", [3, 1100000]), ("float64", [3, 50, 1000])]


def strategy(tier):
    return strategy_(tier)


def opt_args(opts, d, tag):
    args, lines = [], []
    for objs, comp in opts["t"]:
        lines.append(("-t", "%s:%s" % (objs if objs == "*" else ",".join(objs), comp)))
    for objs, ch in opts["c"]:
        lines.append(("-c", "%s:%s" % (objs if objs == "*" else ",".join(objs), ch)))
    if opts["file"] and lines:
        fn = os.path.join(d, "opts_%s.txt" % tag)
        with open(fn, "w") as f:
            for k, v in lines:
                f.write("%s \"%s\"\n" % (k, v))
        args += ["-f", fn]
    else:
        for k, v in lines:
            args += [k, v]
    if opts["m"] is not None:
        args += ["-m", str(opts["m"])]
    return args


def describe(d, fname):
    out = fname + ".desc"
    rr = run(Prog_desc(fname, out), cwd=d, timeout=120)
    if not rr.done or rr.res[1].ret != 0:
        raise Fail("the API-level description of %s could not be produced" % fname, detail=rr.sanitizer_summary(),
                   frames=rr.crash_frames(), text=rr.stderr[-1200:])
    with open(os.path.join(d, out)) as f:
        return [l.rstrip("\n") for l in f]


def Prog_desc(fname, out):
    p = Prog()
    p.call("i", "hx_describe", fname, out)
    return p


def split_layout(lines):
    """-> (content lines with layout masked, layout dict name -> (kind, comp, chunk, rec, nbytes, empty))."""
    content, layout = [], {}
    for l in lines:
        f = l.split(" ")
        if f[0] == "SDS":
            name, rank, dims, nt, rec, comp, chunk, empty, data = f[1:10]
            n = 0 if data in ("-", "READFAIL") else len(data) // 2
            layout[("sds", name)] = dict(comp=int(comp), chunk=chunk, rec=int(rec), nbytes=n, empty=int(empty), dims=dims)
            content.append(" ".join(["SDS", name, rank, dims, nt, "L", "L", "L", empty, data]))
        elif f[0] == "RI":
            name, x, y, nc, nt, comp, chunk, data, lut = f[1:10]
            layout[("ri", name)] = dict(comp=int(comp), chunk=chunk, rec=0, nbytes=len(data) // 2 if data != "-" else 0,
                                        empty=0, dims="%s,%s" % (x, y))
            content.append(" ".join(["RI", name, x, y, nc, nt, "L", "L", data, lut]))
        elif f[0] == "SDSDIM":
            # the size column of an unlimited dimension is 0: the record flag is layout
            content.append(" ".join(f[:4] + ["S"] + f[5:]))
        else:
            content.append(l)
    return sorted(content), layout


def run_hrepack(d, inp, out, args):
    env = base_env()
    try:
        p = subprocess.run([HREPACK, "-i", inp, "-o", out] + args, cwd=d, env=env, stdout=subprocess.PIPE,
                           stderr=subprocess.PIPE, timeout=120)
    except subprocess.TimeoutExpired:
        raise Fail("hrepack did not finish within 120 s", args=args)
    return p.returncode, p.stdout.decode("latin-1")[-1500:], p.stderr.decode("latin-1")[-2500:]


def expected_layout(name_kind, lay_in, opts):
    """(comp code or None if unspecified, chunk spec or None) requested for this object, with the threshold."""
    kind, name = name_kind
    thr = 1024 if opts["m"] is None else opts["m"]
    comp = None
    for objs, c in opts["t"]:
        if objs == "*" or name in objs:
            comp = COMP_CODE[c.split(" ")[0]]
    chunk = None
    for objs, ch in opts["c"]:
        if objs == "*" or name in objs:
            chunk = ch
    return comp, chunk, thr


def run_case(case):
    labels = set()
    sample = dict(opts=case["opts"], objs=["%s:%s" % (o["kind"], o.get("layout") or o.get("hkind") or "")
                                           for o in case["file"]["objs"]][:12])
    excluded, known_keys = [], set()
    with CaseDir() as d:
        try:
            check(case, d, labels, excluded, known_keys)
        except Fail as f:
            info = f.info
            info["known_keys"] = sorted(known_keys)
            return CaseResult(labels=labels, failure=info, sample=sample, excluded=excluded)
    return CaseResult(labels=labels, sample=sample, excluded=excluded)


def check(case, d, labels, excluded, known_keys):
    import copy
    fc = copy.deepcopy(case["file"])
    # an object that is a member of two vgroups is copied once per vgroup by hrepack (known finding
    # C18-shared-member-duplicated): unless probing, every vdata belongs to at most one vgroup
    used = set()
    for o in fc["objs"]:
        if o["kind"] == "vg":
            shared = [m for m in o["members"] if m in used]
            if shared:
                known_keys.add("C18-shared-member-duplicated")
                if not case.get("no_exclude"):
                    excluded.append("C18-shared-member-duplicated")
                    o["members"] = [m for m in o["members"] if m not in used]
            used.update(o["members"])
    model = {"_created": False}
    progs = c02.build_sessions(fc, d, model)
    text = ""
    for si, p in enumerate(progs):
        if not p.lines:
            continue
        rr = run(p, cwd=d, timeout=120)
        text += p.text()
        if not rr.done:
            raise Fail("harness: building the input file crashed", detail=rr.sanitizer_summary(), program=text[-3000:])
    if case.get("big") is not None:
        nt_, dims_ = BIG[case["big"]]
        code_ = {"float32": 5, "float64": 6, "int32": 24, "int16": 22, "uint8": 21}[nt_]
        bp = Prog()
        bp.call("i", "SDstart", "f.hdf", 3 if os.path.exists(os.path.join(d, "f.hdf")) else 4, bind="sd")
        bp.call("i", "SDcreate", V("sd"), "bigcube", code_, len(dims_), i32s(*dims_), bind="s")
        plane = int(np.prod(dims_[1:]))
        for k_ in range(dims_[0]):
            v_ = ((np.arange(plane, dtype=np.int64) * 7 + k_ * 100003) % 250).astype(nt_)
            bp.call("i", "SDwritedata", V("s"), i32s(*([k_] + [0] * (len(dims_) - 1))), None, i32s(*([1] + dims_[1:])), v_.tobytes())
        bp.call("i", "SDendaccess", V("s"))
        bp.call("i", "SDend", V("sd"))
        rb_ = run(bp, cwd=d, timeout=300)
        if not rb_.done or any(r_.ret == -1 for r_ in rb_.res.values() if r_.kind == "R"):
            raise Fail("harness: adding the large dataset failed", detail=rb_.sanitizer_summary())
        labels.add("dataset_larger_than_copy_buffer")
    if not os.path.exists(os.path.join(d, "f.hdf")):
        return
    kinds = set(o["kind"] for o in fc["objs"])
    if len(kinds) >= 2:
        labels.add("multi_kind")
    din = describe(d, "f.hdf")
    cin, lin = split_layout(din)
    prev_lay = lin
    src = "f.hdf"
    for step, key in enumerate(("opts", "opts2")):
        opts = case[key]
        out = "out%d.hdf" % step
        args = opt_args(opts, d, key)
        rc, so, se = run_hrepack(d, src, out, args)
        cmd = "hrepack -i %s -o %s %s" % (src, out, " ".join("'%s'" % a if " " in a or "*" in a else a for a in args))
        if "ERROR: AddressSanitizer" in se or "runtime error:" in se:
            raise Fail("hrepack: memory error / undefined behaviour", command=cmd, text=se[-2000:], step=step,
                       program=text[-3000:])
        if rc != 0:
            raise Fail("hrepack exited with status %d" % rc, command=cmd, stdout=so[-600:], stderr=se[-600:], step=step,
                       program=text[-3000:])
        dout = describe(d, out)
        cout, lout = split_layout(dout)
        if cout != cin:
            missing = [l for l in cin if l not in cout][:4]
            extra = [l for l in cout if l not in cin][:4]
            raise Fail("the repacked file does not hold the same content as the input", command=cmd, step=step,
                       only_in_input=[l[:300] for l in missing], only_in_output=[l[:300] for l in extra],
                       program=text[-3000:])
        # layout expectations
        for nk, li in prev_lay.items():
            lo = lout.get(nk)
            if lo is None:
                continue
            comp, chunk, thr = expected_layout(nk, li, opts)
            if li["empty"] or li["nbytes"] == 0:
                continue
            big = li["nbytes"] >= thr
            want_comp = li["comp"]
            if comp is not None and big:
                want_comp = comp
            want_chunk = "keep"
            if chunk is not None and big:
                want_chunk = chunk
            if li["rec"] and want_comp <= 0:
                want_chunk = "none_or_keep"          # unlimited datasets are not chunked
            if (comp is not None or chunk is not None) and big and (want_comp != li["comp"] or
                                                                     (chunk is not None and chunk != "NONE")):
                labels.add("layout_changed")
            ok_comp = {want_comp} if big or comp is None else {li["comp"], comp, 0}  # below the threshold any of these
            if comp is not None and lo["comp"] not in ok_comp and not (nk[0] == "ri" and want_comp == 3):
                raise Fail("an object does not have the requested compression in the output", command=cmd, object=nk,
                           input=li, output=lo, wanted=want_comp, step=step, program=text[-3000:])
            if not big:
                continue          # below the size threshold the tool may leave the chunking as it was
            if want_chunk == "NONE" and lo["chunk"] != "-":
                raise Fail("an object requested to be unchunked is still chunked", command=cmd, object=nk, output=lo,
                           step=step, program=text[-3000:])
            if want_chunk not in ("keep", "NONE", "none_or_keep"):
                got = lo["chunk"].split(":")[-1] if lo["chunk"] != "-" else "-"
                if got != want_chunk and nk[0] == "sds":
                    raise Fail("a dataset does not have the requested chunk shape in the output", command=cmd, object=nk,
                               wanted=want_chunk, output=lo, step=step, program=text[-3000:])
        prev_lay = lout
        src = out
        labels.add("repacked_%d" % (step + 1))


def known_match(case, failure, entry):
    if not case.get("no_exclude") or entry["key"] not in failure.get("known_keys", []):
        return False
    if entry["key"] == "C18-shared-member-duplicated":
        return failure.get("kind") == "the repacked file does not hold the same content as the input" and \
            not failure.get("only_in_input") and not failure.get("only_in_output")
    return False


RULE += (" " + "One case in thirty (quick tier: one in forty-five) adds a dataset of 1.2-6 MB (larger than hrepack's 1 MiB copy buffer; six shapes with a partial strip before the end).")
