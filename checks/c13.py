"""C13 — handles are safe: valid ones never alias, stale ones are always rejected."""
import os
from hypothesis import strategies as st
from h4verif.exe import Prog, V, Out, OutS, InOut, run, CaseDir, i32s
from h4verif.runner import CaseResult
from h4verif import workloads as wl

PROPERTY = "C13"
LEVEL = "exploration"
NEED = ("h4x",)
RULE = ("programs (<=45 steps) over two files holding objects of every interface: acquire/release steps for 12 "
        "identifier kinds (file, access element, Vdata, Vgroup, GR interface, raster image, palette, AN interface, "
        "annotation, SD file, dataset, dimension) in arbitrary order incl. nested opens of one path with different "
        "modes and Hclose with attached access elements, interleaved with *uses* whose identifier argument is drawn "
        "from: a live id of the right kind, a live id of another kind/interface/file, an id already released (double "
        "release, use after release), or a never-issued integer (-1, 0, small, high "
        "bit patterns); access elements are opened on plain, linked-block, compressed and external elements, several "
        "at once on one element; an optional warm-up of 1..140 open/close cycles moves the identifier counters first; two-identifier calls (Vinsert) are given a vgroup/vdata id of another open file. Oracle: liveness model keyed by variable: a use with a non-live or wrong-kind id must return "
        "the function's failure value (functions on the must-reject list), never crash; a use with a live id must "
        "act on its own object (file A and B hold different data); after all handles are released a full reader of "
        "file A must return the reference transcript (no retained state). Non-trivial = a stale or foreign id use "
        "while >=2 ids of the same kind are live.")
BUDGET = {"quick": {"shards": 8, "cases": 250}, "thorough": {"shards": 16, "cases": 3000}}
MIN_NT = {"quick": 300, "thorough": 5000}
ASSUMPTIONS = ["sequential programs (the library is documented non-thread-safe)",
               "SD dataset/dimension ids are encoded indices and annotation ids are not invalidated by ANendaccess: "
               "use after their release call is a known finding (C13-sds-ann-id-after-release) and excluded",
               "neighbours of live ids are not used as never-issued values: the library issues internal ids itself",
               "functions that do not validate their id at all (ANendaccess) are not on the must-reject list"]

# kind -> (open templates, release fn, uses)
#   open template: (fn, args builder given file index) ; needs parent kind
KINDS = ["fid", "aid", "vs", "vg", "gr", "ri", "lut", "an", "ann", "sd", "sds", "dim"]
PARENT = {"aid": "fid", "vs": "fid", "vg": "fid", "gr": "fid", "ri": "gr", "lut": "ri", "an": "fid", "ann": "an",
          "sds": "sd", "dim": "sds"}
FILES = ["combo.hdf", "combo_b.hdf"]


ETAGS = [1000, 1002, 1003, 1004, 1002, 1000]     # plain, linked-block, compressed, external elements of the combo file
SELEM = {1002: bytes(range(50))[:40], 1003: (b"ab" * 30)[:40], 1004: bytes(range(16))}


def open_call(p, kind, var, parent, fi, mode, etag=1000, etag_i=0):
    if kind == "fid":
        return p.call("i", "Hopen", FILES[fi], mode, 0, bind=var)
    if kind == "sd":
        return p.call("i", "SDstart", FILES[fi], mode, bind=var)
    if kind == "aid":
        return p.call("i", "Hstartread", V(parent), etag, 1, bind=var)
    if kind == "vs":
        return p.call("i", "hx_vsattach_named", V(parent), "table", bind=var)
    if kind == "vg":
        return p.call("i", "hx_vattach_named", V(parent), "group", bind=var)
    if kind == "gr":
        return p.call("i", "GRstart", V(parent), bind=var)
    if kind == "ri":
        return p.call("i", "GRselect", V(parent), 0, bind=var)
    if kind == "lut":
        return p.call("i", "GRgetlutid", V(parent), 0, bind=var)
    if kind == "an":
        return p.call("i", "ANstart", V(parent), bind=var)
    if kind == "ann":
        return p.call("i", "ANselect", V(parent), 0, [1, 3, 2, 0, 3, 1][etag_i % 6], bind=var)
    if kind == "sds":
        return p.call("i", "SDselect", V(parent), 0, bind=var)
    if kind == "dim":
        return p.call("i", "SDgetdimid", V(parent), 0, bind=var)


RELEASE = {"fid": "Hclose", "aid": "Hendaccess", "vs": "VSdetach", "vg": "Vdetach", "gr": "GRend", "ri": "GRendaccess",
           "an": "ANend", "ann": "ANendaccess", "sd": "SDend", "sds": "SDendaccess"}
# uses: kind -> list of (name, builder(p, idarg) -> lineno, failure value, identity check or None)
A_ELEM = bytes(range(40))
B_ELEM = b"B" * 40


def U(fn, *rest, fail=-1, rt="i", ident=None, must=True):
    return (fn, lambda p, i: p.call(rt, fn, i, *rest), fail, ident, must)


USES = {
    "fid": [U("Hnumber", 1000), U("Hnewref", fail=0, rt="u"), U("Hexist", 1000, 1),
            U("Hgetelement", 1000, 1, Out(44), ident="elem"), U("Hlength", 1000, 1), U("Hsync"),
            U("Hstartread", 1000, 1, must=True), U("Vinitialize", must=False), U("Hnumber", 0)],
    "aid": [U("Hread", 40, Out(44), ident="elemread"), U("Hseek", 0, 0), U("Htell"), U("Hinquire", None, Out(2), Out(2), Out(4), None, None, None, None),
            U("Htrunc", 2), U("Hwrite", 2, b"zz")],
    "vs": [U("VSelts"), U("VSinquire", Out(4), Out(4), OutS(100), Out(4), OutS(100)), U("VSseek", 0),
           U("VSgetclass", OutS(100)), U("VFnfields"), U("VSsizeof", "a")],
    "vg": [U("Vntagrefs"), U("Vgettagrefs", Out(40), Out(40), 10), U("Vgetname", OutS(100)), U("Vinqtagref", 1000, 1, fail=0, must=False)],
    "gr": [U("GRfileinfo", Out(4), Out(4)), U("GRselect", 0, must=True), U("GRnametoindex", "img")],
    "ri": [U("GRgetiminfo", OutS(100), Out(4), Out(4), Out(4), Out(8), Out(4)),
           U("GRreadimage", i32s(0, 0), None, i32s(5, 4), Out(60), ident="image"), U("GRidtoref", fail=0, rt="u"),
           U("GRgetlutid", 0)],
    "lut": [U("GRgetlutinfo", Out(4), Out(4), Out(4), Out(4)), U("GRreadlut", Out(768)), U("GRluttoref", fail=0, rt="u")],
    "an": [U("ANfileinfo", Out(4), Out(4), Out(4), Out(4)), U("ANnumann", 1, 1000, 1), U("ANselect", 0, 1)],
    "ann": [U("ANannlen"), U("ANreadann", Out(13), 13), U("ANid2tagref", Out(2), Out(2))],
    "sd": [U("SDfileinfo", Out(4), Out(4)), U("SDnametoindex", "plain"), U("SDselect", 0)],
    "sds": [U("SDgetinfo", OutS(100), Out(4), Out(128), Out(4), Out(4)),
            U("SDreaddata", i32s(0, 0), None, i32s(3, 4), Out(48), ident="sds"), U("SDgetdimid", 0), U("SDidtoref")],
    "dim": [U("SDdiminfo", OutS(100), Out(4), Out(4), Out(4)), U("SDgetdimscale", Out(64), must=False)],
}
LITERALS = [-1, 0, 1, 2, 7, 65536, 0x7fffffff, -2147483600, 0x1ffffff0, 0x2ffffff0, 0x4ffffff5, 0x5ffffff0, 393216, 262144, 327680]


def nontrivial(labels):
    return "bad_use_with_two_live" in labels


@st.composite
def strategy_(draw, tier):
    steps = []
    nopen = {}
    scen = draw(st.integers(0, 9))
    if scen >= 8:
        # directed opening: one open of a file, several access elements on ONE element of it (plain or special),
        # some of them released again, then Hclose while the others are still attached
        steps.append(["open", "fid", draw(st.integers(0, 1)), 0, draw(st.sampled_from([1, 3]))])
        e = draw(st.integers(0, len(ETAGS) - 1))
        na = draw(st.integers(2, 4))
        for _ in range(na):
            steps.append(["open", "aid", 0, 0, 1, e])
            if draw(st.integers(0, 3)) == 0:
                steps.append(["use", draw(st.integers(1, na)), draw(st.integers(0, 20))])
        for _ in range(draw(st.integers(0, na - 1))):
            steps.append(["release", draw(st.integers(1, na))])      # index 0 is the file itself
        steps.append(["closefid", 0])
        nopen["fid"] = 1
        nopen["aid"] = na
    elif scen == 7:
        # directed opening: an annotation id used after the ANend of its session (all four annotation types)
        steps.append(["open", "fid", draw(st.integers(0, 1)), 0, draw(st.sampled_from([1, 3]))])
        steps.append(["open", "an", 0, 0, 1, 0])
        steps.append(["open", "ann", 0, 0, 1, draw(st.integers(0, 5))])
        if draw(st.booleans()):
            steps.append(["use", 2, draw(st.integers(0, 20))])
        steps.append(["release", 2])
        steps.append(["release", 1])
        steps.append(["bad", "ann", draw(st.integers(0, 20)), "stale", draw(st.integers(0, 60))])
        nopen["fid"] = 1
    elif scen < 6:
        for _ in range(draw(st.integers(2, 3))):
            steps.append(["open", "fid", draw(st.integers(0, 1)), 0, draw(st.sampled_from([1, 1, 3]))])
        nopen["fid"] = 2
    for _ in range(draw(st.integers(6, 45))):
        c = draw(st.integers(0, 99))
        if c < 38:
            kind = draw(st.sampled_from(KINDS))
            if nopen.get(PARENT.get(kind), 1) == 0:
                kind = PARENT[kind] if nopen.get(PARENT.get(PARENT[kind]), 1) else "fid"
            nopen[kind] = nopen.get(kind, 0) + 1
            steps.append(["open", kind, draw(st.integers(0, 1)), draw(st.integers(0, 3)),
                          draw(st.sampled_from([1, 1, 3])), draw(st.integers(0, len(ETAGS) - 1))])
        elif c < 51:
            steps.append(["release", draw(st.integers(0, 60))])
        elif c < 54:
            steps.append(["closefid", draw(st.integers(0, 60))])     # Hclose of a file that has attached access elements
        elif c < 57:
            steps.append(["xfile", draw(st.integers(0, 60)), draw(st.integers(0, 9))])
        elif c < 75:
            steps.append(["use", draw(st.integers(0, 60)), draw(st.integers(0, 20))])       # valid use of a live id
        else:
            two = [k for k, v in nopen.items() if v >= 2]
            steps.append(["bad", draw(st.sampled_from(two)) if two and draw(st.integers(0, 9)) < 7 else
                          draw(st.sampled_from(KINDS)), draw(st.integers(0, 20)),
                          draw(st.sampled_from(["stale", "stale", "stale", "foreign", "foreign", "literal"])),
                          draw(st.integers(0, 60))])
    # identifiers are issued from per-kind counters and kept in hash tables (64 buckets for files): a warm-up of
    # opens and closes moves the counters to arbitrary residues before the history starts
    warm = 0
    if draw(st.integers(0, 2)) == 0:
        # counters at the edges of the hash tables (64 buckets for file ids) as well as arbitrary ones
        warm = draw(st.sampled_from([62, 63, 64, 126, 127, 128, 255])) if draw(st.booleans()) else draw(st.integers(1, 140))
    # every handle released => the file closes: an image moved to an external file before / after its data were
    # written / read (the library's own access element on the image data must be released with the image id)
    grext = draw(st.sampled_from([None, None, None, 0, 1, 2, 3]))
    return {"steps": steps, "warmup": warm, "grext": grext}


def strategy(tier):
    return strategy_(tier)


_REF = {}


def run_case(case):
    labels = set()
    with CaseDir() as d:
        # inputs: two combo files with different payloads
        pa, _ = wl.w_combo("")
        ra = run(pa, cwd=d)
        pb, _ = wl.w_combo("", fname="combo_b.hdf")
        pb.call("i", "Hopen", "combo_b.hdf", 3, 0, bind="f")
        pb.call("i", "Hputelement", V("f"), 1000, 1, B_ELEM, 40)
        pb.call("i", "GRstart", V("f"), bind="gr")
        pb.call("i", "GRselect", V("gr"), 0, bind="ri")
        pb.call("i", "GRwriteimage", V("ri"), i32s(0, 0), None, i32s(5, 4), b"\x42" * 60)
        pb.call("i", "GRendaccess", V("ri"))
        pb.call("i", "GRend", V("gr"))
        pb.call("i", "Hclose", V("f"))
        pb.call("i", "SDstart", "combo_b.hdf", 3, bind="sd")
        pb.call("i", "SDselect", V("sd"), 0, bind="s")
        pb.call("i", "SDwritedata", V("s"), i32s(0, 0), None, i32s(3, 4), b"\x07" * 48)
        pb.call("i", "SDendaccess", V("s"))
        pb.call("i", "SDend", V("sd"))
        rb = run(pb, cwd=d)
        if not (ra.done and rb.done):
            return CaseResult(failure=dict(kind="harness: building inputs failed",
                                           detail=ra.sanitizer_summary() + " / " + rb.sanitizer_summary()))
        ref = run(wl.combo_reader(""), cwd=d)
        img_a = None
        p = Prog()
        if case.get("warmup"):
            p.raw("!repeat %d" % case["warmup"])
            p.call("i", "Hopen", FILES[1], 1, 0, bind="wf")
            p.call("i", "Hclose", V("wf"))
            p.raw("!end")
            labels.add("id_counter_warmup")
        checks = []
        objs = []        # dict(kind, var, live, file, parent index, mode)
        nvar = 0

        def live_of(kind):
            return [i for i, o in enumerate(objs) if o["kind"] == kind and o["live"]]

        def children_live(i):
            return [j for j, o in enumerate(objs) if o["live"] and o.get("parent") == i]

        nshared = [0]
        no_excl = bool(case.get("no_exclude"))
        excluded = {}
        an_torn = set()      # files whose annotation state was torn down by ANend of a sibling session

        for st_ in case["steps"]:
            k = st_[0]
            if k == "open":
                _, kind, fi, pick, mode = st_[:5]
                etag = ETAGS[st_[5] % len(ETAGS)] if (kind == "aid" and len(st_) > 5) else 1000
                parent = None
                if kind in PARENT:
                    cands = live_of(PARENT[kind])
                    if not cands:
                        continue
                    parent = cands[pick % len(cands)]
                    fi = objs[parent]["file"]
                    if kind == "lut" and any(o["kind"] == "lut" and o["live"] and o["parent"] == parent for o in objs):
                        continue
                if len(live_of(kind)) >= 4:
                    continue
                # ANstart returns the file id itself: a second ANstart on one file id is the same identifier
                if kind == "an" and any(o["kind"] == "an" and o["live"] and o["parent"] == parent for o in objs):
                    continue
                # annotation state belongs to the file record, not to the AN session: a second session on another
                # open of the same path shares it and ANend of either tears it down (known finding, excluded)
                if kind == "an" and any(o["kind"] == "an" and o["live"] and o["file"] == fi for o in objs):
                    if not no_excl:
                        excluded["C13-an-state-shared-across-opens"] = 1
                        continue
                var = "h%d" % nvar
                nvar += 1
                if kind in ("vs", "vg"):
                    checks.append((p.call("i", "Vinitialize", V(objs[parent]["var"])), "ret0", "Vstart"))
                if kind == "sd":
                    mode = 1      # SD calls on a read-write handle may legitimately rewrite metadata at SDend
                ln = open_call(p, kind, var, objs[parent]["var"] if parent is not None else None, fi,
                               mode if kind in ("fid", "sd") else 1, etag, st_[5] if len(st_) > 5 else 0)
                if etag != 1000:
                    labels.add("aid_on_special")
                    if any(o["kind"] == "aid" and o["live"] and o.get("etag") == etag and o["file"] == fi
                           for o in objs):
                        labels.add("two_aids_one_special")
                checks.append((ln, "opened", kind))
                objs.append(dict(kind=kind, var=var, live=True, file=fi, parent=parent, mode=mode, etag=etag))
            elif k in ("release", "closefid"):
                liv = [i for i, o in enumerate(objs) if o["live"] and o["kind"] in RELEASE]
                if k == "closefid":
                    liv = [i for i in liv if objs[i]["kind"] == "fid" and
                           any(objs[j]["kind"] == "aid" for j in children_live(i))]
                if not liv:
                    continue
                i = liv[st_[1] % len(liv)]
                o = objs[i]
                ch = children_live(i)
                ln = p.call("i", RELEASE[o["kind"]], V(o["var"]))
                shared = any(q is not o and q["live"] and q["kind"] in ("fid", "sd") and q["file"] == o["file"]
                             for q in objs)
                if o["kind"] == "fid" and any(objs[j]["kind"] == "aid" for j in ch) and not shared:
                    # closing a file with attached access elements must fail and leave the file usable
                    checks.append((ln, "mustfail", "Hclose with attached access elements"))
                    l2 = p.call("i", "Hgetelement", V(o["var"]), 1000, 1, Out(44))
                    checks.append((l2, "ident", ("elem", o["file"])))
                    labels.add("close_with_aids")
                    continue
                if ch:
                    # releasing a parent while ids derived from it are live is outside every interface's contract
                    # (except Hclose with attached access elements, handled above): not generated
                    p.lines.pop(); p.notes.pop()
                    continue
                checks.append((ln, "ret0", "%s of a live id" % RELEASE[o["kind"]]))
                o["live"] = False
                if o["kind"] == "an" and any(q["kind"] == "an" and q["live"] and q["file"] == o["file"] for q in objs):
                    an_torn.add(o["file"])
                # double release immediately, sometimes
                # (the AN interface id is the file id: ANend does not invalidate it; SD dataset ids are indices)
                if st_[1] % 3 == 0 and o["kind"] not in ("ann", "sds", "an"):
                    l2 = p.call("i", RELEASE[o["kind"]], V(o["var"]))
                    checks.append((l2, "mustfail", "second %s of the same id" % RELEASE[o["kind"]]))
                    labels.add("double_release")
            elif k == "xfile":
                # a call taking two identifiers, given a vgroup / vdata id of ANOTHER file: must be refused and
                # must not touch the target (the vgroup "group" of file A is attached for writing but not changed)
                fa = [o for o in objs if o["live"] and o["kind"] == "fid" and o["mode"] == 3]
                fb = [o for o in objs if o["live"] and o["kind"] == "fid"]
                pairs = [(a_, b_) for a_ in fa for b_ in fb if a_["file"] != b_["file"]]
                if not pairs:
                    continue
                a_, b_ = pairs[st_[1] % len(pairs)]
                checks.append((p.call("i", "Vinitialize", V(a_["var"])), "ret0", "Vstart"))
                checks.append((p.call("i", "Vinitialize", V(b_["var"])), "ret0", "Vstart"))
                p.call("i", "Vfind", V(a_["var"]), "group", bind="xga_ref")
                checks.append((p.call("i", "Vattach", V(a_["var"]), V("xga_ref"), "w", bind="xga"), "opened", "vg"))
                n0 = p.call("i", "Vntagrefs", V("xga"))
                if st_[2] % 2 == 0:
                    checks.append((p.call("i", "hx_vattach_named", V(b_["var"]), "group", bind="xb"), "opened", "vg"))
                    rel = "Vdetach"
                else:
                    checks.append((p.call("i", "hx_vsattach_named", V(b_["var"]), "table", bind="xb"), "opened", "vs"))
                    rel = "VSdetach"
                checks.append((p.call("i", "Vinsert", V("xga"), V("xb")), "reject",
                               ("Vinsert", -1, "other file's")))
                n1 = p.call("i", "Vntagrefs", V("xga"))
                checks.append((n1, "same_as", n0))
                checks.append((p.call("i", rel, V("xb")), "ret0", rel))
                checks.append((p.call("i", "Vdetach", V("xga")), "ret0", "Vdetach"))
                labels.add("two_id_call_across_files")
            elif k == "use":
                liv = [i for i, o in enumerate(objs) if o["live"]]
                if not liv:
                    continue
                i = liv[st_[1] % len(liv)]
                o = objs[i]
                uses = USES[o["kind"]]
                name, build, failv, ident, must = uses[st_[2] % len(uses)]
                if name in ("Htrunc", "Hwrite", "Hstartread", "GRselect", "ANselect", "SDselect", "GRgetlutid",
                            "SDgetdimid", "Vinitialize"):
                    continue    # would create ids / modify: not used as plain observers
                if o["kind"] == "aid" and o.get("etag", 1000) != 1000 and name == "Hread":
                    # special elements: rewind first (a read at the end may fail there), then compare the content
                    checks.append((p.call("i", "Hseek", V(o["var"]), 0, 0), "ret0", "Hseek of a live access id"))
                    ident = "selem%d" % o["etag"]
                ln = build(p, V(o["var"]))
                checks.append((ln, "valid", (name, failv, ident, o["file"])) +
                              (("C13-an-state-shared-across-opens",) if o["kind"] == "ann" and o["file"] in an_torn
                               else ()))
                if o["kind"] == "fid" and o["mode"] == 3:
                    # a handle opened read-write must really have write access, however many read-only opens
                    # of the same path exist (nested opens with different modes)
                    l2 = p.call("i", "hx_probe_write_access", V(o["var"]), 1000, 1)
                    checks.append((l2, "ret0", "write access through a handle opened read-write"))
                    labels.add("nested_modes")
                    others = [q for q in objs if q is not o and q["live"] and q["kind"] == "fid" and
                              q["file"] == o["file"]]
                    if others:
                        # all opens of one path share one view: an element stored through this handle is
                        # visible through every other open handle of the file at once
                        nshared[0] += 1
                        l3 = p.call("i", "Hputelement", V(o["var"]), 2500, nshared[0], b"shared view", 11)
                        checks.append((l3, "retn", (11, "Hputelement through a read-write handle")))
                        q = others[st_[2] % len(others)]
                        l4 = p.call("i", "Hgetelement", V(q["var"]), 2500, nshared[0], Out(15))
                        checks.append((l4, "shared", None))
                        labels.add("shared_view_checked")
            else:
                _, kind, ui, how, pick = st_
                uses = [u for u in USES[kind] if u[4]]
                name, build, failv, ident, must = uses[ui % len(uses)]
                same_live = max(len(live_of(kk)) for kk in KINDS)     # >=2 live ids of one kind at this moment
                arg = None
                if how == "stale":
                    # SD ids are slot encodings that are reissued: a released value is stale only while no
                    # other SD file is (or has since been) open
                    dead = [o for o in objs if not o["live"] and not o.get("orphan") and o["kind"] == kind
                            and kind not in ("dim", "an") and
                            not (kind == "sd" and any(q["kind"] == "sd" and q is not o for q in objs))]
                    kkey = None
                    ann_ended = False
                    if kind == "ann" and dead:
                        # an annotation id outlives ANendaccess (known finding, below) but not the ANend of its
                        # session: ids whose AN session has ended (and whose file has no other AN session that
                        # could keep the shared annotation state alive) must be rejected
                        ended = [o for o in dead if not objs[o["parent"]]["live"] and
                                 not any(q["kind"] == "an" and q["live"] and q["file"] == o["file"] for q in objs)]
                        if ended:
                            dead = ended
                            ann_ended = True
                            labels.add("ann_id_after_anend")
                    if kind in ("sds", "ann") and dead and not ann_ended:
                        # dataset ids encode an index and annotation ids belong to the annotation, not to the
                        # ANselect call: neither is invalidated by its endaccess call (known findings, excluded)
                        kkey = "C13-%s-id-after-endaccess" % kind
                        if not no_excl:
                            excluded[kkey] = excluded.get(kkey, 0) + 1
                            continue
                        if kind == "sds" and any(q["kind"] == "sd" and not q["live"] for q in objs):
                            continue
                    if not dead:
                        continue
                    arg = V(dead[pick % len(dead)]["var"])
                elif how == "foreign":
                    # the AN interface id is the file id itself (ANstart returns it): not foreign to each other;
                    # SD ids of different kinds share one encoding space and are told apart by a type nibble
                    other = [o for o in objs if o["live"] and o["kind"] != kind and
                             not (kind in ("sds", "dim", "sd") and o["kind"] in ("sds", "dim", "sd")) and
                             not ({kind, o["kind"]} == {"an", "fid"}) and
                             not ({kind, o["kind"]} == {"ri", "lut"})]     # a palette id is its image's id
                    if not other:
                        continue
                    arg = V(other[pick % len(other)]["var"])
                elif how == "literal":
                    arg = LITERALS[pick % len(LITERALS)]
                    if kind in ("sd", "sds", "dim") and arg in (393216, 262144, 327680):
                        continue       # these literals are plausible SD id encodings
                else:
                    liv = [o for o in objs if o["live"] and o["kind"] == kind and kind not in ("sd", "sds", "dim", "an")]
                    if not liv:
                        continue
                    arg = V(liv[pick % len(liv)]["var"], [1, -1, 16, 4096][pick % 4])
                    # a neighbour of a live atom may itself be live (ids are consecutive): only when not
                    if any(True for o in objs if o["live"]) and how == "neighbour" and len(
                            [o for o in objs if o["kind"] == kind]) > 1:
                        continue
                ln = build(p, arg)
                checks.append((ln, "reject", (name, failv, how)) + ((kkey,) if how == "stale" and kkey else ()))
                labels.add("bad_" + how)
                if same_live >= 2:
                    labels.add("bad_use_with_two_live")
                # other objects must be unaffected: re-read through every live file id / dataset / image
                for o in objs:
                    if o["live"] and o["kind"] == "fid":
                        l2 = p.call("i", "Hgetelement", V(o["var"]), 1000, 1, Out(44))
                        checks.append((l2, "ident", ("elem", o["file"])))
                        break
        # teardown in reverse order of creation, then the no-retained-state check
        for o in reversed(objs):
            if o["live"] and o["kind"] in RELEASE:
                p.call("i", RELEASE[o["kind"]], V(o["var"]))
        for o in reversed(objs):
            if o.get("orphan") and o["kind"] in ("fid", "sd"):
                p.call("i", RELEASE[o["kind"]], V(o["var"]))   # retry closes that were refused earlier
        gx = case.get("grext")
        if gx is not None:
            labels.add("gr_external_release")
            img = bytes((7 * i + gx) & 0xff for i in range(60))
            checks.append((p.call("i", "Hopen", "gx.hdf", 7, 0, bind="gxf"), "opened", "fid"))
            checks.append((p.call("i", "GRstart", V("gxf"), bind="gxg"), "opened", "gr"))
            checks.append((p.call("i", "GRcreate", V("gxg"), "gximg", 3, 21, 0, i32s(5, 4), bind="gxr"), "opened", "ri"))
            if gx == 0:
                checks.append((p.call("i", "GRsetexternalfile", V("gxr"), "gx.dat", 0), "ret0", "GRsetexternalfile"))
            checks.append((p.call("i", "GRwriteimage", V("gxr"), i32s(0, 0), None, i32s(5, 4), img), "ret0", "GRwriteimage"))
            if gx == 3:
                # a second session: the image data are read first, then moved
                checks.append((p.call("i", "GRendaccess", V("gxr")), "ret0", "GRendaccess"))
                checks.append((p.call("i", "GRend", V("gxg")), "ret0", "GRend"))
                checks.append((p.call("i", "Hclose", V("gxf")), "ret0", "Hclose"))
                checks.append((p.call("i", "Hopen", "gx.hdf", 3, 0, bind="gxf"), "opened", "fid"))
                checks.append((p.call("i", "GRstart", V("gxf"), bind="gxg"), "opened", "gr"))
                checks.append((p.call("i", "GRselect", V("gxg"), 0, bind="gxr"), "opened", "ri"))
            if gx >= 2:
                checks.append((p.call("i", "GRreadimage", V("gxr"), i32s(0, 0), None, i32s(5, 4), Out(60)), "bytes", img))
            if gx >= 1:
                checks.append((p.call("i", "GRsetexternalfile", V("gxr"), "gx.dat", 0), "ret0", "GRsetexternalfile"))
            checks.append((p.call("i", "GRendaccess", V("gxr")), "ret0", "GRendaccess"))
            checks.append((p.call("i", "GRend", V("gxg")), "ret0", "GRend"))
            checks.append((p.call("i", "Hclose", V("gxf")), "ret0", "Hclose after every identifier of the file was released"))
            checks.append((p.call("i", "Hopen", "gx.hdf", 1, 0, bind="gxf"), "opened", "fid"))
            checks.append((p.call("i", "GRstart", V("gxf"), bind="gxg"), "opened", "gr"))
            checks.append((p.call("i", "GRselect", V("gxg"), 0, bind="gxr"), "opened", "ri"))
            checks.append((p.call("i", "GRreadimage", V("gxr"), i32s(0, 0), None, i32s(5, 4), Out(60)), "bytes", img))
            checks.append((p.call("i", "GRendaccess", V("gxr")), "ret0", "GRendaccess"))
            checks.append((p.call("i", "GRend", V("gxg")), "ret0", "GRend"))
            checks.append((p.call("i", "Hclose", V("gxf")), "ret0", "Hclose"))
        base = len(p.lines)
        rdr = wl.combo_reader("")
        for l in rdr.lines:
            p.raw(l)
        rr = run(p, cwd=d)
        fail = None
        if not rr.done:
            fail = dict(kind="crash", detail=rr.sanitizer_summary(), frames=rr.crash_frames(),
                        last_call=p.lines[rr.last_line][:100] if rr.last_line < len(p.lines) else "",
                        text=rr.stderr[-1200:])
        else:
            for ln, ck, pay, *ckey in checks:
                r = rr.res[ln]
                call = p.lines[ln - 1][:90]
                if ck == "opened":
                    if r.ret == -1:
                        fail = dict(kind="acquiring a %s id failed" % pay, call=call)
                elif ck == "ret0":
                    if r.ret != 0:
                        fail = dict(kind="%s failed" % pay, call=call, ret=r.ret)
                elif ck == "mustfail":
                    if r.ret != -1:
                        fail = dict(kind="%s did not fail" % pay, call=call, ret=r.ret)
                elif ck == "retn":
                    if r.ret != pay[0]:
                        fail = dict(kind="%s failed" % pay[1], call=call, ret=r.ret)
                elif ck == "bytes":
                    if r.ret != 0 or r.bufs[0] != pay:
                        fail = dict(kind="an image moved to an external file reads back other bytes", call=call, ret=r.ret)
                elif ck == "shared":
                    if r.ret != 11 or r.bufs[0][:11] != b"shared view":
                        fail = dict(kind="an element stored through one open of a path is not visible through another "
                                         "open of the same path", call=call, ret=r.ret)
                elif ck == "same_as":
                    r0 = rr.res.get(pay)
                    if r0 is None or r.ret != r0.ret:
                        fail = dict(kind="a refused call changed the target object", call=call,
                                    before=None if r0 is None else r0.ret, after=r.ret)
                elif ck == "reject":
                    name, failv, how = pay
                    if r.ret != failv:
                        fail = dict(kind="a call given a %s identifier did not return its failure value" % how,
                                    function=name, call=call, ret=r.ret, expected=failv)
                elif ck == "valid":
                    name, failv, ident, fi = pay
                    if r.ret == failv and name not in ("Hexist",):
                        fail = dict(kind="a call with a live identifier failed", function=name, call=call)
                    elif ident is not None:
                        fail = check_ident(ident, fi, r, call)
                elif ck == "ident":
                    fail = check_ident(pay[0], pay[1], r, call)
                if fail:
                    fail["known_keys"] = list(ckey)
                    break
            if fail is None:
                for i, l in enumerate(rdr.lines):
                    if l.startswith("="):
                        continue
                    a = rr.res.get(base + i + 1)
                    b = ref.res.get(i + 1)
                    if a is None or b is None or (a.ret, a.bufs) != (b.ret, b.bufs):
                        fail = dict(kind="after releasing every handle the library does not behave like a fresh "
                                         "process (retained state)", call=l[:90],
                                    observed=(a.ret if a else None), expected=(b.ret if b else None))
                        break
        if fail:
            fail["program"] = p.text()[:6000]
            return CaseResult(labels=labels, failure=fail, sample=dict(steps=[str(s) for s in case["steps"][:25]]),
                              excluded=excluded)
    return CaseResult(labels=labels, sample=dict(steps=[str(s) for s in case["steps"][:25]]), excluded=excluded)


def check_ident(ident, fi, r, call):
    if ident in ("elem", "elemread"):
        want = A_ELEM if fi == 0 else B_ELEM
        if r.ret != 40 or r.bufs[0][:40] != want:
            if ident == "elemread" and r.ret in (0, -1, 40) and r.bufs[0][:40] != (B_ELEM if fi == 0 else A_ELEM):
                return None      # a second read on the same access element is at its end: nothing to compare
            return dict(kind="identifier designates the wrong object (element data of the other file or garbage)",
                        call=call, file=fi, ret=r.ret, observed=r.bufs[0][:8].hex())
    elif ident.startswith("selem"):
        want = SELEM[int(ident[5:])]
        if r.ret != len(want) or r.bufs[0][:len(want)] != want:
            return dict(kind="identifier designates the wrong object (special element data differ)", call=call,
                        file=fi, ret=r.ret, observed=r.bufs[0][:8].hex())
    elif ident == "image":
        if fi == 1 and (r.ret != 0 or r.bufs[0] != b"\x42" * 60):
            return dict(kind="identifier designates the wrong image", call=call, file=fi)
        if fi == 0 and r.ret == 0 and r.bufs[0] == b"\x42" * 60:
            return dict(kind="identifier designates the wrong image", call=call, file=fi)
    elif ident == "sds":
        if fi == 1 and (r.ret != 0 or r.bufs[0] != b"\x07" * 48):
            return dict(kind="identifier designates the wrong dataset", call=call, file=fi)
        if fi == 0 and r.ret == 0 and r.bufs[0] == b"\x07" * 48:
            return dict(kind="identifier designates the wrong dataset", call=call, file=fi)
    return None


def known_match(case, failure, entry):
    return bool(case.get("no_exclude")) and entry["key"] in failure.get("known_keys", [])


RULE += (" " + 'A closing scenario moves a GR image to an external file before / after writing / after reading / in a second session: after GRendaccess and GRend the file must close and the image read back.')
