"""C01 — data-element byte streams read back exactly what was written."""
import os, struct
from hypothesis import strategies as st
from h4verif.exe import Prog, V, Out, InOut, run, CaseDir, un_i32s
from h4verif.runner import CaseResult
from h4verif import h4fmt

PROPERTY = "C01"
LEVEL = "exploration"
NEED = ("h4x",)
RULE = ("histories (<=50 ops) of Hstartwrite/Hstartaccess(r,w,appendable)/Happendable/Hwrite/Hseek(3 origins, past "
        "end)/Hread(0,n,>remaining)/Htell/Hinquire/Hlength/Hgetelement/Hputelement/Htrunc/HLcreate/HLconvert/"
        "HXcreate/Hdupdd/Hdeldd/Hendaccess/Hcache/reopen over 4 elements, up to 6 interleaved access ids, "
        "ndds in {0,1,4,5,7,16,17}, block lengths 1..9 and 4096, 1..3 blocks per table; byte-array model with "
        "known/unknown/gap cells. Non-trivial = silent promotion to linked blocks, write spanning >=2 blocks, "
        "read across a hole, two access ids interleaved on one element, or reopen followed by a read of "
        "earlier data.")
BUDGET = {"quick": {"shards": 8, "cases": 600}, "thorough": {"shards": 16, "cases": 6000}}
MIN_NT = {"quick": 1000, "thorough": 10000}
ASSUMPTIONS = ["at most one writing access id per element at a time (documented user responsibility, Hwrite)",
               "conversions/promotions (HLcreate/HLconvert/HXcreate/appendable growth) only while no other "
               "access id is attached to the element",
               "aliases made by Hdupdd are of plain elements and are only read afterwards",
               "no Htrunc on special elements (source: 'Dunno about truncating special elements')"]

KEYS = [(2000, 1), (2000, 2), (2001, 1), (2001, 7)]
NSLOT = 6
NT_LABELS = {"promoted", "multi_block_write", "hole_read", "interleaved", "reopen_read"}
K, U, G = 1, 0, 2   # cell states: known, unknown, gap (zero at the latest after reopen)


def nontrivial(labels):
    return bool(NT_LABELS & set(labels))


def pat(seed, n, base=0):
    # position-independent on purpose: the emitted bytes must not depend on a predicted position
    return bytes((((seed * 31 + i * 7) % 255) + 1) for i in range(n))


class Invalid(Exception):
    """op outside the domain in the current model state"""


class Fail(Exception):
    def __init__(self, kind, **kw):
        self.info = dict(kind=kind, **kw)


class Store:
    def __init__(self):
        self.data = bytearray()
        self.st = bytearray()

    def ensure(self, n, state):
        if len(self.data) < n:
            k = n - len(self.data)
            self.data.extend(b"\0" * k)
            self.st.extend(bytes([state]) * k)


class Elem:
    def __init__(self, kind, ln):
        self.kind = kind        # plain | linked | ext
        self.len = ln           # -1 = defined DD without length
        self.store = Store()
        self.block = None       # (first_len, block_len, nblocks) for linked
        self.aliased = False
        self.maybe_promoted = False
        self.maxlen = max(ln, 0)


class Aid:
    def __init__(self, key, write, appendable, new_elem):
        self.key, self.write, self.appendable, self.new_elem = key, write, appendable, new_elem
        self.pos = 0


class Model:
    def __init__(self):
        self.e = {}                 # key index -> Elem
        self.a = [None] * NSLOT     # slot -> Aid
        self.labels = set()
        self.reopened = False

    # ---- helpers
    def aids_on(self, k):
        return [x for x in self.a if x is not None and x.key == k]

    def writers_on(self, k):
        return [x for x in self.a if x is not None and x.key == k and x.write]

    def expect_ret(self, obs, want, what, i=0):
        if obs is None:
            return
        if obs[i].ret != want:
            raise Fail("wrong return value", op=what, expected=want, observed=obs[i].ret)

    # ---- one step; obs = list of Res (check mode) or None (generation mode)
    def step(self, op, obs=None):
        what = " ".join(str(x) for x in op)
        k0 = op[0]
        try:
            getattr(self, "op_" + k0)(op, obs, what)
        finally:
            for e in self.e.values():
                if e.len > e.maxlen:
                    e.maxlen = e.len

    def op_sw(self, op, obs, what):
        _, s, k, ln = op
        if self.a[s] is not None:
            raise Invalid()
        if self.writers_on(k):
            raise Invalid()
        e = self.e.get(k)
        if e is not None and e.aliased:
            raise Invalid()
        if e is None:
            e = Elem("plain", ln)
            e.store.ensure(ln, U)
            self.e[k] = e
            aid = Aid(k, True, False, False)
        elif e.len == -1:
            e.len = ln
            e.store = Store()
            e.store.ensure(ln, U)
            aid = Aid(k, True, False, False)
        else:
            aid = Aid(k, True, False, False)
        if obs is not None and obs[0].ret == -1:
            raise Fail("Hstartwrite failed", op=what)
        self.a[s] = aid
        if len(self.aids_on(k)) >= 2:
            self.labels.add("interleaved")

    def op_sa(self, op, obs, what):
        _, s, k, mode = op
        if self.a[s] is not None:
            raise Invalid()
        e = self.e.get(k)
        write = mode != "r"
        if write and self.writers_on(k):
            raise Invalid()
        if write and e is not None and e.aliased:
            raise Invalid()
        if e is None:
            if not write:
                if obs is not None and obs[0].ret != -1:
                    raise Fail("Hstartaccess(read) succeeded on a missing element", op=what)
                return
            e = Elem("plain", -1)
            self.e[k] = e
            aid = Aid(k, True, mode == "wa", True)
        else:
            aid = Aid(k, write, mode == "wa", e.len == -1)
        if obs is not None and obs[0].ret == -1:
            raise Fail("Hstartaccess failed", op=what)
        self.a[s] = aid
        if len(self.aids_on(k)) >= 2:
            self.labels.add("interleaved")

    def op_ap(self, op, obs, what):
        _, s = op
        aid = self.a[s]
        if aid is None or not aid.write:
            raise Invalid()
        e = self.e[aid.key]
        if e.kind != "plain":
            raise Invalid()
        self.expect_ret(obs, 0, what)
        aid.appendable = True

    def _grow_ok(self, aid):
        """growth of a plain element may promote it: only when nobody else is attached"""
        return len(self.aids_on(aid.key)) == 1

    def op_w(self, op, obs, what):
        _, s, n, seed = op
        aid = self.a[s]
        if aid is None or not aid.write:
            raise Invalid()
        e = self.e[aid.key]
        data = pat(seed, n, aid.pos)
        if e.kind == "plain":
            if aid.new_elem:
                if not self._grow_ok(aid):
                    raise Invalid()
                # first write defines the element and makes it appendable
                if aid.pos != 0:
                    raise Invalid()
                e.len = n
                e.store = Store()
                e.store.ensure(n, U)
                aid.new_elem = False
                aid.appendable = True
                for x in self.aids_on(aid.key):
                    x.new_elem = False
            elif aid.pos + n > e.len:
                if not aid.appendable and not (e.maybe_promoted and obs is not None and obs[0].ret == n):
                    self.expect_ret(obs, -1, what)
                    self.labels.add("refused_overlong")
                    return
                if not self._grow_ok(aid):
                    raise Invalid()
                self.labels.add("grow_plain")
                e.maybe_promoted = True
        if obs is not None and obs[0].ret != n:
            raise Fail("Hwrite did not write everything", op=what, expected=n, observed=obs[0].ret)
        end = aid.pos + n
        oldlen = max(e.len, 0)
        if aid.pos > oldlen:
            e.store.ensure(aid.pos, G)     # cells never part of the element before: gap
            self.labels.add("gap")
        e.store.ensure(end, U)
        e.store.data[aid.pos:end] = data
        for i in range(aid.pos, end):
            e.store.st[i] = K
        if e.kind == "linked":
            fl, bl, nb = e.block
            b0 = 0 if aid.pos < fl else 1 + (aid.pos - fl) // bl
            b1 = 0 if end - 1 < fl else 1 + (end - 1 - fl) // bl
            if b1 > b0:
                self.labels.add("multi_block_write")
            if end > e.len:
                # bytes of freshly allocated blocks beyond what was written are gaps
                pass
        if end > e.len:
            e.len = end
        aid.pos = end

    def op_sk(self, op, obs, what):
        _, s, off, origin = op
        aid = self.a[s]
        if aid is None:
            raise Invalid()
        e = self.e[aid.key]
        if aid.new_elem or e.len < 0:
            raise Invalid()     # seeking in an element that has no length yet is not defined
        ln = max(e.len, 0)
        tgt = off + (0 if origin == 0 else aid.pos if origin == 1 else ln)
        if e.kind == "plain":
            if tgt == aid.pos:
                self.expect_ret(obs, 0, what)
                return
            if tgt < 0 or (not aid.appendable and tgt > ln):
                if tgt > ln and e.maybe_promoted and obs is not None and obs[0].ret == 0:
                    aid.pos = tgt    # silently promoted to linked blocks: no upper bound on the position
                    return
                self.expect_ret(obs, -1, what)
                return
            if aid.appendable and tgt >= ln and e.len >= 0:
                # may promote the element to linked blocks when it is not last in the file
                if not self._grow_ok(aid):
                    raise Invalid()
                e.maybe_promoted = True
            if aid.new_elem:
                raise Invalid()
        else:
            if tgt < 0:
                self.expect_ret(obs, -1, what)
                return
        self.expect_ret(obs, 0, what)
        aid.pos = tgt

    def op_r(self, op, obs, what):
        _, s, n = op
        aid = self.a[s]
        if aid is None:
            raise Invalid()
        e = self.e[aid.key]
        if aid.new_elem or e.len < 0:
            self.expect_ret(obs, -1, what)
            return
        if aid.pos >= e.len:
            # at or beyond the end: 0 bytes or FAIL, never a crash, position unchanged
            if obs is not None and obs[0].ret not in (0, -1):
                raise Fail("read at/after end of element returned data", op=what, observed=obs[0].ret)
            self.labels.add("read_at_end")
            return
        want = e.len - aid.pos if (n == 0 or aid.pos + n > e.len) else n
        sts = e.store.st[aid.pos:aid.pos + want]
        if obs is not None:
            r = obs[0]
            soft = any(c != K for c in sts)
            if r.ret == -1 and soft:
                # unwritten/gap bytes may be unreadable in this session (beyond physical EOF)
                self.labels.add("soft_read_fail")
                aid.pos = None   # position after a failed read is not defined -> resync by seek
                raise Resync(s)
            if r.ret != want:
                raise Fail("Hread returned wrong count", op=what, expected=want, observed=r.ret, pos=aid.pos,
                           length=e.len)
            got = r.bufs[0][:want]
            if any(b != 0xA5 for b in r.bufs[0][want:]):
                raise Fail("Hread wrote beyond the returned count", op=what, count=want)
            exp = e.store.data[aid.pos:aid.pos + want]
            for i in range(want):
                c = sts[i]
                if c == K and got[i] != exp[i]:
                    raise Fail("Hread returned wrong data", op=what, at=aid.pos + i, expected=exp[i],
                               observed=got[i], window_expected=bytes(exp[max(0, i - 4):i + 8]).hex(),
                               window_observed=bytes(got[max(0, i - 4):i + 8]).hex())
            if any(c == G for c in sts):
                self.labels.add("hole_read")
            if self.reopened:
                self.labels.add("reopen_read")
        aid.pos += want

    def op_tell(self, op, obs, what):
        aid = self.a[op[1]]
        if aid is None:
            raise Invalid()
        self.expect_ret(obs, aid.pos, what)

    def op_inq(self, op, obs, what):
        aid = self.a[op[1]]
        if aid is None:
            raise Invalid()
        e = self.e[aid.key]
        if obs is not None:
            r = obs[0]
            if r.ret != 0:
                raise Fail("Hinquire failed", op=what)
            tag = struct.unpack("=H", r.bufs[1])[0]
            ref = struct.unpack("=H", r.bufs[2])[0]
            ln = struct.unpack("=i", r.bufs[3])[0]
            posn = struct.unpack("=i", r.bufs[5])[0]
            special = struct.unpack("=h", r.bufs[7])[0]
            kt, kr = KEYS[aid.key]
            if (h4fmt.base_tag(tag), ref) != (kt, kr):
                raise Fail("Hinquire reports another element", op=what, got=[tag, ref])
            if e.len >= 0 and not aid.new_elem and ln != e.len:
                raise Fail("Hinquire length differs", op=what, expected=e.len, observed=ln)
            if posn != aid.pos:
                raise Fail("Hinquire position differs", op=what, expected=aid.pos, observed=posn)
            wantsp = {"plain": 0, "linked": 1, "ext": 2}[e.kind]
            if e.kind != "plain" and special != wantsp:
                raise Fail("Hinquire special code differs", op=what, expected=wantsp, observed=special)

    def op_len(self, op, obs, what):
        e = self.e.get(op[1])
        if e is None:
            self.expect_ret(obs, -1, what)
        elif e.len >= 0:
            self.expect_ret(obs, e.len, what)

    def op_get(self, op, obs, what):
        k = op[1]
        e = self.e.get(k)
        if e is None:
            self.expect_ret(obs, -1, what)
            return
        if e.len <= 0:
            return   # undefined or empty: either outcome
        if obs is not None:
            r = obs[0]
            sts = e.store.st[:e.len]
            soft = any(c != K for c in sts)
            if r.ret == -1 and soft:
                self.labels.add("soft_read_fail")
                return
            if r.ret != e.len:
                raise Fail("Hgetelement returned wrong length", op=what, expected=e.len, observed=r.ret)
            got = r.bufs[0][:e.len]
            if any(b != 0xA5 for b in r.bufs[0][e.len:]):
                raise Fail("Hgetelement wrote beyond the element length", op=what, length=e.len)
            for i in range(e.len):
                if sts[i] == K and got[i] != e.store.data[i]:
                    raise Fail("Hgetelement returned wrong data", op=what, at=i, expected=e.store.data[i],
                               observed=got[i])
            if self.reopened:
                self.labels.add("reopen_read")

    def op_put(self, op, obs, what):
        _, k, n, seed = op
        if self.aids_on(k):
            raise Invalid()
        e = self.e.get(k)
        if e is not None and e.aliased:
            raise Invalid()
        data = pat(seed, n, 0)
        if e is None or e.len == -1:
            e = Elem("plain", n)
            e.store.ensure(n, U)
            self.e[k] = e
        elif e.kind == "plain" and n > e.len:
            if not (e.maybe_promoted and obs is not None and obs[0].ret == n):
                self.expect_ret(obs, -1, what)
                self.labels.add("refused_overlong")
                return
            # silently promoted to linked blocks earlier: growth is allowed there
        self.expect_ret(obs, n, what)
        e.store.ensure(n, U)
        e.store.data[0:n] = data
        for i in range(n):
            e.store.st[i] = K
        if n > e.len:
            e.len = n

    def op_tr(self, op, obs, what):
        _, s, tl = op
        aid = self.a[s]
        if aid is None or not aid.write:
            raise Invalid()
        e = self.e[aid.key]
        if aid.new_elem or e.len < 0 or tl < 0:
            raise Invalid()
        if len(self.aids_on(aid.key)) != 1:
            raise Invalid()
        if e.kind != "plain":
            # truncation of special elements is not implemented: must be refused, nothing changes
            self.expect_ret(obs, -1, what)
            self.labels.add("trunc_special_refused")
            return
        if e.maybe_promoted and obs is not None and obs[0].ret == -1:
            # the element was silently promoted to linked blocks by an earlier append
            self.labels.add("trunc_special_refused")
            return
        if e.len > tl >= 0:
            self.expect_ret(obs, tl, what)
            for i in range(tl, min(e.len, len(e.store.st))):
                e.store.st[i] = U          # cut-off bytes: whatever is on disk there
            e.len = tl
            if aid.pos > tl:
                aid.pos = tl
            self.labels.add("trunc")
        else:
            if tl < 0:
                raise Invalid()
            self.expect_ret(obs, -1, what)

    def op_hl(self, op, obs, what):
        _, s, k, bl, nb = op
        if self.a[s] is not None or self.aids_on(k):
            raise Invalid()
        e = self.e.get(k)
        if e is not None and (e.aliased or e.len == -1):
            raise Invalid()
        if e is not None and e.kind != "plain":
            if obs is not None and obs[0].ret != -1:
                raise Fail("HLcreate succeeded on a special element", op=what)
            return
        if obs is not None and obs[0].ret == -1:
            if e is not None and (e.len == 0 or e.maybe_promoted):
                return      # empty element, or already silently promoted: clean refusal is correct
            raise Fail("HLcreate failed", op=what)
        if e is None:
            e = Elem("linked", 0)
            e.block = (bl, bl, nb)
            self.e[k] = e
        else:
            e.kind = "linked"
            e.block = (e.len, bl, nb)
            self.labels.add("explicit_promote")
        self.a[s] = Aid(k, True, False, False)

    def op_hc(self, op, obs, what):
        _, s, bl, nb = op
        aid = self.a[s]
        if aid is None or not aid.write:
            raise Invalid()
        e = self.e[aid.key]
        if len(self.aids_on(aid.key)) != 1 or e.aliased or aid.new_elem or e.len < 0:
            raise Invalid()
        if e.kind != "plain":
            self.expect_ret(obs, -1, what)
            return
        if e.maybe_promoted and obs is not None and obs[0].ret == -1:
            return      # already (silently) promoted to linked blocks: refusal is correct
        self.expect_ret(obs, 0, what)
        e.kind = "linked"
        e.block = (e.len, bl, nb)
        self.labels.add("explicit_promote")

    def op_hx(self, op, obs, what):
        _, s, k, xi, off = op
        if self.a[s] is not None or self.aids_on(k):
            raise Invalid()
        e = self.e.get(k)
        if e is not None:
            if e.aliased or e.len == -1:
                raise Invalid()
            if any(c != K for c in e.store.st[:e.len]):
                raise Invalid()     # moving never-written bytes: outcome not defined
        if obs is not None and obs[0].ret == -1:
            raise Fail("HXcreate failed", op=what)
        if e is None:
            e = Elem("ext", 0)
            self.e[k] = e
        else:
            e.kind = "ext"
            self.labels.add("moved_to_external")
        self.a[s] = Aid(k, True, False, False)

    def op_dup(self, op, obs, what):
        _, kn, ko = op
        src = self.e.get(ko)
        if src is None or kn in self.e:
            self.expect_ret(obs, -1, what)
            return
        if src.kind != "plain" or src.len < 0 or self.aids_on(ko) or src.maybe_promoted:
            raise Invalid()
        self.expect_ret(obs, 0, what)
        ne = Elem("plain", src.len)
        ne.store = src.store
        ne.aliased = True
        src.aliased = True
        self.e[kn] = ne
        self.labels.add("alias")

    def op_del(self, op, obs, what):
        k = op[1]
        if self.aids_on(k):
            raise Invalid()
        if k in self.e:
            self.expect_ret(obs, 0, what)
            del self.e[k]
        else:
            self.expect_ret(obs, -1, what)

    def op_end(self, op, obs, what):
        s = op[1]
        aid = self.a[s]
        if aid is None:
            raise Invalid()
        self.expect_ret(obs, 0, what)
        self.a[s] = None

    def op_cache(self, op, obs, what):
        self.expect_ret(obs, 0, what)

    def op_reopen(self, op, obs, what):
        # emitted as: Hendaccess for every live slot (in slot order), Hclose, Hopen
        i = 0
        emitted = getattr(self, "emitted_slots", None)
        for s in range(NSLOT):
            if obs is not None and emitted is not None:
                if s in emitted:
                    if self.a[s] is not None:
                        self.expect_ret(obs, 0, what + " (endaccess slot %d)" % s, i)
                    i += 1      # else: slot never became live (tolerated refusal); result ignored
                elif self.a[s] is not None:
                    raise Invalid()
                self.a[s] = None
            elif self.a[s] is not None:
                self.expect_ret(obs, 0, what + " (endaccess slot %d)" % s, i)
                i += 1
                self.a[s] = None
        self.expect_ret(obs, 0, what + " (Hclose)", i)
        if obs is not None and obs[i + 1].ret == -1:
            raise Fail("Hopen failed after close", op=what)
        for e in self.e.values():
            st_ = e.store.st
            for j in range(len(st_)):
                if st_[j] == G:
                    st_[j] = K
                    e.store.data[j] = 0
        self.reopened = True
        self.labels.add("reopen")


class Resync(Exception):
    def __init__(self, slot):
        self.slot = slot


# ------------------------------------------------------------------------------ generator
@st.composite
def strategy_(draw, tier):
    ndds = draw(st.sampled_from([0, 1, 4, 5, 7, 16, 17]))
    small = draw(st.integers(0, 9)) < 8
    nops = draw(st.integers(4, 50))
    m = Model()
    ops = []
    keyi = st.integers(0, len(KEYS) - 1)
    slot = st.integers(0, NSLOT - 1)
    sizes = st.integers(1, 24) if small else st.sampled_from([1, 5, 100, 400, 4095, 4096, 4097, 9000])
    tries = 0
    while len(ops) < nops and tries < 400:
        tries += 1
        c = draw(st.integers(0, 99))
        live = [s for s in range(NSLOT) if m.a[s] is not None]
        free = [s for s in range(NSLOT) if m.a[s] is None]
        if c < 8 and free:
            op = ["sw", draw(st.sampled_from(free)), draw(keyi), draw(st.integers(0, 30) if small else sizes)]
        elif c < 18 and free:
            op = ["sa", draw(st.sampled_from(free)), draw(keyi), draw(st.sampled_from(["r", "r", "w", "wa", "wa"]))]
        elif c < 21 and live:
            op = ["ap", draw(st.sampled_from(live))]
        elif c < 43 and live:
            op = ["w", draw(st.sampled_from(live)), draw(sizes), draw(st.integers(0, 200))]
        elif c < 55 and live:
            s = draw(st.sampled_from(live))
            e = m.e.get(m.a[s].key)
            ln = max(e.len, 0) if e else 0
            origin = draw(st.sampled_from([0, 0, 1, 2]))
            if origin == 0:
                off = draw(st.sampled_from([0, ln, ln + 1, max(0, ln - 1)]) if draw(st.booleans())
                           else st.integers(-1, ln + 12))
            elif origin == 1:
                off = draw(st.integers(-5, 8))
            else:
                off = draw(st.integers(-ln - 1, 6))
            op = ["sk", s, off, origin]
        elif c < 72 and live:
            op = ["r", draw(st.sampled_from(live)), draw(st.sampled_from([0, 1, 2, 3, 7, 16, 50, 5000]))]
        elif c < 74 and live:
            op = ["tell", draw(st.sampled_from(live))]
        elif c < 77 and live:
            op = ["inq", draw(st.sampled_from(live))]
        elif c < 79:
            op = ["len", draw(keyi)]
        elif c < 82:
            op = ["get", draw(keyi)]
        elif c < 84:
            op = ["put", draw(keyi), draw(sizes), draw(st.integers(0, 200))]
        elif c < 86 and live:
            s = draw(st.sampled_from(live))
            e = m.e.get(m.a[s].key)
            ln = max(e.len, 0) if e else 0
            op = ["tr", s, draw(st.integers(0, ln + 1))]
        elif c < 90 and free:
            op = ["hl", draw(st.sampled_from(free)), draw(keyi),
                  draw(st.integers(1, 9) if small else st.sampled_from([4096, 100])), draw(st.integers(1, 3))]
        elif c < 92 and live:
            op = ["hc", draw(st.sampled_from(live)), draw(st.integers(1, 9) if small else st.just(4096)),
                  draw(st.integers(1, 3))]
        elif c < 95 and free:
            op = ["hx", draw(st.sampled_from(free)), draw(keyi), draw(st.integers(0, 1)), draw(st.integers(0, 50))]
        elif c < 96:
            op = ["dup", draw(keyi), draw(keyi)]
        elif c < 97:
            op = ["del", draw(keyi)]
        elif c < 98:
            op = ["cache", draw(st.integers(0, 1))]
        elif live and draw(st.booleans()):
            op = ["end", draw(st.sampled_from(live))]
        else:
            op = ["reopen"]
        try:
            m.step(op, None)
        except Invalid:
            continue
        ops.append(op)
    return {"ndds": ndds, "ops": ops, "twin": draw(st.integers(0, 3)) == 0}


def twin_elem(k):
    """element k of the twin file: same tag/ref, linked blocks of another geometry, other length and bytes"""
    n = 20 + 7 * k
    return 3 + k, 2, n, pat(90 + k, n, 0)


def strategy(tier):
    return strategy_(tier)


# ------------------------------------------------------------------------------ emission
def emit(case, d):
    p = Prog()
    path = os.path.join(d, "a.hdf")
    plan = []      # (op, [linenos])
    pre = []
    if case.get("twin"):
        # a second file holding special elements under the same tags/refs, with read access ids that stay open
        # during the whole history on the first file: nothing of one file may show through the other
        pb = os.path.join(d, "b.hdf")
        p.call("i", "Hopen", pb, 7, 0, bind="fb")
        for k, (t, r) in enumerate(KEYS):
            bl, nb, n, data = twin_elem(k)
            p.call("i", "HLcreate", V("fb"), t, r, bl, nb, bind="tb")
            pre.append(("twret", n, p.call("i", "Hwrite", V("tb"), n, data)))
            p.call("i", "Hendaccess", V("tb"))
        pre.append(("twret", 0, p.call("i", "Hclose", V("fb"))))
        pre.append(("twopen", None, p.call("i", "Hopen", pb, 1, 0, bind="fb")))
        for k, (t, r) in enumerate(KEYS):
            pre.append(("twopen", None, p.call("i", "Hstartread", V("fb"), t, r, bind="tb%d" % k)))
    ln0 = p.call("i", "Hopen", path, 7, case["ndds"], bind="f")
    shadow = Model()   # to know which slots are live at reopen time
    # upper bound on any element length reachable in this case (sizes buffers independently of the model)
    bound = 64
    for op in case["ops"]:
        if op[0] in ("w", "put"):
            bound += op[2]
        elif op[0] == "sw":
            bound += op[3]
        elif op[0] == "sk":
            bound += max(0, op[2])
    for op in case["ops"]:
        k = op[0]
        lines = []
        extra = None
        if k == "sw":
            t, r = KEYS[op[2]]
            lines.append(p.call("i", "Hstartwrite", V("f"), t, r, op[3], bind="a%d" % op[1]))
        elif k == "sa":
            t, r = KEYS[op[2]]
            fl = {"r": 1, "w": 3, "wa": 3 | 0x10}[op[3]]
            lines.append(p.call("i", "Hstartaccess", V("f"), t, r, fl, bind="a%d" % op[1]))
        elif k == "ap":
            lines.append(p.call("i", "Happendable", V("a%d" % op[1])))
        elif k == "w":
            aid = shadow.a[op[1]]
            base = aid.pos if aid is not None and aid.pos is not None else 0
            lines.append(p.call("i", "Hwrite", V("a%d" % op[1]), op[2], pat(op[3], op[2], base)))
        elif k == "sk":
            lines.append(p.call("i", "Hseek", V("a%d" % op[1]), op[2], op[3]))
        elif k == "r":
            aid = shadow.a[op[1]]
            e = shadow.e.get(aid.key) if aid else None
            lines.append(p.call("i", "Hread", V("a%d" % op[1]), op[2], Out(bound)))
        elif k == "tell":
            lines.append(p.call("i", "Htell", V("a%d" % op[1])))
        elif k == "inq":
            lines.append(p.call("i", "Hinquire", V("a%d" % op[1]), Out(4), Out(2), Out(2), Out(4), Out(4), Out(4),
                                Out(2), Out(2)))
        elif k == "len":
            t, r = KEYS[op[1]]
            lines.append(p.call("i", "Hlength", V("f"), t, r))
        elif k == "get":
            t, r = KEYS[op[1]]
            lines.append(p.call("i", "Hgetelement", V("f"), t, r, Out(bound)))
        elif k == "put":
            t, r = KEYS[op[1]]
            lines.append(p.call("i", "Hputelement", V("f"), t, r, pat(op[3], op[2], 0), op[2]))
        elif k == "tr":
            lines.append(p.call("i", "Htrunc", V("a%d" % op[1]), op[2]))
        elif k == "hl":
            t, r = KEYS[op[2]]
            lines.append(p.call("i", "HLcreate", V("f"), t, r, op[3], op[4], bind="a%d" % op[1]))
        elif k == "hc":
            lines.append(p.call("i", "HLconvert", V("a%d" % op[1]), op[2], op[3]))
        elif k == "hx":
            t, r = KEYS[op[2]]
            # one fresh external file per HXcreate: regions of different elements/sessions never overlap
            lines.append(p.call("i", "HXcreate", V("f"), t, r, os.path.join(d, "ext%d_%d.dat" % (len(plan), op[2])),
                                op[4], 0, bind="a%d" % op[1]))
        elif k == "dup":
            tn, rn = KEYS[op[1]]
            to, ro = KEYS[op[2]]
            lines.append(p.call("i", "Hdupdd", V("f"), tn, rn, to, ro))
        elif k == "del":
            t, r = KEYS[op[1]]
            lines.append(p.call("i", "Hdeldd", V("f"), t, r))
        elif k == "end":
            lines.append(p.call("i", "Hendaccess", V("a%d" % op[1])))
        elif k == "cache":
            lines.append(p.call("i", "Hcache", V("f"), op[1]))
        elif k == "reopen":
            extra = [s for s in range(NSLOT) if shadow.a[s] is not None]
            for s in range(NSLOT):
                if shadow.a[s] is not None:
                    lines.append(p.call("i", "Hendaccess", V("a%d" % s)))
            lines.append(p.call("i", "Hclose", V("f")))
            lines.append(p.call("i", "Hopen", path, 3, 0, bind="f"))
        try:
            shadow.step(op, None)
        except Invalid:
            return None, None, None
        plan.append((op, lines, extra))
    # epilogue: release everything, close, reopen read-only and read every element back
    fin = list(pre)
    if case.get("twin"):
        for k, (t, r) in enumerate(KEYS):
            bl, nb, n, data = twin_elem(k)
            # through the access id opened before the history, and through one opened now
            fin.append(("twread", k, p.call("i", "Hread", V("tb%d" % k), 0, Out(n + 64))))
            fin.append(("twopen", None, p.call("i", "Hstartread", V("fb"), t, r, bind="tc")))
            fin.append(("twlen", k, p.call("i", "Hinquire", V("tc"), Out(4), Out(2), Out(2), Out(4), Out(4), Out(4), Out(2), Out(2))))
            fin.append(("twread", k, p.call("i", "Hread", V("tc"), 0, Out(n + 64))))
            fin.append(("twret", 0, p.call("i", "Hendaccess", V("tc"))))
            fin.append(("twret", 0, p.call("i", "Hendaccess", V("tb%d" % k))))
        fin.append(("twret", 0, p.call("i", "Hclose", V("fb"))))
    for s in range(NSLOT):
        if shadow.a[s] is not None:
            fin.append(("end", s, p.call("i", "Hendaccess", V("a%d" % s))))
    fin.append(("close", None, p.call("i", "Hclose", V("f"))))
    fin.append(("open", None, p.call("i", "Hopen", path, 1, 0, bind="f")))
    for k, e in sorted(shadow.e.items()):
        t, r = KEYS[k]
        fin.append(("flen", k, p.call("i", "Hlength", V("f"), t, r)))
        if e.maxlen > 0:
            fin.append(("fget", k, p.call("i", "Hgetelement", V("f"), t, r, Out(bound))))
    fin.append(("close", None, p.call("i", "Hclose", V("f"))))
    return p, plan, (ln0, fin)


def check(case, rr, plan, tail):
    m = Model()
    ln0, fin = tail

    def res(ln):
        r = rr.res.get(ln)
        if r is None:
            raise Fail("crash" if rr.crashed else "no result", detail=rr.sanitizer_summary(),
                       frames=rr.crash_frames(), line=ln, text=(rr.stderr[-1800:] if rr.crashed else ""))
        return r

    if res(ln0).ret == -1:
        raise Fail("Hopen(create) failed")
    resync = set()
    for op, lines, extra in plan:
        obs = [res(l) for l in lines]
        m.emitted_slots = extra
        # after a tolerated failed read the position is undefined until the next absolute seek
        if op[0] in ("w", "r", "tell", "inq", "tr", "sk") and op[1] in resync:
            if op[0] == "sk" and op[3] == 0:
                resync.discard(op[1])
                m.a[op[1]].pos = -999999
            else:
                raise Skip()
        try:
            m.step(op, obs)
            if op[0] == "sk" and m.a[op[1]] is not None and m.a[op[1]].pos is not None and m.a[op[1]].pos < 0:
                raise Skip()
        except Resync as rs:
            resync.add(rs.slot)
        except Invalid:
            raise Skip()
        if op[0] in ("end", "reopen"):
            if op[0] == "end":
                resync.discard(op[1])
            else:
                resync.clear()
    # epilogue
    for role, k, ln in fin:
        r = res(ln)
        if role.startswith("tw"):
            m.labels.add("twin_file")
            if role == "twret" and r.ret != k:
                raise Fail("a call on the twin file failed", line=ln, expected=k, observed=r.ret)
            if role == "twopen" and r.ret == -1:
                raise Fail("opening the twin file / an access id on it failed", line=ln)
            if role == "twlen":
                n = twin_elem(k)[2]
                got = struct.unpack("=i", r.bufs[3])[0]
                if r.ret != 0 or got != n:
                    raise Fail("Hinquire on the twin file's element reports another length", key=list(KEYS[k]), expected=n, observed=got)
            if role == "twread":
                n, data = twin_elem(k)[2:]
                if r.ret != n or r.bufs[0][:n] != data:
                    raise Fail("the twin file's element reads back other bytes than it holds", key=list(KEYS[k]), expected=n, observed=r.ret)
            continue
        if role in ("end", "close"):
            if role == "end" and m.a[k] is None:
                continue    # slot never became live (a tolerated refusal): nothing to release
            if r.ret != 0:
                raise Fail("final %s failed" % role)
        elif role == "open":
            if r.ret == -1:
                raise Fail("final Hopen failed")
            for e in m.e.values():
                for j in range(len(e.store.st)):
                    if e.store.st[j] == G:
                        e.store.st[j] = K
                        e.store.data[j] = 0
        elif role == "flen":
            e = m.e[k]
            if e.len >= 0 and r.ret != e.len:
                raise Fail("length after reopen differs", key=list(KEYS[k]), expected=e.len, observed=r.ret)
        elif role == "fget":
            e = m.e[k]
            sts = e.store.st[:e.len]
            soft = any(c != K for c in sts)
            if r.ret == -1 and soft:
                continue
            if r.ret != e.len:
                raise Fail("Hgetelement after reopen returned wrong length", key=list(KEYS[k]), expected=e.len,
                           observed=r.ret)
            got = r.bufs[0][:e.len]
            for i in range(e.len):
                if sts[i] == K and got[i] != e.store.data[i]:
                    raise Fail("data after reopen differs", key=list(KEYS[k]), at=i, expected=e.store.data[i],
                               observed=got[i], kind_of_element=e.kind)
            m.labels.add("reopen_read")
    if any(e.kind == "linked" for e in m.e.values()) and "grow_plain" in m.labels:
        pass
    return m


class Skip(Exception):
    pass


def sample_of(case):
    return {"ndds": case["ndds"], "ops": [" ".join(str(x) for x in op) for op in case["ops"][:40]]}


def run_case(case):
    with CaseDir() as d:
        prog, plan, tail = emit(case, d)
        if prog is None:
            return CaseResult(labels={"domain_skip"})
        rr = run(prog, cwd=d)
        labels = set()
        try:
            if rr.harness_error:
                raise Fail("harness error", detail=rr.harness_error)
            m = check(case, rr, plan, tail)
            labels = m.labels
            if not rr.done:
                raise Fail("crash", detail=rr.sanitizer_summary(), frames=rr.crash_frames(),
                           text=rr.stderr[-1800:])
            # promotion detection: a plain element that grew and is stored as linked blocks
            f = h4fmt.parse_file(os.path.join(d, "a.hdf"))
            if f.violations:
                raise Fail("closed file is not well-formed", violations=f.violations[:6])
            for k, e in m.e.items():
                dd = f.find(*KEYS[k])
                if dd is None:
                    raise Fail("element missing from closed file", key=list(KEYS[k]))
                if e.kind == "plain" and h4fmt.is_special(dd.tag):
                    labels.add("promoted")
        except Skip:
            return CaseResult(labels={"domain_skip"})
        except Fail as f:
            info = f.info
            info["program"] = prog.text()[:8000]
            return CaseResult(labels=labels, failure=info, sample=sample_of(case))
        return CaseResult(labels=labels, sample=sample_of(case))


def known_match(case, failure, entry):
    return False


RULE += (" " + 'One history in four runs next to a twin file that holds linked-block elements under the same tags/refs (other block geometry, length and bytes) with read access ids open during the whole history; both files must keep returning their own bytes.')
