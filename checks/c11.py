"""C11 — annotations stay attached to their objects and keep their text."""
import os, struct
from hypothesis import strategies as st
from h4verif.exe import Prog, V, Out, OutS, InOut, run, CaseDir, i32s, un_i32s
from h4verif.runner import CaseResult

PROPERTY = "C11"
LEVEL = "exploration"
NEED = ("h4x",)
RULE = ("histories (<=30 ops) of ANcreate/ANcreatef of the four annotation types on up to 4 target tag/refs, "
        "ANwriteann with texts of 1..5000 bytes (empty text is refused cleanly by ANwriteann) (descriptions with embedded NULs), rewrite with longer/shorter text, "
        "ANendaccess, ANend/reopen, plus single-file DFANputlabel/DFANputdesc/DFANaddfid/DFANaddfds read back through "
        "AN, and DFANgetlablen/getlabel/getdesclen/getdesc on this file and on a second file that only the single-file "
        "interface writes (alternating between the two files without DFANclear; DFANclear only after the multi-file "
        "interface changed the file); after every mutator and after the final reopen: ANfileinfo, ANselect/ANget_tagref enumeration of each "
        "type, ANnumann/ANannlist per target, ANannlen/ANreadann of every annotation (into a large buffer, into one of exactly the documented minimum size and truncated to half), ANid2tagref<->ANtagref2id; dict "
        "model, listings compared as multisets. Non-trivial = >=2 annotations of one type on one object, a rewrite "
        "with different length, or reopen with >=5 annotations.")
BUDGET = {"quick": {"shards": 8, "cases": 200}, "thorough": {"shards": 16, "cases": 2500}}
MIN_NT = {"quick": 300, "thorough": 5000}
ASSUMPTIONS = ["labels are NUL-terminated strings by contract (no embedded NUL generated for labels)",
               "annotation listings carry no order guarantee: compared as multisets"]
NT_LABELS = {"multi_same_object", "rewrite_len_change", "reopen_many"}
DL, DD, FL, FD = 0, 1, 2, 3
ANN_TAG = {DL: 104, DD: 105, FL: 100, FD: 101}
TARGETS = [(702, 1), (702, 2), (306, 1), (1962, 5)] + [(800, i + 1) for i in range(20)]
NT4 = 4          # the first four targets are used by every operation, the others by DFAN bursts only


def nontrivial(labels):
    return bool(NT_LABELS & set(labels))


class Fail(Exception):
    def __init__(self, kind, **kw):
        self.info = dict(kind=kind, **kw)


def text_for(seed, n, label):
    if label:
        return bytes(((seed * 13 + i * 7) % 94) + 33 for i in range(n))
    return bytes(((seed * 13 + i * 7) % 256) for i in range(n))


@st.composite
def strategy_(draw, tier):
    ops = []
    n = 0
    for _ in range(draw(st.integers(2, 30))):
        c = draw(st.integers(0, 99))
        ln = draw(st.sampled_from([1, 2, 10, 40, 255, 256, 1000, 5000]) if draw(st.integers(0, 4)) == 0
                  else st.integers(1, 60))
        if c < 45:
            t = draw(st.sampled_from([DL, DL, DD, DD, FL, FD]))
            tgt = draw(st.integers(0, NT4 - 1))
            ops.append(["create", t, tgt, ln, draw(st.integers(0, 99)), draw(st.integers(0, 5)) == 0])
            n += 1
        elif c < 65 and n:
            ops.append(["rewrite", draw(st.integers(0, n - 1)), ln, draw(st.integers(0, 99))])
        elif c < 75:
            ops.append(["reopen", draw(st.integers(0, 1))])      # 1: the next call in the new session is not a listing
        elif c < 82:
            ops.append(["dfan", draw(st.sampled_from(["label", "desc", "fid", "fds"])),
                        draw(st.integers(0, NT4 - 1)), max(ln, 1) if True else ln, draw(st.integers(0, 99))])
            n += 1
            if draw(st.integers(0, 4)) == 0:
                # a burst of single-file annotations on further objects (the single-file directory grows in
                # nodes of 16 entries)
                w_ = draw(st.sampled_from(["label", "desc"]))
                for bi in range(draw(st.integers(3, 20))):
                    ops.append(["dfan", w_, NT4 + bi, 1 + bi % 7, draw(st.integers(0, 99))])
                    n += 1
                ops.append(["dfanget", 0, w_, draw(st.integers(0, NT4 - 1))])
                ops.append(["dfanget", 0, w_, NT4])
        elif c < 87:
            # the single-file interface applied to a second file in the same process
            ops.append(["dfan2", draw(st.sampled_from(["label", "desc"])), draw(st.integers(0, NT4 - 1)),
                        max(ln, 1), draw(st.integers(0, 99))])
        elif c < 94:
            ops.append(["dfanget", draw(st.integers(0, 1)), draw(st.sampled_from(["label", "desc"])),
                        draw(st.integers(0, NT4 - 1))])
        else:
            ops.append(["observe"])
    return {"ops": ops}


def strategy(tier):
    return strategy_(tier)


def run_case(case):
    labels = set()
    with CaseDir() as d:
        path = os.path.join(d, "a.hdf")
        p = Prog()
        steps = []

        def S(role, ln, *a):
            steps.append((role, ln, a))

        S("nofail", p.call("i", "Hopen", path, 7, 0, bind="f"), "Hopen")
        S("nofail", p.call("i", "ANstart", V("f"), bind="an"), "ANstart")
        anopen = True
        nslots = 0

        def observe():
            for t in (DL, DD, FL, FD):
                S("all", p.call("i", "hx_an_all", V("an"), t, Out(20 * 400), 400), t)
            for ti, (tt, tr) in enumerate(TARGETS[:NT4]):
                for t in (DL, DD):
                    S("list", p.call("i", "hx_an_list", V("an"), t, tt, tr, Out(12 * 400), 400), t, ti)
            S("fileinfo", p.call("i", "ANfileinfo", V("an"), Out(4), Out(4), Out(4), Out(4)))
            for t in (DL, DD, FL, FD):
                S("atype2tag", p.call("u", "ANatype2tag", t), t)
                S("tag2atype", p.call("i", "ANtag2atype", ANN_TAG[t]), t)
            S("readall", None)

        def ensure_an():
            nonlocal anopen
            if not anopen:
                S("nofail", p.call("i", "Hopen", path, 3, 0, bind="f"), "Hopen")
                S("nofail", p.call("i", "ANstart", V("f"), bind="an"), "ANstart")
                anopen = True

        def close_an():
            nonlocal anopen
            if anopen:
                S("ret0", p.call("i", "ANend", V("an")), "ANend")
                S("ret0", p.call("i", "Hclose", V("f")), "Hclose")
                anopen = False

        # the "readall" role is expanded at check time into reads of every known annotation; to keep the
        # program static we emit reads for every slot created so far instead
        slot_meta = []   # (type, target index, variable names)
        cur_txt = {}     # slot -> (type, text) as of this point of the program

        def read_exact(q):
            """read into a buffer of exactly the documented minimum size: the text length for descriptions,
            one more (terminator) for labels; and a second time truncated to about half of it"""
            t_, txt_ = cur_txt[q]
            need = len(txt_) + (1 if t_ in (DL, FL) else 0)
            S("readx", p.call("i", "hx_an_read", V("an"), V("at%d" % q), V("ar%d" % q), Out(need), need), q, need)
            if len(txt_) >= 4:
                half = len(txt_) // 2
                S("readx", p.call("i", "hx_an_read", V("an"), V("at%d" % q), V("ar%d" % q), Out(half), half), q, half)

        has = set()
        has2 = set()
        path2 = os.path.join(d, "other.hdf")
        an_dirty = False
        for op in case["ops"]:
            k = op[0]
            if k == "create":
                ensure_an()
                an_dirty = True
                _, t, tgt, ln, seed = op[:5]
                label = t in (DL, FL)
                txt = text_for(seed, ln, label)
                s = nslots
                nslots += 1
                has.add((t, tgt))
                if t in (DL, DD):
                    S("create", p.call("i", "ANcreate", V("an"), TARGETS[tgt][0], TARGETS[tgt][1], t, bind="n%d" % s),
                      s, t, tgt)
                else:
                    S("create", p.call("i", "ANcreatef", V("an"), t, bind="n%d" % s), s, t, None)
                if len(op) > 5 and op[5]:
                    # a second create of the same kind before the first new annotation is written: the library
                    # refuses it (the same reference number would be handed out); nothing may change by that
                    if t in (DL, DD):
                        S("create2", p.call("i", "ANcreate", V("an"), TARGETS[tgt][0], TARGETS[tgt][1], t))
                    else:
                        S("create2", p.call("i", "ANcreatef", V("an"), t))
                S("write", p.call("i", "ANwriteann", V("n%d" % s), txt if txt else b"", ln), s, txt)
                cur_txt[s] = (t, txt)
                S("idtr", p.call("i", "ANid2tagref", V("n%d" % s), Out(2, bind="at%d" % s), Out(2, bind="ar%d" % s)), s)
                S("ret0", p.call("i", "ANendaccess", V("n%d" % s)), "ANendaccess")
                slot_meta.append((t, tgt, True))
                observe_slots = list(range(nslots))
                for t2 in (DL, DD, FL, FD):
                    S("all", p.call("i", "hx_an_all", V("an"), t2, Out(20 * 400), 400), t2)
                for q in observe_slots[-3:]:
                    if slot_meta[q][2]:
                        S("read", p.call("i", "hx_an_read", V("an"), V("at%d" % q), V("ar%d" % q), Out(5200), 5200), q)
                read_exact(s)
            elif k == "rewrite":
                ensure_an()
                an_dirty = True
                _, s, ln, seed = op
                if s >= nslots or not slot_meta[s][2]:
                    continue
                label = slot_meta[s][0] in (DL, FL)
                txt = text_for(seed, ln, label)
                S("rewrite", p.call("i", "hx_an_rewrite", V("an"), V("at%d" % s), V("ar%d" % s), txt if txt else b"",
                                    ln), s, txt)
                cur_txt[s] = (slot_meta[s][0], txt)
                for q in range(nslots):
                    if slot_meta[q][2]:
                        S("read", p.call("i", "hx_an_read", V("an"), V("at%d" % q), V("ar%d" % q), Out(5200), 5200), q)
            elif k == "reopen":
                close_an()
                ensure_an()
                S("reopened", None)
                if len(op) > 1 and op[1]:
                    continue
                for t2 in (DL, DD, FL, FD):
                    S("all", p.call("i", "hx_an_all", V("an"), t2, Out(20 * 400), 400), t2)
            elif k == "dfan":
                # single-file interface works on a closed file (it opens the file itself)
                _, what, tgt, ln, seed = op
                if what in ("label", "desc"):
                    # the single-file interface keeps one label/description per object: putting another
                    # replaces an existing one; only generated for objects that have none of that type yet
                    key = (DL if what == "label" else DD, tgt)
                    if key in has:
                        continue
                    has.add(key)
                close_an()
                s = nslots
                nslots += 1
                tt, tr = TARGETS[tgt]
                if what == "label":
                    txt = text_for(seed, ln, True)
                    S("dfan", p.call("i", "DFANputlabel", path, tt, tr, txt + b"\0"), s, DL, tgt, txt)
                elif what == "desc":
                    txt = text_for(seed, ln, False)
                    S("dfan", p.call("i", "DFANputdesc", path, tt, tr, txt, ln), s, DD, tgt, txt)
                else:
                    S("nofail", p.call("i", "Hopen", path, 3, 0, bind="f"), "Hopen")
                    if what == "fid":
                        txt = text_for(seed, ln, True)
                        S("dfan", p.call("i", "DFANaddfid", V("f"), txt + b"\0"), s, FL, None, txt)
                    else:
                        txt = text_for(seed, ln, False)
                        S("dfan", p.call("i", "DFANaddfds", V("f"), txt, ln), s, FD, None, txt)
                    S("ret0", p.call("i", "Hclose", V("f")), "Hclose")
                slot_meta.append((None, tgt, False))   # identity (tag/ref) not known through DFAN
                ensure_an()
                for t2 in (DL, DD, FL, FD):
                    S("all", p.call("i", "hx_an_all", V("an"), t2, Out(20 * 400), 400), t2)
                if what == "label":
                    S("dfanget", p.call("i", "hx_an_list", V("an"), DL, tt, tr, Out(12 * 400), 400), DL, tgt)
            elif k == "dfan2":
                _, what, tgt, ln, seed = op
                key = (DL if what == "label" else DD, tgt)
                if key in has2:
                    continue
                has2.add(key)
                tt, tr = TARGETS[tgt]
                if what == "label":
                    txt = text_for(seed + 50, ln, True)
                    S("dfan2", p.call("i", "DFANputlabel", path2, tt, tr, txt + b"\0"), DL, tgt, txt)
                else:
                    txt = text_for(seed + 50, ln, False)
                    S("dfan2", p.call("i", "DFANputdesc", path2, tt, tr, txt, ln), DD, tgt, txt)
            elif k == "dfanget":
                _, fi, what, tgt = op
                tt, tr = TARGETS[tgt]
                t = DL if what == "label" else DD
                if fi == 0:
                    close_an()
                    if an_dirty:
                        # the multi-file interface changed the file behind the single-file interface's cached
                        # directory: DFANclear is the documented way to drop that cache
                        S("ret0", p.call("i", "DFANclear"), "DFANclear")
                        an_dirty = False
                pth = path if fi == 0 else path2
                if what == "label":
                    S("dfanlen", p.call("i", "DFANgetlablen", pth, tt, tr), fi, t, tgt)
                    S("dfantxt", p.call("i", "DFANgetlabel", pth, tt, tr, OutS(5300), 5300), fi, t, tgt)
                else:
                    S("dfanlen", p.call("i", "DFANgetdesclen", pth, tt, tr), fi, t, tgt)
                    S("dfantxt", p.call("i", "DFANgetdesc", pth, tt, tr, Out(5300), 5300), fi, t, tgt)
            else:
                ensure_an()
                observe()
        close_an()
        ensure_an()
        S("reopened", None)
        observe()
        for q in range(nslots):
            if slot_meta[q][2]:
                S("read", p.call("i", "hx_an_read", V("an"), V("at%d" % q), V("ar%d" % q), Out(5200), 5200), q)
                read_exact(q)
                S("tr2id", p.call("i", "ANtagref2id", V("an"), V("at%d" % q), V("ar%d" % q), bind="tmp"), q)
                S("idtr2", p.call("i", "ANid2tagref", V("tmp"), Out(2), Out(2)), q)
        close_an()
        # the single-file interface's own enumeration of file labels / descriptions (length, text, next ...)
        S("nofail", p.call("i", "Hopen", path, 1, 0, bind="fe"), "Hopen for DFAN enumeration")
        S("dfanenum", p.call("i", "hx_dfan_file_enum", V("fe"), 1, Out(8 * 64), 64, 70), FL)
        S("dfanenum", p.call("i", "hx_dfan_file_enum", V("fe"), 0, Out(8 * 64), 64, 70), FD)
        S("ret0", p.call("i", "Hclose", V("fe")), "Hclose")
        rr = run(p, cwd=d)
        # ---------------------------------------------------------------- check (sequential model)
        model = {}    # (ann_tag, ann_ref) -> dict(type, target, text)
        slots = {}    # slot -> (ann_tag, ann_ref)
        pending = {}  # slot -> (type, target)
        dfan_anns = []   # annotations created through DFAN: (type, target, text), identity unknown
        other = {}       # second file, single-file interface only: (type, target) -> text
        try:
            if rr.harness_error:
                raise Fail("harness error", detail=rr.harness_error)
            for role, ln, a in steps:
                if role in ("readall", "reopened"):
                    if role == "reopened" and len(model) + len(dfan_anns) >= 5:
                        labels.add("reopen_many")
                    continue
                r = rr.res.get(ln)
                if r is None:
                    raise Fail("crash" if rr.crashed else "no result", detail=rr.sanitizer_summary(),
                               frames=rr.crash_frames(), call=p.lines[ln - 1][:100],
                               text=rr.stderr[-1500:] if rr.crashed else "")
                what = p.lines[ln - 1][:80]
                if role == "nofail":
                    if r.ret == -1:
                        raise Fail("%s failed" % a[0])
                elif role == "ret0":
                    if r.ret != 0:
                        raise Fail("%s failed" % a[0], ret=r.ret)
                elif role == "create2":
                    if r.ret != -1:
                        # accepted: an unwritten annotation now exists whose state the interface does not
                        # define; the rest of this history is not judged
                        labels.add("second_create_accepted")
                        break
                    labels.add("second_create_refused")
                elif role == "create":
                    if r.ret == -1:
                        raise Fail("ANcreate/ANcreatef failed", call=what)
                    pending[a[0]] = (a[1], a[2])
                elif role == "write":
                    if r.ret != 0:
                        raise Fail("ANwriteann failed", length=len(a[1]))
                    pending[a[0]] = pending[a[0]] + (a[1],)
                elif role == "idtr":
                    s = a[0]
                    at = struct.unpack("=H", r.bufs[0])[0]
                    ar = struct.unpack("=H", r.bufs[1])[0]
                    t, tgt, txt = pending.pop(s)
                    if r.ret != 0 or at != ANN_TAG[t]:
                        raise Fail("ANid2tagref reports wrong tag", expected=ANN_TAG[t], observed=at, ret=r.ret)
                    if (at, ar) in model:
                        raise Fail("new annotation got the identity of an existing one", ident=[at, ar])
                    same = [v for v in model.values() if v["type"] == t and v["target"] == tgt and t in (DL, DD)]
                    if same:
                        labels.add("multi_same_object")
                    model[(at, ar)] = dict(type=t, target=tgt, text=txt)
                    slots[s] = (at, ar)
                elif role == "rewrite":
                    s, txt = a
                    if r.ret != 0:
                        raise Fail("rewriting an annotation failed", ret=r.ret, new_length=len(txt))
                    if len(model[slots[s]]["text"]) != len(txt):
                        labels.add("rewrite_len_change")
                    model[slots[s]]["text"] = txt
                elif role == "dfan":
                    s, t, tgt, txt = a
                    if r.ret != 0:
                        raise Fail("DFAN call failed", call=what)
                    dfan_anns.append(dict(type=t, target=tgt, text=txt))
                    labels.add("dfan")
                elif role == "dfan2":
                    t, tgt, txt = a
                    if r.ret != 0:
                        raise Fail("DFAN call on the second file failed", call=what)
                    other[(t, tgt)] = txt
                    labels.add("dfan_two_files")
                elif role in ("dfanlen", "dfantxt"):
                    fi, t, tgt = a
                    if fi == 0:
                        cands = [v_["text"] for v_ in model.values() if v_["type"] == t and v_["target"] == tgt] + \
                                [x["text"] for x in dfan_anns if x["type"] == t and x["target"] == tgt]
                    else:
                        cands = [other[(t, tgt)]] if (t, tgt) in other else []
                    labels.add("dfan_get")
                    if not cands:
                        if r.ret != -1:
                            raise Fail("DFAN returned an annotation for an object that has none", call=what, ret=r.ret)
                    elif role == "dfanlen":
                        if r.ret not in [len(c_) for c_ in cands]:
                            raise Fail("DFAN annotation length differs from every annotation of the object",
                                       call=what, file=fi, expected=[len(c_) for c_ in cands], observed=r.ret)
                    else:
                        if r.ret != 0:
                            raise Fail("DFAN could not read an existing annotation", call=what, file=fi, ret=r.ret)
                        got = r.bufs[0]
                        if t == DL:
                            got = got.split(b"\0")[0] if isinstance(got, bytes) else got.encode("latin-1")
                        if not any(got[:len(c_)] == c_ for c_ in cands):
                            raise Fail("DFAN returned a text that no annotation of the object has", call=what,
                                       file=fi, expected=[c_[:24].hex() for c_ in cands], observed=got[:24].hex())
                elif role == "read":
                    q = a[0]
                    ent = model[slots[q]]
                    txt = ent["text"]
                    if r.ret != len(txt):
                        raise Fail("ANannlen differs from text written", ident=list(slots[q]), expected=len(txt),
                                   observed=r.ret)
                    got = r.bufs[0][:len(txt)]
                    if got != txt:
                        raise Fail("ANreadann text differs", ident=list(slots[q]), expected=txt[:40].hex(),
                                   observed=got[:40].hex())
                elif role == "readx":
                    q, maxlen = a
                    ent = model[slots[q]]
                    txt = ent["text"]
                    islabel = ent["type"] in (DL, FL)
                    if r.ret != len(txt):
                        raise Fail("ANannlen differs from text written", ident=list(slots[q]), expected=len(txt),
                                   observed=r.ret)
                    # a label is returned NUL-terminated within maxlen, a description fills up to maxlen bytes
                    keep = min(len(txt), maxlen - 1 if islabel else maxlen)
                    got = r.bufs[0]
                    if got[:keep] != txt[:keep] or (islabel and got[keep:keep + 1] != b"\0"):
                        raise Fail("ANreadann into a buffer of %d bytes (text %d bytes) returned wrong bytes" % (
                            maxlen, len(txt)), ident=list(slots[q]), type=ent["type"], expected=txt[:keep][-8:].hex(),
                            observed=got[:keep + 1][-9:].hex())
                    labels.add("exact_size_read")
                elif role == "all":
                    t = a[0]
                    n = r.ret
                    if n < 0:
                        raise Fail("enumerating annotations failed", type=t, code=n)
                    v = un_i32s(r.bufs[0])[:5 * min(n, 400)]
                    got = [(v[5 * i], v[5 * i + 1], v[5 * i + 2], v[5 * i + 3], v[5 * i + 4]) for i in range(min(n, 400))]
                    idents = [(g[0], g[1]) for g in got]
                    if len(set(idents)) != len(idents):
                        raise Fail("ANselect enumeration yields one annotation twice", type=t)
                    want_known = {k_: v_ for k_, v_ in model.items() if v_["type"] == t}
                    want_dfan = [x for x in dfan_anns if x["type"] == t]
                    if n != len(want_known) + len(want_dfan):
                        raise Fail("number of annotations of a type differs from model", type=t,
                                   expected=len(want_known) + len(want_dfan), observed=n)
                    for k_ in want_known:
                        if k_ not in idents:
                            raise Fail("annotation missing from enumeration", ident=list(k_), type=t)
                    # lengths and targets
                    extra_l = []
                    for g in got:
                        if (g[0], g[1]) in want_known:
                            e = want_known[(g[0], g[1])]
                            if g[2] != len(e["text"]):
                                raise Fail("enumerated length differs", ident=[g[0], g[1]], expected=len(e["text"]),
                                           observed=g[2])
                            if (g[3], g[4]) != (g[0], g[1]):
                                raise Fail("ANget_tagref disagrees with ANid2tagref", ident=[g[0], g[1]],
                                           observed=[g[3], g[4]])
                        else:
                            extra_l.append(g[2])
                    if sorted(extra_l) != sorted(len(x["text"]) for x in want_dfan):
                        raise Fail("annotations written through DFAN have wrong lengths via AN", type=t,
                                   expected=sorted(len(x["text"]) for x in want_dfan), observed=sorted(extra_l))
                elif role in ("list", "dfanget"):
                    t, ti = a
                    n = r.ret
                    if n < 0:
                        raise Fail("ANnumann/ANannlist failed or disagree", type=t, target=list(TARGETS[ti]), code=n)
                    v = un_i32s(r.bufs[0])[:3 * min(n, 400)]
                    got = [(v[3 * i], v[3 * i + 1], v[3 * i + 2]) for i in range(min(n, 400))]
                    wk = {k_: v_ for k_, v_ in model.items() if v_["type"] == t and v_["target"] == ti}
                    wd = [x for x in dfan_anns if x["type"] == t and x["target"] == ti]
                    if n != len(wk) + len(wd):
                        raise Fail("annotations listed for an object differ from model", type=t,
                                   target=list(TARGETS[ti]), expected=len(wk) + len(wd), observed=n)
                    for k_ in wk:
                        if k_ not in [(g[0], g[1]) for g in got]:
                            raise Fail("annotation missing from object's list", ident=list(k_))
                    if sorted(g[2] for g in got) != sorted([len(x["text"]) for x in wk.values()] +
                                                           [len(x["text"]) for x in wd]):
                        raise Fail("listed annotation lengths differ", target=list(TARGETS[ti]))
                elif role == "dfanenum":
                    t = a[0]
                    want = sorted((len(x["text"]), sum(b * (i % 7 + 1) for i, b in enumerate(x["text"])) & 0x7fffffff)
                                  for x in list(model.values()) + dfan_anns if x["type"] == t)
                    v = un_i32s(r.bufs[0])
                    got = sorted((v[2 * i], v[2 * i + 1]) for i in range(max(0, min(r.ret, 64))))
                    if r.ret != len(want) or got != want:
                        raise Fail("the DFAN enumeration of file %s differs from the annotations in the file" % (
                            "labels" if t == FL else "descriptions"), returned=r.ret, expected=len(want),
                            lengths_got=[g[0] for g in got][:10], lengths_expected=[w[0] for w in want][:10])
                    if want:
                        labels.add("dfan_file_enum")
                elif role == "fileinfo":
                    c = [struct.unpack("=i", b)[0] for b in r.bufs]
                    want = [sum(1 for x in list(model.values()) + dfan_anns if x["type"] == t) for t in (FL, FD, DL, DD)]
                    if r.ret != 0 or c != want:
                        raise Fail("ANfileinfo differs", expected=want, observed=c)
                elif role == "atype2tag":
                    if r.ret != ANN_TAG[a[0]]:
                        raise Fail("ANatype2tag differs", type=a[0], expected=ANN_TAG[a[0]], observed=r.ret)
                elif role == "tag2atype":
                    if r.ret != a[0]:
                        raise Fail("ANtag2atype differs", tag=ANN_TAG[a[0]], expected=a[0], observed=r.ret)
                elif role == "tr2id":
                    if r.ret == -1:
                        raise Fail("ANtagref2id failed for an existing annotation", ident=list(slots[a[0]]))
                elif role == "idtr2":
                    at = struct.unpack("=H", r.bufs[0])[0]
                    ar = struct.unpack("=H", r.bufs[1])[0]
                    if r.ret != 0 or (at, ar) != slots[a[0]]:
                        raise Fail("ANtagref2id/ANid2tagref are not inverse", expected=list(slots[a[0]]),
                                   observed=[at, ar])
            if not rr.done:
                raise Fail("crash", detail=rr.sanitizer_summary(), frames=rr.crash_frames(), text=rr.stderr[-1500:])
        except Fail as f:
            info = f.info
            info["program"] = p.text()[:5000]
            return CaseResult(labels=labels, failure=info, sample=sample_of(case))
    return CaseResult(labels=labels, sample=sample_of(case))


def sample_of(case):
    return {"ops": [str(o) for o in case["ops"][:25]]}


def known_match(case, failure, entry):
    return False


RULE += (" " + "The single-file interface's own enumeration of file labels/descriptions (DFANgetfidlen/DFANgetfid, DFANgetfdslen/DFANgetfds until failure) must return exactly the file annotations of the model; a second ANcreate/ANcreatef of the same kind before the first new annotation is written is refused and must change nothing.")
