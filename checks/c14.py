"""C14 — read-only access never alters a file; write requests through it are refused."""
import os, hashlib, struct
import numpy as np
from hypothesis import strategies as st
from h4verif.exe import Prog, V, Out, OutS, InOut, run, CaseDir, i32s
from h4verif.runner import CaseResult
from h4verif import workloads as wl, h4fmt
from h4verif.workloads import chunk_def, cinfo

PROPERTY = "C14"
LEVEL = "exploration"
NEED = ("h4x",)
RULE = ("input: a file holding objects of every interface and special-element kind (plain/linked/compressed/external H "
        "elements, Vdata+Vgroup with attributes, contiguous/chunked+deflate/unlimited SDS with attributes, GR image "
        "with palette and attribute, annotations, a dataset created but never written, a second shorter record dataset, an old-style RLE raster image) built fault-free; it is opened read-only through H, V, SD, GR and "
        "AN at once and a generated program of 5..40 calls drawn from the full read, inquiry and mutation vocabulary "
        "(~60 mutators with generated arguments) is run, then everything is closed. Oracle: file and external file "
        "byte-identical (sha1) and the stdio write log contains no write on them; each mutator of the must-fail list "
        "returned its failure value. Second clause: open read-write, only reads/inquiries (or nothing), close: the "
        "logical content read by a full reader is identical before and after and the file stays well-formed. "
        "Non-trivial = >=3 distinct mutators issued (the file always has special elements).")
BUDGET = {"quick": {"shards": 8, "cases": 400}, "thorough": {"shards": 16, "cases": 4000}}
MIN_NT = {"quick": 1000, "thorough": 15000}
ASSUMPTIONS = ["mutators that only change in-memory state of a read-only handle (e.g. SDsetattr on a dataset id) are "
               "checked through the byte-identity oracle only; the must-fail list contains the calls that would have "
               "to store data or create a stored object"]

# (name, builder(p) -> lineno, must_fail)
def _m(fn, *args, rt="i", must=True):
    return (fn, lambda p: p.call(rt, fn, *args), must)


MUTATORS = [
    _m("Hstartwrite", V("f"), 2222, 1, 10), _m("Hputelement", V("f"), 2222, 2, b"abc", 3),
    _m("Hputelement", V("f"), 1000, 1, b"zz", 2), _m("Hstartaccess", V("f"), 1000, 1, 3),
    _m("Hstartaccess", V("f"), 2223, 1, 2), _m("HLcreate", V("f"), 2224, 1, 8, 2),
    _m("HLcreate", V("f"), 1000, 1, 8, 2), _m("HCcreate", V("f"), 2225, 1, 0, bytes(16), 1, bytes(20)),
    _m("HXcreate", V("f"), 2226, 1, "newext.dat", 0, 0), _m("HXcreate", V("f"), 1000, 1, "newext2.dat", 0, 0),
    _m("Hdeldd", V("f"), 1000, 1, must=False), _m("Hdupdd", V("f"), 2227, 1, 1000, 1, must=False),
    _m("HDreuse_tagref", V("f"), 1000, 1, must=False),
    _m("VSattach", V("f"), -1, "w"), _m("VSattach", V("f"), V("vr"), "w"), _m("Vattach", V("f"), -1, "w"),
    _m("Vattach", V("f"), V("gref"), "w"),
    _m("VSwrite", V("vs"), bytes(12), 1, 0), _m("VSsetname", V("vs"), "renamed", must=False), _m("VSsetclass", V("vs"), "cls", must=False),
    _m("VSsetattr", V("vs"), -1, "note", 4, 4, b"wxyz"), _m("VSsetattr", V("vs"), -1, "newattr", 4, 2, b"pq"),
    _m("VSfdefine", V("vs"), "zz", 24, 1, must=False), _m("VSsetfields", V("vs"), "a", must=False),
    _m("Vaddtagref", V("g"), 1000, 9, must=False), _m("Vdeletetagref", V("g"), 1000, 1, must=False), _m("Vsetname", V("g"), "renamed"),
    _m("Vsetclass", V("g"), "cls"), _m("Vsetattr", V("g"), "ga", 22, 2, bytes(4)), _m("Vinsert", V("g"), V("vs")),
    # (Vdelete/VSdelete are not in the vocabulary: the only vgroup/vdata of the file are attached, and deleting
    #  an attached object is outside every interface's contract)
    _m("SDcreate", V("sd"), "newsds", 24, 1, i32s(4)), _m("SDwritedata", V("s0"), i32s(0, 0), None, i32s(1, 1), bytes(4)),
    _m("SDwritedata", V("s1"), i32s(0, 0), None, i32s(2, 2), bytes(8)),
    _m("SDwritedata", V("s2"), i32s(6), None, i32s(2), bytes(8)),
    _m("SDsetattr", V("s0"), "units", 4, 3, b"xyz", must=False), _m("SDsetattr", V("sd"), "newglobal", 4, 2, b"ab", must=False),
    _m("SDsetdimname", V("d0"), "newdim", must=False), _m("SDsetdimscale", V("d0"), 4, 24, bytes(16), must=False),
    _m("SDsetdatastrs", V("s0"), "l", "u", "f", "c", must=False), _m("SDsetfillvalue", V("s0"), bytes(4), must=False),
    _m("SDsetrange", V("s0"), bytes(4), bytes(4), must=False),
    _m("hx_SDsetchunk", V("s0"), chunk_def([2, 2]), 1, must=False), _m("SDsetcompress", V("s0"), 4, cinfo(6), must=False),
    _m("SDsetexternalfile", V("s0"), "sdext.dat", 0), _m("SDsetnbitdataset", V("s0"), 5, 4, 0, 0, must=False),
    _m("SDwritechunk", V("s1"), i32s(0, 0), bytes(12)),
    _m("GRcreate", V("gr"), "newimg", 1, 21, 0, i32s(2, 2), must=False),
    _m("GRwriteimage", V("ri"), i32s(0, 0), None, i32s(1, 1), bytes(3)),
    _m("GRsetattr", V("ri"), "note", 4, 2, b"no", must=False), _m("GRsetattr", V("gr"), "gglobal", 4, 2, b"no", must=False),
    _m("GRwritelut", V("lut"), 3, 21, 0, 256, bytes(768)), _m("GRsetcompress", V("ri"), 4, cinfo(6), must=False),
    _m("GRsetexternalfile", V("ri"), "grext.dat", 0),
    _m("ANcreate", V("an"), 1000, 1, 0, must=False), _m("ANcreatef", V("an"), 2, must=False), _m("ANwriteann", V("ann"), b"changed text", 12),
    _m("Htrunc", V("aid"), 2), _m("Hwrite", V("aid"), 3, b"xyz"), _m("Happendable", V("aid"), must=False),
    _m("HLconvert", V("aid"), 8, 2),
    # the same through read access elements on every special-element kind (linked, compressed, external)
    _m("Hwrite", V("aidl"), 3, b"xyz"), _m("Hwrite", V("aidc"), 3, b"xyz"), _m("Hwrite", V("aidx"), 3, b"xyz"),
    _m("Htrunc", V("aidl"), 2, must=False), _m("Htrunc", V("aidx"), 2, must=False),
    # the documented upper-case spellings of the access string
    _m("VSattach", V("f"), -1, "W"), _m("VSattach", V("f"), V("vr"), "W"), _m("Vattach", V("f"), -1, "W"),
    _m("Vattach", V("f"), V("gref"), "W"),
    # a dataset that holds no data yet, and an old-style RLE raster image reached through GR
    _m("SDwritedata", V("s3"), i32s(0), None, i32s(4), bytes(16)),
    _m("GRwriteimage", V("ri8"), i32s(0, 0), None, i32s(6, 5), bytes(30)),
]
READERS = [
    lambda p: p.call("i", "Hgetelement", V("f"), 1000, 1, Out(44)),
    lambda p: p.call("i", "Hgetelement", V("f"), 1002, 1, Out(54)),
    lambda p: p.call("i", "Hgetelement", V("f"), 1003, 1, Out(64)),
    lambda p: p.call("i", "Hgetelement", V("f"), 1004, 1, Out(20)),
    lambda p: p.call("i", "hx_find_all", V("f"), 0, 0, 1, Out(16 * 200), 200, 1000),
    lambda p: p.call("i", "Hnumber", V("f"), 0),
    lambda p: p.call("u", "Hnewref", V("f")),
    lambda p: p.call("i", "Hread", V("aid"), 10, Out(10)),
    lambda p: p.call("i", "Hseek", V("aid"), 5, 0),
    lambda p: p.call("i", "VSread", V("vs"), Out(24), 2, 0),
    lambda p: p.call("i", "VSseek", V("vs"), 3),
    lambda p: p.call("i", "VSinquire", V("vs"), Out(4), Out(4), OutS(200), Out(4), OutS(100)),
    lambda p: p.call("i", "Vgettagrefs", V("g"), Out(40), Out(40), 10),
    lambda p: p.call("i", "Vlone", V("f"), Out(80), 20),
    lambda p: p.call("i", "SDreaddata", V("s0"), i32s(0, 0), None, i32s(3, 4), Out(48)),
    lambda p: p.call("i", "SDreaddata", V("s1"), i32s(1, 1), None, i32s(3, 3), Out(18)),
    lambda p: p.call("i", "SDreadchunk", V("s1"), i32s(1, 1), Out(12)),
    lambda p: p.call("i", "SDreaddata", V("s2"), i32s(0), None, i32s(6), Out(24)),
    lambda p: p.call("i", "SDgetinfo", V("s2"), OutS(100), Out(4), Out(128), Out(4), Out(4)),
    lambda p: p.call("i", "SDreadattr", V("s0"), 0, Out(3)),
    lambda p: p.call("i", "GRreadimage", V("ri"), i32s(0, 0), None, i32s(5, 4), Out(60)),
    lambda p: p.call("i", "GRreadlut", V("lut"), Out(768)),
    lambda p: p.call("i", "ANreadann", V("ann"), Out(13), 13),
    lambda p: p.call("i", "ANannlen", V("ann")),
    lambda p: p.call("i", "SDreaddata", V("s4"), i32s(0), None, i32s(50), Out(100)),
    lambda p: p.call("i", "SDreaddata", V("s5"), i32s(0), None, i32s(50), Out(100)),
    lambda p: p.call("i", "SDreaddata", V("s4"), i32s(3000), None, i32s(10), Out(20)),
    # record datasets: whole, the last record, and reads that reach one or more records past the end
    lambda p: p.call("i", "SDreaddata", V("s6"), i32s(0), None, i32s(3), Out(6)),
    lambda p: p.call("i", "SDreaddata", V("s6"), i32s(3), None, i32s(1), Out(2)),
    lambda p: p.call("i", "SDreaddata", V("s6"), i32s(0), None, i32s(4), Out(8)),
    lambda p: p.call("i", "SDreaddata", V("s6"), i32s(5), None, i32s(1), Out(2)),
    lambda p: p.call("i", "SDreaddata", V("s2"), i32s(6), None, i32s(1), Out(4)),
    lambda p: p.call("i", "SDreaddata", V("s2"), i32s(2), None, i32s(5), Out(20)),
    # raw-location inquiries (they open the file a second time internally)
    lambda p: p.call("i", "SDgetanndatainfo", V("s0"), 0, 4, Out(16), Out(16)),
    lambda p: p.call("i", "SDgetanndatainfo", V("s2"), 1, 4, Out(16), Out(16)),
    lambda p: p.call("i", "SDgetanndatainfo", V("sd"), 2, 4, Out(16), Out(16)),
    lambda p: p.call("i", "SDgetdatainfo", V("s0"), None, 0, 4, Out(16), Out(16)),
    lambda p: p.call("i", "SDgetattdatainfo", V("s0"), 0, Out(4), Out(4)),
    lambda p: p.call("i", "SDgetoldattdatainfo", V("d0"), V("s0"), "long_name", Out(4), Out(4)),
    lambda p: p.call("i", "GRgetdatainfo", V("ri"), 0, 4, Out(16), Out(16)),
    lambda p: p.call("i", "VSgetdatainfo", V("vs"), 0, 4, Out(16), Out(16)),
    lambda p: p.call("i", "ANgetdatainfo", V("ann"), Out(4), Out(4)),
]


def nontrivial(labels):
    return "mutators>=3" in labels


@st.composite
def strategy_(draw, tier):
    mode = draw(st.sampled_from(["ro", "ro", "ro", "rw_noedit"]))
    n = draw(st.integers(5, 40))
    ops = []
    for _ in range(n):
        if mode == "ro" and draw(st.integers(0, 9)) < 7:
            ops.append(["m", draw(st.integers(0, len(MUTATORS) - 1))])
        else:
            ops.append(["r", draw(st.integers(0, len(READERS) - 1))])
    return {"mode": mode, "ops": ops}


def strategy(tier):
    return strategy_(tier)


def sha(path):
    with open(path, "rb") as f:
        return hashlib.sha1(f.read()).hexdigest()


def run_case(case):
    labels = set()
    with CaseDir() as d:
        bp, paths = wl.w_combo("")
        rb = run(bp, cwd=d)
        if not rb.done:
            return CaseResult(failure=dict(kind="harness: building the input file failed", detail=rb.sanitizer_summary()))
        # two more stored objects: a dataset that was created but never written, and an old-style (DFR8)
        # run-length compressed raster image
        xp = Prog()
        xp.call("i", "SDstart", "combo.hdf", 3, bind="sd")
        xp.call("i", "SDcreate", V("sd"), "empty", 24, 1, i32s(4), bind="s")
        xp.call("i", "SDendaccess", V("s"))
        # two datasets whose packed bit stream spans several 4096-byte blocks (n-bit, skipping Huffman)
        big = (np.arange(8192, dtype=np.int64) * 7919 % 3000).astype("=i2")
        xp.call("i", "SDcreate", V("sd"), "bign", 22, 1, i32s(8192), bind="s")
        xp.call("i", "SDsetnbitdataset", V("s"), 11, 12, 0, 0)
        xp.call("i", "SDwritedata", V("s"), i32s(0), None, i32s(8192), big.tobytes())
        xp.call("i", "SDendaccess", V("s"))
        xp.call("i", "SDcreate", V("sd"), "bigh", 22, 1, i32s(8192), bind="s")
        xp.call("i", "SDsetcompress", V("s"), 3, struct.pack("=i", 2) + bytes(16))
        xp.call("i", "SDwritedata", V("s"), i32s(0), None, i32s(8192), big.tobytes())
        xp.call("i", "SDendaccess", V("s"))
        # a second record dataset, shorter than "unl": reads at and beyond its end are then below the file's record count
        xp.call("i", "SDcreate", V("sd"), "unl2", 22, 1, i32s(0), bind="s")
        xp.call("i", "SDwritedata", V("s"), i32s(0), None, i32s(3), np.array([11, -12, 13], dtype="=i2").tobytes())
        xp.call("i", "SDendaccess", V("s"))
        xp.call("i", "SDend", V("sd"))
        xp.call("i", "DFR8addimage", "combo.hdf", bytes((i * 3) & 0xff for i in range(30)), 6, 5, 11)
        rx = run(xp, cwd=d)
        if not rx.done or any(r.ret == -1 for r in rx.res.values() if r.kind == "R"):
            return CaseResult(failure=dict(kind="harness: extending the input file failed", detail=rx.sanitizer_summary()))
        files = [os.path.join(d, "combo.hdf"), os.path.join(d, "combo.ext")]
        before = [sha(x) for x in files]
        listing0 = sorted(os.listdir(d))
        acc = 1 if case["mode"] == "ro" else 3
        fail = None
        # reference transcript of the logical content
        ref = run(wl.combo_reader("", acc=1), cwd=d)

        def big_reader():
            q = Prog()
            q.call("i", "SDstart", "combo.hdf", 1, bind="sd")
            ls = []
            for i in (4, 5):
                q.call("i", "SDselect", V("sd"), i, bind="s")
                ls.append(q.call("i", "SDreaddata", V("s"), i32s(0), None, i32s(8192), Out(16384)))
                q.call("i", "SDendaccess", V("s"))
            for i in (2, 6):
                # the record datasets: number of records and the records
                q.call("i", "SDselect", V("sd"), i, bind="s")
                ls.append(q.call("i", "SDgetinfo", V("s"), OutS(100), Out(4), Out(4), Out(4), Out(4)))
                ls.append(q.call("i", "SDreaddata", V("s"), i32s(0), None, i32s(3), Out(12)))
                q.call("i", "SDendaccess", V("s"))
            q.call("i", "SDend", V("sd"))
            rq = run(q, cwd=d)
            return [(rq.res[l].ret, tuple(rq.res[l].bufs)) if l in rq.res else None for l in ls]

        big_ref = big_reader()
        p = Prog()
        must = []
        p.call("i", "SDstart", "combo.hdf", acc, bind="sd")
        for i in range(7):
            p.call("i", "SDselect", V("sd"), i, bind="s%d" % i)
        p.call("i", "SDgetdimid", V("s0"), 0, bind="d0")
        p.call("i", "Hopen", "combo.hdf", acc, 0, bind="f")
        p.call("i", "Hstartread", V("f"), 1000, 1, bind="aid")
        p.call("i", "Hstartread", V("f"), 1002, 1, bind="aidl")
        p.call("i", "Hstartread", V("f"), 1003, 1, bind="aidc")
        p.call("i", "Hstartread", V("f"), 1004, 1, bind="aidx")
        p.call("i", "Vinitialize", V("f"))
        p.call("i", "VSfind", V("f"), "table", bind="vr")
        p.call("i", "VSattach", V("f"), V("vr"), "r", bind="vs")
        p.call("i", "VSsetfields", V("vs"), "a,b")
        p.call("i", "Vfind", V("f"), "group", bind="gref")
        p.call("i", "Vattach", V("f"), V("gref"), "r", bind="g")
        p.call("i", "GRstart", V("f"), bind="gr")
        p.call("i", "GRselect", V("gr"), 0, bind="ri")
        p.call("i", "GRgetlutid", V("ri"), 0, bind="lut")
        p.call("i", "GRselect", V("gr"), 1, bind="ri8")
        p.call("i", "ANstart", V("f"), bind="an")
        p.call("i", "ANselect", V("an"), 0, 1, bind="ann")
        used = set()
        for op in case["ops"]:
            if op[0] == "m":
                name, build, mustfail = MUTATORS[op[1]]
                ln = build(p)
                used.add(name)
                if mustfail and case["mode"] == "ro":
                    must.append((ln, name))
            else:
                READERS[op[1]](p)
        if len(used) >= 3:
            labels.add("mutators>=3")
        p.call("i", "ANendaccess", V("ann"))
        p.call("i", "ANend", V("an"))
        p.call("i", "GRendaccess", V("ri"))
        p.call("i", "GRendaccess", V("ri8"))
        p.call("i", "GRend", V("gr"))
        p.call("i", "VSdetach", V("vs"))
        p.call("i", "Vdetach", V("g"))
        p.call("i", "Vfinish", V("f"))
        p.call("i", "Hendaccess", V("aid"))
        for x in ("aidl", "aidc", "aidx"):
            p.call("i", "Hendaccess", V(x))
        lclose = p.call("i", "Hclose", V("f"))
        for i in range(7):
            p.call("i", "SDendaccess", V("s%d" % i))
        lend = p.call("i", "SDend", V("sd"))
        wlog = os.path.join(d, "wlog")
        rr = run(p, cwd=d, wlog=wlog)
        if not rr.done:
            fail = dict(kind="crash", detail=rr.sanitizer_summary(), frames=rr.crash_frames(),
                        last_call=p.lines[max(0, rr.last_line)][:100] if rr.last_line < len(p.lines) else "",
                        text=rr.stderr[-1200:])
        elif case["mode"] == "ro":
            after = [sha(x) for x in files]
            if after != before:
                which = [os.path.basename(files[i]) for i in range(2) if after[i] != before[i]]
                fail = dict(kind="file changed although it was only opened for reading", files=which)
            else:
                with open(wlog) as f:
                    opened = {}
                    for l in f:
                        t = l.split(" ")
                        if t[0] == "O":
                            opened[t[1]] = t[3].strip()
                        elif t[0] == "W" and os.path.basename(opened.get(t[1], "")) in ("combo.hdf", "combo.ext"):
                            # the stream is opened "rb": the OS refuses the write and the bytes stay unchanged
                            # (checked above); an attempted write alone is not a violation of the property
                            labels.add("write_attempt_refused_by_os")
            if fail is None:
                for ln, name in must:
                    r = rr.res.get(ln)
                    ok = r is not None and (r.ret == -1 or (name in ("Hnewref",) and r.ret == 0))
                    if not ok:
                        fail = dict(kind="a mutating call through a read-only handle did not fail", call=name,
                                    ret=(r.ret if r else None), line=p.lines[ln - 1][:100])
                        break
            if fail is None:
                new = sorted(set(os.listdir(d)) - set(listing0) - {"wlog"})
                if new:
                    fail = dict(kind="a new file was created through read-only handles", files=new)
        else:
            # opened read-write, only reads: content must be unchanged and the file well-formed
            for ln in (lclose, lend):
                if rr.res[ln].ret != 0:
                    fail = dict(kind="closing a read-write handle without edits failed")
            if fail is None:
                f2 = h4fmt.parse_file(files[0])
                if f2.violations:
                    fail = dict(kind="file not well-formed after read-write open/close without edits",
                                violations=f2.violations[:5])
            if fail is None:
                again = run(wl.combo_reader("", acc=1), cwd=d)
                a = {ln: (r.ret, r.bufs) for ln, r in again.res.items() if r.kind == "R"}
                b = {ln: (r.ret, r.bufs) for ln, r in ref.res.items() if r.kind == "R"}
                # ids differ between processes only in handle values (lines binding ids): compare buffers and
                # returns of non-id calls
                rd = wl.combo_reader("", acc=1)
                for ln in sorted(b):
                    line = rd.lines[ln - 1]
                    if line.startswith("="):
                        continue
                    if a.get(ln) != b[ln]:
                        fail = dict(kind="content differs after read-write open/close without edits",
                                    call=line[:80])
                        break
            labels.add("rw_noedit")
        if fail is None and rr.done and big_reader() != big_ref:
            fail = dict(kind="content of a multi-block n-bit / skipping-Huffman dataset, or the record count / records "
                             "of a record dataset, differ after a session without edits", mode=case["mode"])
        if fail is not None:
            fail["program"] = p.text()[:5000]
            return CaseResult(labels=labels, failure=fail, sample=dict(mode=case["mode"], ops=case["ops"][:20]))
    return CaseResult(labels=labels, sample=dict(mode=case["mode"], mutators=sorted(used)[:12], n=len(case["ops"])))


def known_match(case, failure, entry):
    return False
