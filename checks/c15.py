"""C15 — all interfaces agree on the content of the same objects."""
import os, struct, hashlib, glob, shutil
import numpy as np
from hypothesis import strategies as st
from h4verif.exe import Prog, V, Out, OutS, run, CaseDir, i32s, un_i32s, scratch_root
from h4verif.runner import CaseResult

PROPERTY = "C15"
LEVEL = "exploration"
NEED = ("h4x",)
RULE = ("one file receives generated scientific datasets (written by DFSDadddata, DFSD slabs, SD, or the netCDF-style "
        "calls; 7 number types, rank 1..3, optional label/unit/format strings, fill value, range, dimension scale), "
        "8-bit rasters (DFR8 with/without palette and RLE, or GR 1-component with/without LUT and RLE/deflate), "
        "24-bit rasters (DF24 in pixel/line/plane interlace, or GR 3-component in the three interlaces) and file "
        "annotations (DFAN or AN), appended in generated order by different interfaces (DFSD also reads a generated window of every dataset through DFSDreadslab/DFSDgetslice); optionally a 16-bit GR image "
        "(which GR alone presents and which must stay intact) and later sessions in which GR gives one of its 8-bit "
        "images a first palette or an attribute. Every object is then read "
        "in fresh processes through every interface able to address it (SD, DFSD, nc*, V-level view of SD and GR "
        "objects; GR, DFR8, DF24 with every requested interlace, DFP palettes; AN, DFAN) and dimensions, number "
        "type, values, palettes, strings must equal the model. The `extra` sweep reads every checked-in HDF file of "
        "the repository through the old and the new interfaces and compares them. Non-trivial = an object written "
        "by interface A was read through an interface B != A.")
BUDGET = {"quick": {"shards": 8, "cases": 150}, "thorough": {"shards": 16, "cases": 2500}}
MIN_NT = {"quick": 600, "thorough": 12000}
ASSUMPTIONS = ["lossless storage only (JPEG/IMCOMP excluded)",
               "raster images written through GR for the old interfaces are of type DFNT_UINT8, the type GR writes compatibility "
               "raster groups for; the one 16-bit image is only required to stay readable through GR",
               "objects are matched between interfaces by content and order of creation; the single-file interfaces "
               "have no names",
               "the netCDF-style writer only creates the file (nccreate clobbers); DFSD/SD/GR/DFR8/DF24 append"]

NTS = {"int8": (20, "i1", 1), "uint8": (21, "u1", 1), "int16": (22, "i2", 3), "uint16": (23, "u2", 3),
       "int32": (24, "i4", 4), "float32": (5, "f4", 5), "float64": (6, "f8", 6)}     # hdf code, dtype, nc type


class Fail(Exception):
    def __init__(self, kind, **info):
        self.info = dict(kind=kind, **info)


def nontrivial(labels):
    return "cross_api_read" in labels


def vals(nt, n, salt):
    dt = np.dtype(NTS[nt][1])
    rng = np.random.RandomState((salt * 104729 + n * 31) % (2 ** 31))
    if dt.kind == "f":
        return (rng.randint(-4000, 4000, size=n) / 16.0).astype(dt)
    info = np.iinfo(dt)
    return rng.randint(max(info.min, -32000), min(info.max, 32000) + 1, size=n).astype(dt)


def longs(*v):
    return struct.pack("=%dq" % len(v), *v)


# ====================================================================== generator
@st.composite
def strategy_(draw, tier):
    items = []
    first_nc = draw(st.integers(0, 4)) == 0
    nsds = draw(st.integers(0, 3))
    for i in range(nsds):
        nt = draw(st.sampled_from(sorted(NTS)))
        rank = draw(st.integers(1, 3))
        dims = [draw(st.integers(1, 6)) for _ in range(rank)]
        w = draw(st.sampled_from(["dfsd", "dfsd_slab", "sd", "sd"]))
        if first_nc and i == 0:
            w = "nc"
            nt = draw(st.sampled_from(["int8", "int16", "int32", "float32", "float64"]))
        items.append(dict(kind="sds", w=w, nt=nt, dims=dims, name="ds%d" % i,
                          strs=draw(st.booleans()), fill=draw(st.booleans()), rng=draw(st.booleans()),
                          scale=draw(st.booleans()), smask=draw(st.integers(0, 7)), slabs=draw(st.integers(1, 3)),
                          unlim=(w == "sd" and draw(st.integers(0, 2)) == 0)))
    for i in range(draw(st.sampled_from([0, 1, 2, 2, 3]))):
        items.append(dict(kind="ri8", w=draw(st.sampled_from(["dfr8", "gr"])), x=draw(st.integers(1, 9)),
                          y=draw(st.integers(1, 9)), pal=draw(st.booleans()),
                          comp=draw(st.sampled_from(["none", "none", "rle", "deflate"])), name="i8_%d" % i))
    for i in range(draw(st.integers(0, 2))):
        items.append(dict(kind="ri24", w=draw(st.sampled_from(["df24", "df24", "gr"])), x=draw(st.integers(1, 7)),
                          y=draw(st.integers(1, 7)), il=draw(st.integers(0, 2)), name="i24_%d" % i))
    for i in range(draw(st.integers(0, 2))):
        items.append(dict(kind="ann", w=draw(st.sampled_from(["dfan", "an"])), what=draw(st.sampled_from(["label", "desc"])),
                          text="text %d %s" % (i, "x" * draw(st.integers(0, 60)))))
    if draw(st.integers(0, 3)) == 0:
        # a GR image that is not 8-bit: only GR presents it, but it shifts the refs of everything GR creates later
        items.append(dict(kind="x16", w="gr", x=draw(st.integers(1, 5)), y=draw(st.integers(1, 5)), name="x16"))
    if not items:
        items.append(dict(kind="ri8", w="dfr8", x=3, y=2, pal=True, comp="none", name="i8_0"))
    # order of creation: datasets keep their relative order (nc first), everything else is shuffled in
    order = draw(st.permutations(list(range(len(items)))))
    seq = [items[i] for i in order]
    if first_nc and nsds:
        seq.remove(items[0])
        seq.insert(0, items[0])
    # later sessions that change the description of an image GR wrote: a first palette, or an attribute
    for it in [it for it in seq if it["kind"] == "ri8" and it["w"] == "gr"]:
        how = draw(st.sampled_from(["", "", "lut", "attr"]))
        if how == "attr" or (how == "lut" and not it["pal"]):
            at = draw(st.integers(seq.index(it) + 1, len(seq)))
            seq.insert(at, dict(kind="edit", w="gr", target=it["name"], how=how))
    return {"items": seq, "reqil": draw(st.integers(0, 2)), "slabw": [draw(st.integers(0, 30)) for _ in range(7)]}


def strategy(tier):
    return strategy_(tier)


def il_bytes(img, il):
    """img[y][x][c] uint8 -> bytes in interlace il (0 pixel, 1 line, 2 plane)."""
    if il == 0:
        return img.tobytes()
    if il == 1:
        return np.transpose(img, (0, 2, 1)).tobytes()
    return np.transpose(img, (2, 0, 1)).tobytes()


def cinfo(param):
    return struct.pack("=i", param) + b"\0" * 60


# ====================================================================== writer
def write_item(it, k, d, model):
    """One program (process) per item: the single-file interfaces keep per-process state."""
    p = Prog()
    F = "x.hdf"
    if it["kind"] == "sds":
        nt, dims = it["nt"], it["dims"]
        code = NTS[nt][0]
        n = int(np.prod(dims))
        a = vals(nt, n, k + 3).reshape(dims)
        it["data"] = a
        fillv = vals(nt, 1, 77)
        rmax, rmin = vals(nt, 1, 5), vals(nt, 1, 6)
        # dimensions that carry a scale: any non-empty subset (older replay files: the first dimension)
        sd_ = [j for j in range(len(dims)) if (it.get("smask", 1) >> j) & 1] or [0]
        it["sdims"] = sd_
        scales = {j: vals(nt, dims[j], 9 + j) for j in sd_}
        if it["w"] in ("dfsd", "dfsd_slab"):
            p.call("i", "DFSDclear")
            p.call("i", "DFSDsetNT", code)
            p.call("i", "DFSDsetdims", len(dims), i32s(*dims))
            if it["strs"]:
                p.call("i", "DFSDsetdatastrs", "lab_%d" % k, "unit_%d" % k, "F%d.2" % k, "")
            if it["rng"]:
                p.call("i", "DFSDsetrange", rmax.tobytes(), rmin.tobytes())
            if it["scale"]:
                for j in sd_:
                    p.call("i", "DFSDsetdimscale", j + 1, dims[j], scales[j].tobytes())
            if it["w"] == "dfsd":
                if it["fill"]:
                    p.call("i", "DFSDsetfillvalue", fillv.tobytes())
                p.call("i", "DFSDadddata" if model["created"] else "DFSDputdata", F, len(dims), i32s(*dims), a.tobytes())
            else:
                if it["fill"]:
                    p.call("i", "DFSDsetfillvalue", fillv.tobytes())
                p.call("i", "DFSDstartslab", F)
                rows = dims[0]
                cuts = sorted(set([0, rows] + [rows * j // it["slabs"] for j in range(1, it["slabs"])]))
                for lo, hi in zip(cuts[:-1], cuts[1:]):
                    if hi == lo:
                        continue
                    start = [lo + 1] + [1] * (len(dims) - 1)          # slab starts are 1-based
                    cnt = [hi - lo] + dims[1:]
                    p.call("i", "DFSDwriteslab", i32s(*start), i32s(*([1] * len(dims))), i32s(*cnt), a[lo:hi].tobytes())
                p.call("i", "DFSDendslab")
        elif it["w"] == "sd":
            p.call("i", "SDstart", F, 3 if model["created"] else 4, bind="sd")
            cdims = list(dims)
            if it.get("unlim"):
                cdims[0] = 0            # SD_UNLIMITED: every record variable has its own record count in SD
                it["scale"] = False
            p.call("i", "SDcreate", V("sd"), it["name"], code, len(dims), i32s(*cdims), bind="s")
            if it["strs"]:
                p.call("i", "SDsetdatastrs", V("s"), "lab_%d" % k, "unit_%d" % k, "F%d.2" % k, None)
            if it["fill"]:
                p.call("i", "SDsetfillvalue", V("s"), fillv.tobytes())
            if it["rng"]:
                p.call("i", "SDsetrange", V("s"), rmax.tobytes(), rmin.tobytes())
            if it["scale"]:
                for j in sd_:
                    p.call("i", "SDgetdimid", V("s"), j, bind="dm")
                    p.call("i", "SDsetdimscale", V("dm"), dims[j], code, scales[j].tobytes())
            p.call("i", "SDwritedata", V("s"), i32s(*([0] * len(dims))), None, i32s(*dims), a.tobytes())
            p.call("i", "SDendaccess", V("s"))
            p.call("i", "SDend", V("sd"))
        else:   # nc: creates the file
            p.call("i", "hx_set_ncopts", 0)
            p.call("i", "H4_nccreate", F, 11, bind="nc")      # NC_CLOBBER
            dimids = []
            for j, dl in enumerate(dims):
                p.call("i", "H4_ncdimdef", V("nc"), "%s_d%d" % (it["name"], j), dl, bind="dim%d" % j)
            p.raw("=var i H4_ncvardef $nc s:%s %d %d io:%s" % (it["name"], NTS[nt][2], len(dims), "00" * (4 * len(dims))))
            # dimension ids are 0..rank-1 in a fresh file
            p.lines[-1] = "=var i H4_ncvardef $nc s:%s %d %d x:%s" % (it["name"], NTS[nt][2], len(dims), i32s(*range(len(dims))).hex())
            p.call("i", "H4_ncendef", V("nc"))
            p.call("i", "H4_ncvarput", V("nc"), V("var"), longs(*([0] * len(dims))), longs(*dims), a.tobytes())
            p.call("i", "H4_ncclose", V("nc"))
            it["strs"] = it["fill"] = it["rng"] = it["scale"] = False
        it["fillv"], it["rmax"], it["rmin"], it["scalev"] = fillv, rmax, rmin, scales
    elif it["kind"] == "ri8":
        x, y = it["x"], it["y"]
        img = vals("uint8", x * y, k + 11).reshape(y, x)
        pal = bytes(((i * 5 + c * 67 + k) & 0xff) for i in range(256) for c in range(3))
        it["img"], it["palv"] = img, pal
        if it["w"] == "dfr8":
            if it["pal"]:
                p.call("i", "DFR8setpalette", pal)
            else:
                p.call("i", "DFR8setpalette", None)
            comp = {"none": 0, "rle": 11, "deflate": 0}[it["comp"]]
            if it["comp"] == "deflate":
                it["comp"] = "none"
            # the first object of a new file goes through the "put" call (which creates/overwrites the file)
            p.call("i", "DFR8addimage" if model["created"] else "DFR8putimage", F, img.tobytes(), x, y, comp)
        else:
            p.call("i", "Hopen", F, 3 if model["created"] else 4, 0, bind="f")
            p.call("i", "GRstart", V("f"), bind="gr")
            p.call("i", "GRcreate", V("gr"), it["name"], 1, 21, 0, i32s(x, y), bind="ri")
            if it["comp"] == "rle":
                p.call("i", "GRsetcompress", V("ri"), 1, cinfo(0))
            elif it["comp"] == "deflate":
                p.call("i", "GRsetcompress", V("ri"), 4, cinfo(6))
            p.call("i", "GRwriteimage", V("ri"), i32s(0, 0), None, i32s(x, y), img.tobytes())
            if it["pal"]:
                p.call("i", "GRgetlutid", V("ri"), 0, bind="lut")
                p.call("i", "GRwritelut", V("lut"), 3, 21, 0, 256, pal)
            p.call("i", "GRendaccess", V("ri"))
            p.call("i", "GRend", V("gr"))
            p.call("i", "Hclose", V("f"))
    elif it["kind"] == "ri24":
        x, y, il = it["x"], it["y"], it["il"]
        img = vals("uint8", x * y * 3, k + 17).reshape(y, x, 3)
        it["img"] = img
        if it["w"] == "df24":
            p.call("i", "DF24setil", il)
            p.call("i", "DF24addimage" if model["created"] else "DF24putimage", F, il_bytes(img, il), x, y)
        else:
            p.call("i", "Hopen", F, 3 if model["created"] else 4, 0, bind="f")
            p.call("i", "GRstart", V("f"), bind="gr")
            p.call("i", "GRcreate", V("gr"), it["name"], 3, 21, il, i32s(x, y), bind="ri")
            p.call("i", "GRwriteimage", V("ri"), i32s(0, 0), None, i32s(x, y), il_bytes(img, il))
            p.call("i", "GRendaccess", V("ri"))
            p.call("i", "GRend", V("gr"))
            p.call("i", "Hclose", V("f"))
    elif it["kind"] == "x16":
        x, y = it["x"], it["y"]
        img = vals("int16", x * y, k + 23)
        it["img"] = img
        p.call("i", "Hopen", F, 3 if model["created"] else 4, 0, bind="f")
        p.call("i", "GRstart", V("f"), bind="gr")
        p.call("i", "GRcreate", V("gr"), it["name"], 1, 22, 0, i32s(x, y), bind="ri")
        p.call("i", "GRwriteimage", V("ri"), i32s(0, 0), None, i32s(x, y), img.tobytes())
        p.call("i", "GRendaccess", V("ri"))
        p.call("i", "GRend", V("gr"))
        p.call("i", "Hclose", V("f"))
    elif it["kind"] == "edit":
        tgt = [t for t in model["items"] if t["kind"] == "ri8" and t["name"] == it["target"]][0]
        p.call("i", "Hopen", F, 3, 0, bind="f")
        p.call("i", "GRstart", V("f"), bind="gr")
        p.call("i", "GRnametoindex", V("gr"), it["target"], bind="ix")
        p.call("i", "GRselect", V("gr"), V("ix"), bind="ri")
        if it["how"] == "lut":
            p.call("i", "GRgetlutid", V("ri"), 0, bind="lut")
            p.call("i", "GRwritelut", V("lut"), 3, 21, 0, 256, tgt["palv"])
            tgt["pal"] = True
        else:
            p.call("i", "GRsetattr", V("ri"), "note", 4, 5, b"later")
        p.call("i", "GRendaccess", V("ri"))
        p.call("i", "GRend", V("gr"))
        p.call("i", "Hclose", V("f"))
    else:
        txt = it["text"].encode()
        p.call("i", "Hopen", F, 3 if model["created"] else 4, 0, bind="f")
        if it["w"] == "dfan":
            if it["what"] == "label":
                p.call("i", "DFANaddfid", V("f"), it["text"])
            else:
                p.call("i", "DFANaddfds", V("f"), txt, len(txt))
        else:
            p.call("i", "ANstart", V("f"), bind="an")
            p.call("i", "ANcreatef", V("an"), 2 if it["what"] == "label" else 3, bind="ann")
            p.call("i", "ANwriteann", V("ann"), txt, len(txt))
            p.call("i", "ANendaccess", V("ann"))
            p.call("i", "ANend", V("an"))
        p.call("i", "Hclose", V("f"))
    model["created"] = True
    return p


# ====================================================================== the check
def legacy_files():
    src = os.environ.get("H4_SRC", "/repo")
    out = []
    for root, dirs, files in os.walk(src):
        dirs[:] = [x for x in dirs if x not in ("_build", ".git", "build")]
        for fn in sorted(files):
            p = os.path.join(root, fn)
            try:
                if os.path.getsize(p) > 8 << 20:
                    continue
                with open(p, "rb") as fh:
                    if fh.read(4) != b"\x0e\x03\x13\x01":
                        continue
            except OSError:
                continue
            out.append(os.path.relpath(p, src))
    return sorted(out)


NTSIZE = {20: 1, 21: 1, 22: 2, 23: 2, 24: 4, 25: 4, 5: 4, 6: 8, 3: 1, 4: 1, 26: 8, 27: 8}


def check_legacy(case, d, labels, excluded, known_keys):
    """A checked-in file is read through the old and the new interfaces; whatever the old ones present must be
    presented with equal content by the new ones."""
    src = os.path.join(os.environ.get("H4_SRC", "/repo"), case["legacy"])
    shutil.copy(src, os.path.join(d, "x.hdf"))
    F = "x.hdf"
    prog = "legacy file " + case["legacy"]

    def go(q, what):
        qq = run(q, cwd=d, timeout=120)
        if not qq.done:
            raise Fail("crash while reading a checked-in file through %s" % what, detail=qq.sanitizer_summary(),
                       frames=qq.crash_frames(), text=qq.stderr[-1200:], file=case["legacy"],
                       last_call=q.lines[qq.last_line][:120] if qq.last_line < len(q.lines) else "")
        return qq
    # ---- datasets: DFSD sequence vs SD
    q = Prog()
    q.call("i", "hx_set_ncopts", 0)
    ln = q.call("i", "DFSDndatasets", F)
    q.call("i", "DFSDrestart")
    inv = [(q.call("i", "DFSDgetdims", F, Out(4), Out(4 * 32), 32), q.call("i", "DFSDgetNT", Out(4))) for _ in range(40)]
    qq = go(q, "DFSD")
    nd = qq.res[ln].ret
    old = []
    for l0, l1 in inv[:max(nd, 0)]:
        if qq.res[l0].ret != 0:
            break
        rank = un_i32s(qq.res[l0].bufs[0])[0]
        old.append(dict(dims=un_i32s(qq.res[l0].bufs[1])[:rank], nt=un_i32s(qq.res[l1].bufs[0])[0]))
    q = Prog()
    q.call("i", "hx_set_ncopts", 0)
    lsd = q.call("i", "SDstart", F, 1, bind="sd")
    lfi = q.call("i", "SDfileinfo", V("sd"), Out(4), Out(4))
    scan = []
    for i in range(80):
        q.call("i", "SDselect", V("sd"), i, bind="t")
        scan.append(q.call("i", "SDgetinfo", V("t"), OutS(300), Out(4), Out(4 * 32), Out(4), Out(4)))
    qq = go(q, "SD (inventory)")
    new = []
    if qq.res[lsd].ret != -1:
        nds = un_i32s(qq.res[lfi].bufs[0])[0] if qq.res[lfi].ret == 0 else 0
        for i, l in enumerate(scan[:nds]):
            x = qq.res[l]
            if x.ret == -1:
                continue
            rank = un_i32s(x.bufs[1])[0]
            new.append(dict(index=i, name=x.bufs[0].decode("latin-1"), dims=un_i32s(x.bufs[2])[:rank], nt=un_i32s(x.bufs[3])[0]))

    def nbytes(e):
        n = NTSIZE.get(e["nt"] & 0xfff, 8)
        for x_ in e["dims"]:
            n *= max(x_, 0)
        return n
    if old:
        labels.add("legacy_dfsd")
        q = Prog()
        rl = []
        for e in old:
            q.call("i", "DFSDgetdims", F, Out(4), Out(4 * 32), 32)
            rl.append(q.call("i", "DFSDgetdata", F, len(e["dims"]), i32s(*e["dims"]), Out(max(nbytes(e), 1))) if nbytes(e) <= (4 << 20) else None)
        qq1 = go(q, "DFSD")
        q = Prog()
        q.call("i", "SDstart", F, 1, bind="sd")
        r2 = []
        for e in new:
            if nbytes(e) > (4 << 20) or nbytes(e) == 0:
                r2.append(None)
                continue
            q.call("i", "SDselect", V("sd"), e["index"], bind="s")
            r2.append(q.call("i", "SDreaddata", V("s"), i32s(*([0] * len(e["dims"]))), None, i32s(*e["dims"]), Out(nbytes(e))))
        qq2 = go(q, "SD")
        pool = [(e, qq2.res[l].bufs[0]) for e, l in zip(new, r2) if l is not None and qq2.res[l].ret == 0]
        for e, l in zip(old, rl):
            if l is None or qq1.res[l].ret != 0:
                continue
            data = qq1.res[l].bufs[0]
            labels.add("cross_api_read")
            if not any(pe["dims"] == e["dims"] and (pe["nt"] & 0xfff) == (e["nt"] & 0xfff) and pd == data for pe, pd in pool):
                # a record variable extended in a later session keeps its old record count in the NDG
                # (known finding C15-unlimited-stale-dims-for-dfsd): DFSD then presents a prefix
                stale = any((pe["nt"] & 0xfff) == (e["nt"] & 0xfff) and len(pe["dims"]) == len(e["dims"]) and
                            pe["dims"][1:] == e["dims"][1:] and pe["dims"][0] > e["dims"][0] and pd[:len(data)] == data
                            for pe, pd in pool) or any(
                            (pe["nt"] & 0xfff) == (e["nt"] & 0xfff) and len(pe["dims"]) == len(e["dims"]) and
                            pe["dims"][1:] == e["dims"][1:] and pe["dims"][0] > e["dims"][0] and nbytes(pe) > (4 << 20)
                            for pe in new)
                if stale:
                    known_keys.add("C15-unlimited-stale-dims-for-dfsd")
                    if not case.get("no_exclude"):
                        excluded.append("C15-unlimited-stale-dims-for-dfsd")
                        continue
                raise Fail("a dataset DFSD presents in a checked-in file is not presented with equal dimensions, type "
                           "and values by SD", file=case["legacy"], dataset=e,
                           sd_presents=[dict(name=pe["name"], dims=pe["dims"], nt=pe["nt"]) for pe, _ in pool][:8])
    # ---- rasters: DFR8 / DF24 sequences vs GR
    q = Prog()
    l8 = q.call("i", "DFR8nimages", F)
    q.call("i", "DFR8restart")
    i8 = [q.call("i", "DFR8getdims", F, Out(4), Out(4), Out(4)) for _ in range(12)]
    qq = go(q, "DFR8")
    n8 = qq.res[l8].ret
    d8 = []
    for l in i8[:max(n8, 0)]:
        if qq.res[l].ret != 0:
            break
        d8.append((un_i32s(qq.res[l].bufs[0])[0], un_i32s(qq.res[l].bufs[1])[0]))
    q = Prog()
    l24 = q.call("i", "DF24nimages", F)
    q.call("i", "DF24restart")
    i24 = [q.call("i", "DF24getdims", F, Out(4), Out(4), Out(4)) for _ in range(12)]
    qq = go(q, "DF24")
    n24 = qq.res[l24].ret
    d24 = []
    for l in i24[:max(n24, 0)]:
        if qq.res[l].ret != 0:
            break
        d24.append((un_i32s(qq.res[l].bufs[0])[0], un_i32s(qq.res[l].bufs[1])[0]))
    from h4verif import h4fmt
    lossy = any(dd.tag in (204, 12, 13, 14, 15, 16) for dd in h4fmt.parse_file(os.path.join(d, F)).dds)
    if lossy:
        labels.add("lossy_images_skipped")      # IMCOMP / JPEG: excluded by the property
    if (d8 or d24) and not lossy:
        q = Prog()
        q.call("i", "Hopen", F, 1, 0, bind="f")
        q.call("i", "GRstart", V("f"), bind="gr")
        lfi = q.call("i", "GRfileinfo", V("gr"), Out(4), Out(4))
        gi = []
        for i in range(40):
            q.call("i", "GRselect", V("gr"), i, bind="ri")
            gi.append(q.call("i", "GRgetiminfo", V("ri"), OutS(300), Out(4), Out(4), Out(4), Out(8), Out(4)))
            q.call("i", "GRendaccess", V("ri"))
        qq = go(q, "GR (inventory)")
        ng = un_i32s(qq.res[lfi].bufs[0])[0] if qq.res[lfi].ret == 0 else 0
        gp = []
        for i, l in enumerate(gi[:ng]):
            x = qq.res[l]
            if x.ret == -1:
                continue
            gp.append(dict(index=i, ncomp=un_i32s(x.bufs[1])[0], nt=un_i32s(x.bufs[2])[0], il=un_i32s(x.bufs[3])[0],
                           dims=un_i32s(x.bufs[4])))
        q = Prog()
        q.call("i", "Hopen", F, 1, 0, bind="f")
        q.call("i", "GRstart", V("f"), bind="gr")
        for pr in gp:
            pr["l"] = None
            if (pr["nt"] & 0xfff) in (3, 21) and pr["ncomp"] in (1, 3) and pr["dims"][0] * pr["dims"][1] <= (2 << 20):
                q.call("i", "GRselect", V("gr"), pr["index"], bind="ri")
                q.call("i", "GRreqimageil", V("ri"), 0)
                pr["l"] = q.call("i", "GRreadimage", V("ri"), i32s(0, 0), None, i32s(*pr["dims"]),
                                 Out(max(pr["dims"][0] * pr["dims"][1] * pr["ncomp"], 1)))
                q.call("i", "GRendaccess", V("ri"))
        qqg = go(q, "GR")
        for api, dl, ncomp in (("DFR8", d8, 1), ("DF24", d24, 3)):
            if not dl:
                continue
            labels.add("legacy_" + api.lower())
            q = Prog()
            rl = []
            for (x_, y_) in dl:
                q.call("i", "%sgetdims" % api, F, Out(4), Out(4), Out(4))
                if ncomp == 3:
                    q.call("i", "DF24reqil", 0)
                    rl.append(q.call("i", "DF24getimage", F, Out(max(x_ * y_ * 3, 1)), x_, y_))
                else:
                    rl.append(q.call("i", "DFR8getimage", F, Out(max(x_ * y_, 1)), x_, y_, Out(768)))
            qq1 = go(q, api)
            for (x_, y_), l in zip(dl, rl):
                if qq1.res[l].ret != 0:
                    continue
                labels.add("cross_api_read")
                ok = False
                stored_nonpixel = False
                for pr in gp:
                    if pr["ncomp"] == ncomp and pr["dims"] == [x_, y_] and pr["l"] is not None and qqg.res[pr["l"]].ret == 0:
                        if qqg.res[pr["l"]].bufs[0] == qq1.res[l].bufs[0]:
                            ok = True
                        elif pr["il"] != 0:
                            stored_nonpixel = True
                if not ok:
                    if stored_nonpixel and not case.get("no_exclude"):
                        excluded.append("C15-df24-interlace-via-gr")
                        continue
                    raise Fail("an image %s presents in a checked-in file is not presented with equal size and pixels by GR" % api,
                               file=case["legacy"], size=[x_, y_],
                               gr_presents=[dict(ncomp=pr["ncomp"], dims=pr["dims"], nt=pr["nt"], il=pr["il"]) for pr in gp][:8])
    labels.add("files_checked")


def run_case(case):
    labels = set()
    if "legacy" in case:
        excluded, known_keys = [], set()
        with CaseDir() as d:
            try:
                check_legacy(case, d, labels, excluded, known_keys)
            except Fail as f:
                info = f.info
                info["known_keys"] = sorted(known_keys)
                return CaseResult(labels=labels, failure=info, sample=dict(legacy=case["legacy"]), excluded=excluded)
        return CaseResult(labels=labels, sample=dict(legacy=case["legacy"]), excluded=excluded)
    sample = dict(items=["%s/%s" % (it["kind"], it["w"]) for it in case["items"]])
    excluded, known_keys = [], set()
    with CaseDir() as d:
        try:
            check(case, d, labels, excluded, known_keys)
        except Fail as f:
            info = f.info
            info["known_keys"] = sorted(known_keys)
            return CaseResult(labels=labels, failure=info, sample=sample, excluded=excluded)
    return CaseResult(labels=labels, sample=sample, excluded=excluded)


def check(case, d, labels, excluded, known_keys):
    model = dict(created=False)
    items = [dict(it) for it in case["items"]]
    # a dataset appended by DFSD to a file that already has the SD (Vgroup) structure is only described by an NDG,
    # which SD/nc ignore once the Vgroup structure exists (known finding C15-dfsd-append-invisible-to-sd)
    seen_sd = False
    kept = []
    for it in items:
        if it["kind"] == "sds" and it["w"] in ("sd", "nc"):
            seen_sd = True
        if it["kind"] == "sds" and it["w"].startswith("dfsd") and seen_sd:
            known_keys.add("C15-dfsd-append-invisible-to-sd")
            if not case.get("no_exclude"):
                excluded.append("C15-dfsd-append-invisible-to-sd")
                continue
        kept.append(it)
    items = kept
    if not items:
        return
    text = ""
    model["items"] = items
    for k, it in enumerate(items):
        p = write_item(it, k, d, model)
        rr = run(p, cwd=d, timeout=60)
        text += "# item %d %s/%s\n%s" % (k, it["kind"], it["w"], "\n".join(l[:200] for l in p.lines) + "\n")
        if not rr.done:
            raise Fail("crash while writing", detail=rr.sanitizer_summary(), frames=rr.crash_frames(),
                       text=rr.stderr[-1200:], program=text[-5000:])
        for ln, l in enumerate(p.lines, 1):
            x = rr.res.get(ln)
            if x is not None and x.ret == -1 and "DFSDclear" not in l:
                raise Fail("a writer call failed", call=l[:140], item=k, writer=it["w"], program=text[-5000:])
    prog = text[-5000:]
    sds = [it for it in items if it["kind"] == "sds"]
    ri8 = [it for it in items if it["kind"] == "ri8"]
    ri24 = [it for it in items if it["kind"] == "ri24"]
    x16 = [it for it in items if it["kind"] == "x16"]
    anns = [it for it in items if it["kind"] == "ann"]
    F = "x.hdf"

    def crash(rr, what, q):
        if not rr.done:
            raise Fail("crash while reading through %s" % what, detail=rr.sanitizer_summary(), frames=rr.crash_frames(),
                       text=rr.stderr[-1200:], last_call=q.lines[rr.last_line][:120] if rr.last_line < len(q.lines) else "",
                       program=prog)

    def cross(writer, reader):
        if writer != reader:
            labels.add("cross_api_read")
            labels.add("%s->%s" % (writer, reader))

    # ------------------------------------------------------------ datasets through SD
    if sds:
        q = Prog()
        q.call("i", "SDstart", F, 1, bind="sd")
        lfi = q.call("i", "SDfileinfo", V("sd"), Out(4), Out(4))
        rows = []
        for it in sds:
            ln = {}
            n = int(np.prod(it["dims"]))
            isz = np.dtype(NTS[it["nt"]][1]).itemsize
            if it["w"] in ("sd", "nc"):
                ln["idx"] = q.call("i", "SDnametoindex", V("sd"), it["name"], bind="ix")
                q.call("i", "SDselect", V("sd"), V("ix"), bind="s")
            else:
                ln["byorder"] = True
            rows.append((it, ln, n, isz))
        # datasets without names (DFSD) are located by scanning every index
        nscan = len(sds) * 3 + 4
        scan = []
        for i in range(nscan):
            l0 = q.call("i", "SDselect", V("sd"), i, bind="t")
            l1 = q.call("i", "SDgetinfo", V("t"), OutS(80), Out(4), Out(4 * 32), Out(4), Out(4))
            l2 = q.call("i", "SDiscoordvar", V("t"))
            scan.append((l0, l1, l2))
        qq = run(q, cwd=d, timeout=60)
        crash(qq, "SD (inventory)", q)
        nds = un_i32s(qq.res[lfi].bufs[0])[0]
        found = []
        for i, (l0, l1, l2) in enumerate(scan):
            if i >= nds or qq.res[l0].ret == -1 or qq.res[l1].ret == -1:
                continue
            # coordinate variables of unnamed dimensions are not datasets; SDiscoordvar itself is not used to
            # decide, because rewriting a file reclassifies imported old-style datasets (values stay intact)
            if qq.res[l1].bufs[0].startswith(b"fakeDim"):
                continue
            rank = un_i32s(qq.res[l1].bufs[1])[0]
            found.append(dict(index=i, name=qq.res[l1].bufs[0].decode("latin-1"), rank=rank,
                              dims=un_i32s(qq.res[l1].bufs[2])[:rank], nt=un_i32s(qq.res[l1].bufs[3])[0]))
        if len(found) != len(sds):
            raise Fail("SD presents a different number of datasets than were written", presented=found, written=len(sds),
                       program=prog)
        q = Prog()
        q.call("i", "SDstart", F, 1, bind="sd")
        rl = []
        for it, fnd in zip(sds, found):
            n = int(np.prod(it["dims"]))
            isz = np.dtype(NTS[it["nt"]][1]).itemsize
            if fnd["dims"] != it["dims"] or (fnd["nt"] & 0xfff) != NTS[it["nt"]][0]:
                raise Fail("SD presents other dimensions / number type than the writer stored", writer=it["w"],
                           presented=fnd, written=dict(dims=it["dims"], nt=NTS[it["nt"]][0]), program=prog)
            if it["w"] in ("sd", "nc") and fnd["name"] != it["name"]:
                raise Fail("SD presents another name", presented=fnd["name"], written=it["name"], program=prog)
            ln = {}
            q.call("i", "SDselect", V("sd"), fnd["index"], bind="s")
            ln["read"] = q.call("i", "SDreaddata", V("s"), i32s(*([0] * len(it["dims"]))), None, i32s(*it["dims"]), Out(n * isz))
            if it["strs"]:
                ln["strs"] = q.call("i", "SDgetdatastrs", V("s"), OutS(80), OutS(80), OutS(80), OutS(80), 79)
            if it["fill"] and it["w"] == "sd":
                # the old-style fill value element (DFTAG_FV) is not part of what SD imports from NDGs
                ln["fill"] = q.call("i", "SDgetfillvalue", V("s"), Out(isz))
            if it["rng"]:
                ln["rng"] = q.call("i", "SDgetrange", V("s"), Out(isz), Out(isz))
            if it["scale"]:
                ln["scale"] = {}
                for j in it["sdims"]:
                    q.call("i", "SDgetdimid", V("s"), j, bind="dm")
                    ln["scale"][j] = q.call("i", "SDgetdimscale", V("dm"), Out(isz * it["dims"][j]))
            ln["ref"] = q.call("i", "SDidtoref", V("s"))
            q.call("i", "SDendaccess", V("s"))
            rl.append((it, ln))
        q.call("i", "SDend", V("sd"))
        qq = run(q, cwd=d, timeout=60)
        crash(qq, "SD", q)
        refs = {}
        for it, ln in rl:
            x = qq.res[ln["read"]]
            cross("sd" if it["w"] == "sd" else it["w"], "sd")
            if x.ret != 0 or x.bufs[0] != it["data"].tobytes():
                raise Fail("values read through SD differ from what %s wrote" % it["w"], dims=it["dims"], nt=it["nt"],
                           program=prog)
            if "strs" in ln:
                got = [b.decode("latin-1") for b in qq.res[ln["strs"]].bufs[:3]]
                k = items.index(it)
                if qq.res[ln["strs"]].ret != 0 or got != ["lab_%d" % k, "unit_%d" % k, "F%d.2" % k]:
                    raise Fail("label/unit/format read through SD differ from what %s wrote" % it["w"], got=got, program=prog)
            if "fill" in ln and (qq.res[ln["fill"]].ret != 0 or qq.res[ln["fill"]].bufs[0] != it["fillv"].tobytes()):
                raise Fail("fill value read through SD differs from what %s wrote" % it["w"], program=prog)
            if "rng" in ln and (qq.res[ln["rng"]].ret != 0 or qq.res[ln["rng"]].bufs[0] != it["rmax"].tobytes() or
                                qq.res[ln["rng"]].bufs[1] != it["rmin"].tobytes()):
                raise Fail("range read through SD differs from what %s wrote" % it["w"], program=prog)
            for j, l_ in (ln.get("scale") or {}).items():
                if qq.res[l_].ret != 0 or qq.res[l_].bufs[0] != it["scalev"][j].tobytes():
                    raise Fail("dimension scale read through SD differs from what %s wrote" % it["w"], dimension=j,
                               scaled_dimensions=it["sdims"], ret=qq.res[l_].ret, program=prog)
            refs[id(it)] = qq.res[ln["ref"]].ret
        # ------------------------------------------------------------ datasets through DFSD (sequential)
        # SD also writes an NDG for every coordinate variable, which DFSD presents as a dataset of its own: the
        # DFSD sequence must contain every written dataset, in order, with equal content
        # a float32 dataset written by DFSD carries an SDG/NDG pair joined by a link element; when SD later rewrites
        # the file's metadata the link is dropped and every DFSD call on the file fails (known finding)
        f32_then_sd = False
        seen_f32 = False
        for it in sds:
            if it["w"].startswith("dfsd") and it["nt"] == "float32":
                seen_f32 = True
            if it["w"] == "sd" and seen_f32:
                f32_then_sd = True
        skip_dfsd = False
        if f32_then_sd:
            known_keys.add("C15-sd-rewrite-breaks-dfsd-float32")
            if not case.get("no_exclude"):
                excluded.append("C15-sd-rewrite-breaks-dfsd-float32")
                skip_dfsd = True
        q = Prog()
        lnd = q.call("i", "DFSDndatasets", F)
        q.call("i", "DFSDrestart")
        inv = []
        for i in range(sum(len(it["dims"]) + 1 for it in sds) + 4):      # SD adds one NDG per coordinate variable
            inv.append((q.call("i", "DFSDgetdims", F, Out(4), Out(4 * 8), 8), q.call("i", "DFSDgetNT", Out(4))))
        qq = run(q, cwd=d, timeout=60)
        crash(qq, "DFSD (inventory)", q)
        nd_ = qq.res[lnd].ret
        if skip_dfsd:
            nd_ = len(sds)
            inv = []
        seqd = []
        for l0, l1 in inv[:max(nd_, 0)]:
            if qq.res[l0].ret != 0:
                raise Fail("DFSDgetdims failed before DFSDndatasets datasets were presented", count=nd_, got=len(seqd),
                           program=prog)
            rank = un_i32s(qq.res[l0].bufs[0])[0]
            seqd.append(dict(dims=un_i32s(qq.res[l0].bufs[1])[:rank], nt=un_i32s(qq.res[l1].bufs[0])[0]))
        if nd_ < len(sds):
            raise Fail("DFSD presents fewer datasets than were written", got=nd_, written=len(sds), presented=seqd,
                       writers=[it["w"] for it in sds], program=prog)
        q = Prog()
        rl = []
        for e in seqd:
            n = int(np.prod(e["dims"])) if e["dims"] else 0
            isz = {20: 1, 21: 1, 22: 2, 23: 2, 24: 4, 25: 4, 5: 4, 6: 8, 3: 1, 4: 1}.get(e["nt"] & 0xfff, 8)
            ln = dict(dims=q.call("i", "DFSDgetdims", F, Out(4), Out(4 * 8), 8))
            ln["strs"] = q.call("i", "DFSDgetdatastrs", OutS(300), OutS(300), OutS(300), OutS(300))
            ln["fill"] = q.call("i", "DFSDgetfillvalue", Out(8))
            ln["rng"] = q.call("i", "DFSDgetrange", Out(8), Out(8))
            ln["scale"] = {j: q.call("i", "DFSDgetdimscale", j + 1, e["dims"][j], Out(isz * e["dims"][j]))
                           for j in range(len(e["dims"]))}
            ln["read"] = q.call("i", "DFSDgetdata", F, len(e["dims"]), i32s(*e["dims"]), Out(max(n * isz, 1)))
            rl.append((e, ln, isz))
        qq = run(q, cwd=d, timeout=60)
        crash(qq, "DFSD", q)
        # second pass: a generated window of every dataset through DFSDreadslab / DFSDgetslice (1-based start)
        w_ = case.get("slabw") or [0] * 7
        q2 = Prog()
        for e, ln, isz in rl:
            dm = e["dims"]
            if not dm or min(dm) < 1 or len(dm) > 3:
                continue
            st0 = [w_[j] % dm[j] for j in range(len(dm))]
            cn0 = [1 + w_[j + 3] % (dm[j] - st0[j]) for j in range(len(dm))]
            q2.call("i", "DFSDgetdims", F, Out(4), Out(4 * 8), 8)
            nb_ = max(int(np.prod(cn0)) * isz, 1)
            if w_[6] % 2 == 0:
                l_ = q2.call("i", "DFSDreadslab", F, i32s(*[x + 1 for x in st0]), i32s(*cn0), i32s(*([1] * len(dm))), Out(nb_), i32s(*cn0))
            else:
                l_ = q2.call("i", "DFSDgetslice", F, i32s(*[x + 1 for x in st0]), i32s(*cn0), Out(nb_), i32s(*cn0))
            ln["slab"] = (l_, st0, cn0)
        qq2 = run(q2, cwd=d, timeout=60)
        crash(qq2, "DFSD (slabs)", q2)
        pos = 0
        for it in ([] if skip_dfsd else sds):
            cross("dfsd" if it["w"].startswith("dfsd") else it["w"], "dfsd")
            isz = np.dtype(NTS[it["nt"]][1]).itemsize
            hit = None
            while pos < len(rl):
                e, ln, _isz = rl[pos]
                pos += 1
                if e["dims"] == it["dims"] and (e["nt"] & 0xfff) == NTS[it["nt"]][0] and qq.res[ln["read"]].ret == 0 and \
                        qq.res[ln["read"]].bufs[0] == it["data"].tobytes():
                    hit = (e, ln)
                    break
            if hit is None:
                raise Fail("DFSD does not present a dataset with the dimensions, type and values %s wrote" % it["w"],
                           dims=it["dims"], nt=it["nt"], presented=seqd, program=prog)
            e, ln = hit
            if "slab" in ln:
                l_, st0, cn0 = ln["slab"]
                want = np.asarray(it["data"]).reshape(it["dims"])[tuple(slice(a_, a_ + c_) for a_, c_ in zip(st0, cn0))]
                if qq2.res[l_].ret != 0 or qq2.res[l_].bufs[0] != np.ascontiguousarray(want).tobytes():
                    raise Fail("a window read through DFSDreadslab/DFSDgetslice differs from the values %s wrote" % it["w"],
                               dims=it["dims"], start=st0, count=cn0, ret=qq2.res[l_].ret,
                               call="DFSDreadslab" if w_[6] % 2 == 0 else "DFSDgetslice", program=prog)
                if any(c_ < d_ for c_, d_ in zip(cn0, it["dims"])):
                    labels.add("dfsd_partial_window")
            k = items.index(it)
            later_sd = any(o["w"] == "sd" for o in sds[sds.index(it) + 1:])
            if not it["w"].startswith("dfsd") or later_sd:
                continue        # SD keeps strings/fill/range/scales as attributes and coordinate variables, which the
                                # DFSD calls cannot address (and converts old-style ones when it rewrites the file):
                                # only dimensions, type and values are common ground
            if it["strs"]:
                got = [b.decode("latin-1") for b in qq.res[ln["strs"]].bufs[:3]]
                if qq.res[ln["strs"]].ret != 0 or got != ["lab_%d" % k, "unit_%d" % k, "F%d.2" % k]:
                    raise Fail("label/unit/format read through DFSD differ from what %s wrote" % it["w"], got=got, program=prog)
            if it["fill"] and (qq.res[ln["fill"]].ret != 0 or qq.res[ln["fill"]].bufs[0][:isz] != it["fillv"].tobytes()):
                raise Fail("fill value read through DFSD differs from what %s wrote" % it["w"], program=prog)
            if it["rng"] and (qq.res[ln["rng"]].ret != 0 or qq.res[ln["rng"]].bufs[0][:isz] != it["rmax"].tobytes() or
                              qq.res[ln["rng"]].bufs[1][:isz] != it["rmin"].tobytes()):
                raise Fail("range read through DFSD differs from what %s wrote" % it["w"], program=prog)
            if it["scale"]:
                for j in it["sdims"]:
                    l_ = ln["scale"][j]
                    if qq.res[l_].ret != 0 or qq.res[l_].bufs[0] != it["scalev"][j].tobytes():
                        raise Fail("dimension scale read through DFSD differs from what %s wrote" % it["w"],
                                   dimension=j, scaled_dimensions=it["sdims"], ret=qq.res[l_].ret, program=prog)
        # ------------------------------------------------------------ datasets through the netCDF-style calls
        q = Prog()
        q.call("i", "hx_set_ncopts", 0)        # errors are return values, not fatal
        q.call("i", "H4_ncopen", F, 0, bind="nc")
        nv = sum(len(it["dims"]) + 1 for it in sds) + 4       # old-style datasets bring one coordinate variable per dimension
        vl = []
        for v in range(nv):
            l0 = q.call("i", "H4_ncvarinq", V("nc"), v, OutS(300), Out(4), Out(4), Out(4 * 32), Out(4))
            vl.append(l0)
        qq = run(q, cwd=d, timeout=60)
        crash(qq, "nc (inventory)", q)
        nvars = nv          # this library has no ncinquire: variable ids are probed until ncvarinq fails
        byname = {}
        pos = []
        for v, l0 in enumerate(vl):
            if v < nvars and qq.res[l0].ret != -1:
                nm = qq.res[l0].bufs[0].decode("latin-1")
                nd = un_i32s(qq.res[l0].bufs[2])[0]
                ent = dict(varid=v, name=nm, type=un_i32s(qq.res[l0].bufs[1])[0], ndims=nd,
                           dimids=un_i32s(qq.res[l0].bufs[3])[:nd])
                byname[nm] = ent
                pos.append(ent)
        q = Prog()
        q.call("i", "hx_set_ncopts", 0)
        q.call("i", "H4_ncopen", F, 0, bind="nc")
        rl = []
        data_vars = [e for e in pos if not (e["ndims"] == 1 and e["name"].startswith("fakeDim") is False and False)]
        # datasets appear in creation order among the variables that are not coordinate variables
        cands = [e for e in pos]
        ci = 0
        for it in sds:
            n = int(np.prod(it["dims"]))
            isz = np.dtype(NTS[it["nt"]][1]).itemsize
            if it["w"] in ("sd", "nc"):
                e = byname.get(it["name"])
            else:
                e = None
                while ci < len(cands):
                    c = cands[ci]
                    ci += 1
                    if c["name"].startswith("fakeDim"):
                        continue        # coordinate variable of an unnamed dimension
                    if c["ndims"] == len(it["dims"]) and not any(c is byname.get(o["name"]) for o in sds if o["w"] in ("sd", "nc")):
                        e = c
                        break
            if e is None:
                raise Fail("the netCDF-style interface does not present a dataset written by %s" % it["w"],
                           variables=[c["name"] for c in pos], program=prog)
            ln = dict(e=e, read=q.call("i", "H4_ncvarget", V("nc"), e["varid"], longs(*([0] * len(it["dims"]))),
                                       longs(*it["dims"]), Out(n * isz)))
            ln["dims"] = [q.call("i", "H4_ncdiminq", V("nc"), di, OutS(300), Out(8)) for di in e["dimids"]]
            rl.append((it, ln))
        q.call("i", "H4_ncclose", V("nc"))
        qq = run(q, cwd=d, timeout=60)
        crash(qq, "nc", q)
        for it, ln in rl:
            cross(it["w"] if it["w"] != "dfsd_slab" else "dfsd", "nc")
            e = ln["e"]
            dl = [struct.unpack("=q", qq.res[l].bufs[1])[0] for l in ln["dims"]]
            sz = {1: 1, 2: 1, 3: 2, 4: 4, 5: 4, 6: 8}.get(e["type"])
            if it.get("unlim"):
                dl[0] = it["dims"][0]      # netCDF semantics: one record dimension shared by all record variables
            if dl != it["dims"] or sz != np.dtype(NTS[it["nt"]][1]).itemsize:
                raise Fail("the netCDF-style interface presents other dimensions / type than %s wrote" % it["w"],
                           got=dict(dims=dl, type=e["type"]), written=dict(dims=it["dims"], nt=it["nt"]), program=prog)
            x = qq.res[ln["read"]]
            if x.ret == -1 or x.bufs[0] != it["data"].tobytes():
                raise Fail("values read through the netCDF-style interface differ from what %s wrote" % it["w"],
                           dims=it["dims"], nt=it["nt"], program=prog)
        # ------------------------------------------------------------ V-level view of the datasets
        q = Prog()
        q.call("i", "Hopen", F, 1, 0, bind="f")
        q.call("i", "Vinitialize", V("f"))
        rl = []
        for it in sds:
            if it["w"] not in ("sd", "nc"):
                continue
            n = int(np.prod(it["dims"])) * np.dtype(NTS[it["nt"]][1]).itemsize
            ln = dict(find=q.call("i", "Vfind", V("f"), it["name"], bind="vr"))
            q.call("i", "Vattach", V("f"), V("vr"), "r", bind="g")
            ln["cls"] = q.call("i", "Vgetclass", V("g"), OutS(80))
            ln["n"] = q.call("i", "Vntagrefs", V("g"))
            ln["tr"] = q.call("i", "Vgettagrefs", V("g"), Out(4 * 24), Out(4 * 24), 24)
            q.call("i", "Vdetach", V("g"))
            rl.append((it, ln, n))
        q.call("i", "Vfinish", V("f"))
        q.call("i", "Hclose", V("f"))
        qq = run(q, cwd=d, timeout=60)
        crash(qq, "the Vgroup view", q)
        q2 = Prog()
        q2.call("i", "Hopen", F, 1, 0, bind="f")
        r2 = []
        for it, ln, n in rl:
            if qq.res[ln["find"]].ret <= 0 or qq.res[ln["cls"]].bufs[0] != b"Var0.0":
                raise Fail("the Vgroup view does not show dataset %s as a Var0.0 vgroup" % it["name"], program=prog)
            k = qq.res[ln["n"]].ret
            tags = un_i32s(qq.res[ln["tr"]].bufs[0])[:k]
            rfs = un_i32s(qq.res[ln["tr"]].bufs[1])[:k]
            sdref = [r_ for t, r_ in zip(tags, rfs) if t == 702]
            ndg = [r_ for t, r_ in zip(tags, rfs) if t == 720]
            if len(sdref) != 1 or ndg != [refs[id(it)]]:
                raise Fail("the Vgroup view of dataset %s does not list its data element / NDG" % it["name"],
                           members=list(zip(tags, rfs)), ndg_ref=refs[id(it)], program=prog)
            r2.append((it, q2.call("i", "Hgetelement", V("f"), 702, sdref[0], Out(n + 8)), n))
        q2.call("i", "Hclose", V("f"))
        qq2 = run(q2, cwd=d, timeout=60)
        crash(qq2, "H-level reads of dataset elements", q2)
        for it, l, n in r2:
            cross(it["w"], "vgroup+H")
            be = it["data"].astype(np.dtype(NTS[it["nt"]][1]).newbyteorder(">")).tobytes()
            if qq2.res[l].ret != n or qq2.res[l].bufs[0][:n] != be:
                raise Fail("the data element listed in the Vgroup view of %s does not hold its values" % it["name"],
                           ret=qq2.res[l].ret, want=n, program=prog)
    # ------------------------------------------------------------ rasters
    if ri8 or ri24 or x16:
        # GR view: inventory first (dimensions), then the reads
        nimg = len(ri8) + len(ri24) + len(x16)
        q = Prog()
        q.call("i", "Hopen", F, 1, 0, bind="f")
        q.call("i", "GRstart", V("f"), bind="gr")
        lfi = q.call("i", "GRfileinfo", V("gr"), Out(4), Out(4))
        infos = []
        for i in range(nimg):
            l0 = q.call("i", "GRselect", V("gr"), i, bind="ri")
            l1 = q.call("i", "GRgetiminfo", V("ri"), OutS(300), Out(4), Out(4), Out(4), Out(8), Out(4))
            q.call("i", "GRendaccess", V("ri"))
            infos.append((l0, l1))
        q.call("i", "GRend", V("gr"))
        q.call("i", "Hclose", V("f"))
        qq = run(q, cwd=d, timeout=60)
        crash(qq, "GR (inventory)", q)
        if un_i32s(qq.res[lfi].bufs[0])[0] != nimg:
            raise Fail("GR presents a different number of images than were written", presented=un_i32s(qq.res[lfi].bufs[0])[0],
                       written=nimg, program=prog)
        pres = []
        for i, (l0, l1) in enumerate(infos):
            x = qq.res[l1]
            pres.append(dict(index=i, name=x.bufs[0].decode("latin-1"), ncomp=un_i32s(x.bufs[1])[0], nt=un_i32s(x.bufs[2])[0],
                             il=un_i32s(x.bufs[3])[0], dims=un_i32s(x.bufs[4])))
        # the single-file writers give no names and GR lists new-style images before old raster groups: images
        # are matched by content
        p16 = [p_ for p_ in pres if p_["ncomp"] == 1 and (p_["nt"] & 0xfff) == 22]
        p8 = [p_ for p_ in pres if p_["ncomp"] == 1 and (p_["nt"] & 0xfff) != 22]
        if len(p16) != len(x16) or any([p_["dims"], p_["name"]] != [[it["x"], it["y"]], it["name"]] for p_, it in zip(p16, x16)):
            raise Fail("GR does not present the 16-bit image it wrote", presented=pres, program=prog)
        p24 = [p_ for p_ in pres if p_["ncomp"] == 3]
        if len(p8) != len(ri8) or len(p24) != len(ri24):
            raise Fail("GR presents other component counts than were written", presented=pres, program=prog)
        q = Prog()
        q.call("i", "Hopen", F, 1, 0, bind="f")
        q.call("i", "GRstart", V("f"), bind="gr")
        for pr in pres:
            nc = pr["ncomp"]
            x_, y_ = pr["dims"]
            pr["reads"] = {}
            for il in ([0] if nc == 1 else [0, 1, 2]):
                q.call("i", "GRselect", V("gr"), pr["index"], bind="ri")
                q.call("i", "GRreqimageil", V("ri"), il)
                pr["reads"][il] = q.call("i", "GRreadimage", V("ri"), i32s(0, 0), None, i32s(x_, y_),
                                         Out(max(x_ * y_ * nc, 1) * (2 if (pr["nt"] & 0xfff) == 22 else 1)))
                if il == 0 and nc == 1:
                    q.call("i", "GRgetlutid", V("ri"), 0, bind="lut")
                    pr["lutinfo"] = q.call("i", "GRgetlutinfo", V("lut"), Out(4), Out(4), Out(4), Out(4))
                    pr["lut"] = q.call("i", "GRreadlut", V("lut"), Out(768))
                q.call("i", "GRendaccess", V("ri"))
        q.call("i", "GRend", V("gr"))
        q.call("i", "Hclose", V("f"))
        qq = run(q, cwd=d, timeout=60)
        crash(qq, "GR", q)
        for p_, it in zip(p16, x16):
            labels.add("non8bit_gr_image")
            if qq.res[p_["reads"][0]].ret != 0 or qq.res[p_["reads"][0]].bufs[0] != it["img"].tobytes():
                raise Fail("pixels of the 16-bit image read through GR differ from what GR wrote", program=prog)
        if any(it["kind"] == "edit" for it in items):
            labels.add("gr_edit_in_later_session")
        for group, plist in ((ri8, p8), (ri24, p24)):
            free = list(plist)
            for it in sorted(group, key=lambda it: not (it["kind"] == "ri24" and it["w"] == "df24" and it["il"] != 0)):
                if it["kind"] == "ri24" and it["w"] == "df24" and it["il"] != 0:
                    # GR assumes pixel-interlaced storage: images DF24 stored in line/plane interlace come back
                    # scrambled (known finding C15-df24-interlace-via-gr); excluded unless probing
                    known_keys.add("C15-df24-interlace-via-gr")
                    if not case.get("no_exclude"):
                        excluded.append("C15-df24-interlace-via-gr")
                        cand = [pr for pr in free if pr["dims"] == [it["x"], it["y"]]]
                        cand.sort(key=lambda pr: (pr["il"] != it["il"], (pr["nt"] & 0xfff) != 3))
                        if cand:
                            free.remove(cand[0])
                        continue
                cross(it["w"], "gr")
                want0 = it["img"].tobytes() if it["kind"] == "ri8" else il_bytes(it["img"], 0)
                cand = [pr for pr in free if pr["dims"] == [it["x"], it["y"]] and (pr["nt"] & 0xfff) in (21, 3)]
                hit = [pr for pr in cand if qq.res[pr["reads"][0]].ret == 0 and qq.res[pr["reads"][0]].bufs[0] == want0]
                if not hit:
                    raise Fail("no image presented by GR has the pixels %s wrote" % it["w"], size=[it["x"], it["y"]],
                               written_interlace=it.get("il"), comp=it.get("comp"),
                               presented=[dict(dims=pr["dims"], nt=pr["nt"], il=pr["il"]) for pr in free], program=prog)
                pr = hit[0]
                free.remove(pr)
                for il, l in pr["reads"].items():
                    if il and (qq.res[l].ret != 0 or qq.res[l].bufs[0] != il_bytes(it["img"], il)):
                        raise Fail("pixels read through GR in interlace %d differ from what %s wrote" % (il, it["w"]),
                                   size=[it["x"], it["y"]], written_interlace=it.get("il"), program=prog)
                if it["kind"] == "ri8" and it["pal"]:
                    if qq.res[pr["lut"]].ret != 0 or qq.res[pr["lut"]].bufs[0] != it["palv"]:
                        raise Fail("palette read through GR differs from what %s wrote" % it["w"], program=prog)
        # DFR8 / DF24 / DFP views: sequential interfaces without names; their order need not be creation order when
        # images came from different interfaces, so the sequence is matched by content
        def seq_view(api, group, ncomp):
            q = Prog()
            ln_n = q.call("i", "%snimages" % api, F)
            q.call("i", "%srestart" % api)
            inv = [q.call("i", "%sgetdims" % api, F, Out(4), Out(4), Out(4)) for _ in group]
            qq = run(q, cwd=d, timeout=60)
            crash(qq, api + " (inventory)", q)
            if qq.res[ln_n].ret != len(group):
                raise Fail("%snimages differs from the number of images written" % api, got=qq.res[ln_n].ret,
                           written=len(group), writers=[it["w"] for it in group], program=prog)
            dl = []
            for l in inv:
                x = qq.res[l]
                if x.ret != 0:
                    raise Fail("%sgetdims failed before all images were presented" % api, program=prog)
                dl.append((un_i32s(x.bufs[0])[0], un_i32s(x.bufs[1])[0], un_i32s(x.bufs[2])[0]))
            out = []
            for reqil in ([0] if ncomp == 1 else sorted(set([0, case["reqil"]]))):
                q = Prog()
                rl = []
                for (x_, y_, third) in dl:
                    q.call("i", "%sgetdims" % api, F, Out(4), Out(4), Out(4))
                    if ncomp == 3:
                        q.call("i", "DF24reqil", reqil)
                        rl.append(q.call("i", "DF24getimage", F, Out(max(x_ * y_ * 3, 1)), x_, y_))
                    else:
                        rl.append(q.call("i", "DFR8getimage", F, Out(max(x_ * y_, 1)), x_, y_, Out(768)))
                qq = run(q, cwd=d, timeout=60)
                crash(qq, api, q)
                out.append((reqil, [(dl[i], qq.res[l]) for i, l in enumerate(rl)]))
            if ncomp == 1 and dl:
                # the caller's buffer may be wider than the image: rows are then spread to the buffer's width
                wq = Prog()
                wl_ = []
                for (x_, y_, third) in dl:
                    wx = x_ + 1 + (case.get("slabw") or [0])[0] % max(x_, 1)
                    wq.call("i", "%sgetdims" % api, F, Out(4), Out(4), Out(4))
                    wl_.append((wq.call("i", "DFR8getimage", F, Out(max(wx * y_, 1)), wx, y_, Out(768)), wx))
                wqq = run(wq, cwd=d, timeout=60)
                crash(wqq, api + " (wide buffer)", wq)
                for (x_, y_, third), (l, wx), (_d, exact) in zip(dl, wl_, out[0][1]):
                    if exact.ret != 0:
                        continue
                    r_ = wqq.res[l]
                    rows = [r_.bufs[0][j * wx:j * wx + x_] for j in range(y_)] if r_.ret == 0 else None
                    if rows is None or b"".join(rows) != exact.bufs[0][:x_ * y_]:
                        raise Fail("DFR8getimage into a buffer wider than the image returns other pixels than into an exact one",
                                   image=[x_, y_], buffer_width=wx, ret=r_.ret, program=prog)
                    labels.add("dfr8_wide_buffer")
            return out

        if ri8:
            (_r, seq), = seq_view("DFR8", ri8, 1)
            free = list(seq)
            for it in ri8:
                cross(it["w"], "dfr8")
                hit = [e for e in free if e[0][:2] == (it["x"], it["y"]) and e[1].ret == 0 and e[1].bufs[0] == it["img"].tobytes()]
                if not hit:
                    raise Fail("no image presented by DFR8 has the size and pixels %s wrote" % it["w"], size=[it["x"], it["y"]],
                               comp=it["comp"], presented=[e[0] for e in free], program=prog)
                free.remove(hit[0])
                if it["pal"] and (not hit[0][0][2] or hit[0][1].bufs[1] != it["palv"]):
                    raise Fail("palette read through DFR8 differs from what %s wrote" % it["w"], ispal=hit[0][0][2], program=prog)
        if ri24:
            for reqil, seq in seq_view("DF24", ri24, 3):
                free = list(seq)
                for it in ri24:
                    cross(it["w"], "df24")
                    hit = [e for e in free if e[0][:2] == (it["x"], it["y"]) and e[1].ret == 0 and
                           e[1].bufs[0] == il_bytes(it["img"], reqil)]
                    if not hit:
                        raise Fail("no image presented by DF24 (requested interlace %d) has the size and pixels %s wrote "
                                   "in interlace %d" % (reqil, it["w"], it["il"]), size=[it["x"], it["y"]],
                                   presented=[e[0] for e in free], program=prog)
                    free.remove(hit[0])
                    if it["w"] == "df24" and hit[0][0][2] != it["il"]:
                        raise Fail("DF24 reports another storage interlace than DF24 wrote", got=hit[0][0][2], written=it["il"],
                                   program=prog)
        pals = [it for it in ri8 if it["pal"]]
        if pals and len(set(it["w"] for it in pals)) > 1:
            # DFPgetpal walks 8-bit palettes (IP8) first and then continues forward from there for LUTs: a LUT that
            # GR stored before the first IP8 is counted by DFPnpals but never returned (known finding)
            known_keys.add("C15-dfp-sequence-skips-earlier-lut")
            if not case.get("no_exclude"):
                excluded.append("C15-dfp-sequence-skips-earlier-lut")
                pals = []
        if pals:
            q = Prog()
            ln_n = q.call("i", "DFPnpals", F)
            q.call("i", "DFPrestart")
            rl = [q.call("i", "DFPgetpal", F, Out(768)) for _ in pals]
            qq = run(q, cwd=d, timeout=60)
            crash(qq, "DFP", q)
            if qq.res[ln_n].ret != len(pals):
                raise Fail("DFPnpals differs from the number of palettes written", got=qq.res[ln_n].ret, written=len(pals),
                           writers=[it["w"] for it in pals], program=prog)
            got = sorted(qq.res[l].bufs[0] for l in rl)
            for it in pals:
                cross(it["w"], "dfp")
            if any(qq.res[l].ret != 0 for l in rl) or got != sorted(it["palv"] for it in pals):
                raise Fail("palettes read through DFP differ from what was written", writers=[it["w"] for it in pals],
                           program=prog)
    # ------------------------------------------------------------ file annotations
    if anns:
        labs = [it for it in anns if it["what"] == "label"]
        descs = [it for it in anns if it["what"] == "desc"]
        q = Prog()
        q.call("i", "Hopen", F, 1, 0, bind="f")
        q.call("i", "ANstart", V("f"), bind="an")
        lfi = q.call("i", "ANfileinfo", V("an"), Out(4), Out(4), Out(4), Out(4))
        rl = []
        for ty, lst in ((2, labs), (3, descs)):
            for i, it in enumerate(lst):
                q.call("i", "ANselect", V("an"), i, ty, bind="ann")
                n = max(len(a_["text"]) for a_ in anns) + 2       # index order is not creation order
                rl.append((it, q.call("i", "ANannlen", V("ann")), q.call("i", "ANreadann", V("ann"), Out(n), n)))
                q.call("i", "ANendaccess", V("ann"))
        q.call("i", "ANend", V("an"))
        q.call("i", "Hclose", V("f"))
        qq = run(q, cwd=d, timeout=60)
        crash(qq, "AN", q)
        nl, ndsc = un_i32s(qq.res[lfi].bufs[0])[0], un_i32s(qq.res[lfi].bufs[1])[0]
        if (nl, ndsc) != (len(labs), len(descs)):
            raise Fail("AN presents a different number of file annotations than were written", got=(nl, ndsc),
                       written=(len(labs), len(descs)), program=prog)
        got_an = sorted((it["what"], qq.res[l2].bufs[0][:qq.res[l1].ret]) for it, l1, l2 in rl)
        want = sorted((it["what"], it["text"].encode()) for it in anns)
        for it, l1, l2 in rl:
            cross(it["w"], "an")
        if got_an != want:
            raise Fail("file annotations read through AN differ from what was written", got=[(a, b[:30]) for a, b in got_an],
                       writers=[it["w"] for it in anns], program=prog)
        q = Prog()
        q.call("i", "Hopen", F, 1, 0, bind="f")
        rl = []
        for i, it in enumerate(labs):
            rl.append((it, q.call("i", "DFANgetfidlen", V("f"), 1 if i == 0 else 0),
                       q.call("i", "DFANgetfid", V("f"), Out(200), 200, 1 if i == 0 else 0)))
        for i, it in enumerate(descs):
            rl.append((it, q.call("i", "DFANgetfdslen", V("f"), 1 if i == 0 else 0),
                       q.call("i", "DFANgetfds", V("f"), Out(400), 400, 1 if i == 0 else 0)))
        q.call("i", "Hclose", V("f"))
        qq = run(q, cwd=d, timeout=60)
        crash(qq, "DFAN", q)
        got = sorted((it["what"], qq.res[l2].bufs[0][:max(qq.res[l1].ret, 0)]) for it, l1, l2 in rl)
        for it, l1, l2 in rl:
            cross(it["w"], "dfan")
        if got != want:
            raise Fail("file annotations read through DFAN differ from what was written", got=[(a, b[:30]) for a, b in got],
                       lens=[qq.res[l1].ret for _i, l1, _l in rl], writers=[it["w"] for it in anns], program=prog)
    labels.add("files_checked")


def known_match(case, failure, entry):
    if not case.get("no_exclude") or entry["key"] not in failure.get("known_keys", []):
        return False
    if entry["key"] == "C15-dfsd-append-invisible-to-sd":
        return failure.get("kind", "") in ("SD presents a different number of datasets than were written",
                                           "the netCDF-style interface does not present a dataset written by dfsd",
                                           "the netCDF-style interface does not present a dataset written by dfsd_slab")
    if entry["key"] == "C15-sd-rewrite-breaks-dfsd-float32":
        return "DFSD" in failure.get("kind", "")
    if entry["key"] == "C15-dfp-sequence-skips-earlier-lut":
        return failure.get("kind", "") == "palettes read through DFP differ from what was written"
    if entry["key"] == "C15-unlimited-stale-dims-for-dfsd":
        return failure.get("kind", "").startswith("a dataset DFSD presents in a checked-in file")
    if entry["key"] == "C15-df24-interlace-via-gr":
        return ("presented by GR" in failure.get("kind", "") or failure.get("kind", "").startswith("pixels read through GR")) \
            and failure.get("written_interlace") in (1, 2)
    return False


def extra(tier, seed, ctx):
    """Every checked-in HDF file of the repository, read through the old and the new interfaces."""
    from h4verif.runner import write_replay, case_hash
    viol, n, nth, samples = [], 0, set(), []
    for rel in legacy_files():
        case = {"legacy": rel}
        res = run_case(case)
        n += 1
        if nontrivial(res.labels):
            nth.add(case_hash(case))
            if len(samples) < 3:
                samples.append(dict(legacy=rel, labels=sorted(res.labels)))
        if res.failure is not None:
            viol.append((write_replay(PROPERTY, case, res.failure), res.failure))
    return dict(violations=viol, evaluations=n, nt_hashes=sorted(nth), legacy_files=n, samples=samples)
