"""C03 — SDS hyperslab reads and writes behave as an n-dimensional array."""
import os, struct
import numpy as np
from hypothesis import strategies as st
from h4verif.exe import Prog, V, Out, OutS, InOut, run, CaseDir, i32s, un_i32s
from h4verif.runner import CaseResult
from h4verif import sdmodel as sm

PROPERTY = "C03"
LEVEL = "exploration"
NEED = ("h4x",)
RULE = ("1-2 datasets per file: rank 1..4 (spot ranks up to 32 with extents 1-2), extents 1..7, first dimension "
        "unlimited in ~30%, all 10 number types x {standard, little-endian, native}, fill mode on/off, optional user "
        "fill value, optional SDsetblocksize; histories of SDwritedata/SDreaddata with start/stride/count drawn "
        "around the legal box (inside, touching the edge, one past, negative, stride crossing the extent), "
        "SDgetinfo, SDgetfillvalue, SDendaccess+SDselect, SDend+SDstart; numpy model with value/fill/unknown "
        "cells, frame rule after refused requests. Non-trivial = rank>=2 with non-unit stride or off-origin partial "
        "slab, growth along unlimited with skipped records, an out-of-range request, or reopen between write and read.")
BUDGET = {"quick": {"shards": 8, "cases": 350}, "thorough": {"shards": 16, "cases": 4000}}
MIN_NT = {"quick": 700, "thorough": 10000}
ASSUMPTIONS = ["rank 0 datasets are not generated (SDreaddata with a stride on rank 0 dereferences a NULL shape: "
               "implicit precondition)", "one SD file per case, netCDF-classic files out of scope"]
NT_LABELS = {"strided_nd", "partial_nd", "grow_skip", "out_of_range", "reopen_read"}


def nontrivial(labels):
    return bool(NT_LABELS & set(labels))


class Fail(Exception):
    def __init__(self, kind, **kw):
        self.info = dict(kind=kind, **kw)


@st.composite
def strategy_(draw, tier):
    nds = draw(st.integers(1, 2))
    decls = []
    for _ in range(nds):
        if draw(st.integers(0, 39)) == 0:
            # spot-check high ranks
            rank = draw(st.sampled_from([5, 8, 16, 31, 32]))
            d = {"rank": rank, "dims": [draw(st.integers(1, 2)) for _ in range(rank)],
                 "nt": draw(st.sampled_from(sorted(sm.NT))), "flavour": draw(st.sampled_from(["std", "little", "native"])),
                 "fillmode": None, "user_fill": None}
        else:
            d = draw(sm.dataset_decl())
            d["fillmode"] = None     # fill mode is a file-level setting (see case["fillmode"])
        d["blocksize"] = draw(st.sampled_from([None, None, 1, 2, 8, 64, 4096])) if d["dims"][0] == 0 else None
        decls.append(d)
    fillmode = draw(st.sampled_from([sm.SD_FILL, sm.SD_FILL, sm.SD_NOFILL]))
    models = [sm.ArrayModel(d["nt"], d["dims"], True, d["user_fill"]) for d in decls]
    # shapes tracked approximately for generation (unlimited growth)
    cur = [list(m.cur_shape()) for m in models]
    ops = []
    for _ in range(draw(st.integers(2, 16))):
        k = draw(st.integers(0, nds - 1))
        c = draw(st.integers(0, 99))
        shape = [max(x, 1) for x in cur[k]]
        unl = decls[k]["dims"][0] == 0
        if c < 40:
            s, sd, cn = sm.draw_slab(draw, shape, unl)
            ops.append(["write", k, s, sd, cn, draw(st.integers(0, 99))])
            if unl and s[0] >= 0 and cn[0] > 0:
                last = s[0] + (cn[0] - 1) * (sd[0] if sd else 1)
                if 0 <= last < 40:
                    ok = all(0 <= s[i] and s[i] + (cn[i] - 1) * (sd[i] if sd else 1) < shape[i]
                             for i in range(1, len(shape)))
                    if ok:
                        cur[k][0] = max(cur[k][0], last + 1)
        elif c < 80:
            s, sd, cn = sm.draw_slab(draw, shape, False)
            ops.append(["read", k, s, sd, cn])
        elif c < 85:
            ops.append(["info", k])
        elif c < 88:
            ops.append(["getfill", k])
        elif c < 91:
            ops.append(["reselect", k])
        elif c < 93:
            ops.append(["fillmode", draw(st.sampled_from([sm.SD_FILL, sm.SD_NOFILL]))])
        elif c < 96:
            # a fresh read-write session that switches the fill mode off and on again before anything else
            # changes, then writes (fill values must be produced again)
            ops.append(["reopen", "rw"])
            ops.append(["fillmode", sm.SD_NOFILL])
            ops.append(["fillmode", sm.SD_FILL])
            s, sd, cn = sm.draw_slab(draw, shape, unl)
            ops.append(["write", k, s, sd, cn, draw(st.integers(0, 99))])
            if unl and s[0] >= 0 and cn[0] > 0:
                last = s[0] + (cn[0] - 1) * (sd[0] if sd else 1)
                if 0 <= last < 40 and all(0 <= s[i] and s[i] + (cn[i] - 1) * (sd[i] if sd else 1) < shape[i]
                                          for i in range(1, len(shape))):
                    cur[k][0] = max(cur[k][0], last + 1)
        else:
            ops.append(["reopen", draw(st.sampled_from(["rw", "ro"]))])
    # final full read of everything after a reopen
    ops.append(["reopen", "ro"])
    return {"decls": decls, "fillmode": fillmode, "ops": ops}


def strategy(tier):
    return strategy_(tier)


def pack_fill(nt, v):
    return np.array([v]).astype(sm.NT[nt][1]).tobytes()


def run_case(case):
    labels = set()
    decls = case["decls"]
    with CaseDir() as d:
        path = os.path.join(d, "s.hdf")
        p = Prog()
        checks = []     # (lineno, kind, payload)
        p.call("i", "SDstart", path, 4 | 2 | 1, bind="sd")
        models = []
        fill_on = case["fillmode"] == sm.SD_FILL
        ln = p.call("i", "SDsetfillmode", V("sd"), case["fillmode"])
        checks.append((ln, "nofail", "SDsetfillmode"))
        for k, dc in enumerate(decls):
            ln = p.call("i", "SDcreate", V("sd"), "ds%d" % k, sm.nt_code(dc["nt"], dc["flavour"]), dc["rank"],
                        i32s(*dc["dims"]), bind="s%d" % k)
            checks.append((ln, "nofail", "SDcreate"))
            if dc["user_fill"] is not None:
                ln = p.call("i", "SDsetfillvalue", V("s%d" % k), pack_fill(dc["nt"], dc["user_fill"]))
                checks.append((ln, "ret0", "SDsetfillvalue"))
            if dc.get("blocksize"):
                ln = p.call("i", "SDsetblocksize", V("s%d" % k), dc["blocksize"])
                checks.append((ln, "ret0", "SDsetblocksize"))
            models.append(sm.ArrayModel(dc["nt"], dc["dims"], fill_on, dc["user_fill"]))
        readonly = False
        excluded = []
        had_read_before_write = [False] * len(decls)
        full_alloc = [False] * len(decls)
        reopened = False
        known_tag = {}
        wrote_since_reopen = [False] * len(decls)
        ever_written_before_reopen = [False] * len(decls)
        for op in case["ops"]:
            kind = op[0]
            if kind == "write":
                _, k, s, sd, cn, seed = op
                if readonly:
                    continue
                m = models[k]
                cls = m.classify(s, sd, cn)
                n = 1
                for c in cn:
                    n *= max(c, 0)
                if n <= 0 or n > 200000:
                    continue
                if not fill_on and cls != "bad":
                    # known findings in no-fill mode, excluded by construction (see known_findings.json)
                    # known finding: a read before the first write leaves the data element without its full
                    # length; unless a fill-mode write has allocated it since, no-fill writes may be refused
                    # (repaired: ea7858c and the follow-up fix; these histories are generated again)
                    if (had_read_before_write[k] or reopened) and not full_alloc[k]:
                        labels.add("nofill_first_write_late")

                    if m.unlimited and cls == "grow":
                        whole = all(s[i] == 0 and cn[i] == m.cur_shape()[i] and (not sd or sd[i] == 1)
                                    for i in range(1, m.rank)) and s[0] <= m.cur_shape()[0] and \
                            (not sd or sd[0] == 1)
                        if not whole:
                            if not case.get("no_exclude"):
                                excluded.append("C03-nofill-partial-record")
                                continue
                            known_tag[k] = "C03-nofill-partial-record"

                vals = sm.gen_values(m.nt, seed, n)
                ln = p.call("i", "SDwritedata", V("s%d" % k), i32s(*s), i32s(*sd) if sd else None, i32s(*cn),
                            vals.tobytes())
                if cls == "bad" and m.unlimited and s[0] >= 0 and cn[0] > 0 and \
                        s[0] + (cn[0] - 1) * (sd[0] if sd else 1) >= m.cur_shape()[0]:
                    # an out-of-range request that would also add records: whether the record count may
                    # change is not defined by the property; not generated
                    p.lines.pop(); p.notes.pop()
                    continue
                if cls == "bad":
                    checks.append((ln, "mustfail", "SDwritedata out of range %s/%s/%s" % (s, sd, cn)))
                    m.taint(s, sd, cn)
                    labels.add("out_of_range")
                else:
                    if cls == "grow":
                        old = m.cur_shape()[0]
                        if s[0] > old:
                            labels.add("grow_skip")
                        labels.add("grow")
                    m.write(s, sd, cn, vals)
                    full_alloc[k] = True     # (no-fill writes that would not allocate fully were excluded above)
                    checks.append((ln, "ret0", "SDwritedata %s/%s/%s" % (s, sd, cn)))
                    wrote_since_reopen[k] = True
                    if m.rank >= 2:
                        if sd and any(x > 1 for x in sd):
                            labels.add("strided_nd")
                        if any(x > 0 for x in s) and any(cn[i] < m.cur_shape()[i] for i in range(m.rank)):
                            labels.add("partial_nd")
            elif kind == "read":
                _, k, s, sd, cn = op
                m = models[k]
                n = 1
                for c in cn:
                    n *= max(c, 0)
                if n <= 0 or n > 200000:
                    continue
                cls = m.classify(s, sd, cn)
                if not m.written and not readonly:
                    had_read_before_write[k] = True
                size = n * np.dtype(m.dt).itemsize
                ln = p.call("i", "SDreaddata", V("s%d" % k), i32s(*s), i32s(*sd) if sd else None, i32s(*cn),
                            Out(size))
                if cls != "ok":
                    checks.append((ln, "mustfail", "SDreaddata out of range %s/%s/%s shape %s" % (s, sd, cn,
                                                                                                 m.cur_shape())))
                    labels.add("out_of_range")
                else:
                    ev, es = m.expect(s, sd, cn)
                    checks.append((ln, "read", (k, ev.copy(), es.copy(), "%s/%s/%s" % (s, sd, cn))))
                    if ever_written_before_reopen[k]:
                        labels.add("reopen_read")
            elif kind == "info":
                k = op[1]
                m = models[k]
                ln = p.call("i", "SDgetinfo", V("s%d" % k), OutS(300), Out(4), Out(4 * 32), Out(4), Out(4))
                checks.append((ln, "info", (k, m.rank, m.cur_shape(), sm.nt_code(m.nt, decls[k]["flavour"]))))
            elif kind == "getfill":
                k = op[1]
                m = models[k]
                ln = p.call("i", "SDgetfillvalue", V("s%d" % k), Out(np.dtype(m.dt).itemsize))
                checks.append((ln, "getfill", (k, decls[k]["user_fill"])))
            elif kind == "fillmode":
                if readonly:
                    continue
                ln = p.call("i", "SDsetfillmode", V("sd"), op[1])
                checks.append((ln, "nofail", "SDsetfillmode"))
                fill_on = op[1] == sm.SD_FILL
                for m in models:
                    m.fill_on = fill_on
            elif kind == "reselect":
                k = op[1]
                ln = p.call("i", "SDendaccess", V("s%d" % k))
                checks.append((ln, "ret0", "SDendaccess"))
                ln = p.call("i", "SDselect", V("sd"), k, bind="s%d" % k)
                checks.append((ln, "nofail", "SDselect"))
            elif kind == "reopen":
                for k in range(len(decls)):
                    checks.append((p.call("i", "SDendaccess", V("s%d" % k)), "ret0", "SDendaccess"))
                checks.append((p.call("i", "SDend", V("sd")), "ret0", "SDend"))
                fill_on = True      # the fill mode is not persistent: a fresh SDstart is in fill mode
                for m in models:
                    m.fill_on = True
                readonly = op[1] == "ro"
                checks.append((p.call("i", "SDstart", path, 1 if readonly else 3, bind="sd"), "nofail", "SDstart"))
                for k in range(len(decls)):
                    checks.append((p.call("i", "SDselect", V("sd"), k, bind="s%d" % k), "nofail", "SDselect"))
                    if wrote_since_reopen[k] or ever_written_before_reopen[k]:
                        ever_written_before_reopen[k] = True
                    wrote_since_reopen[k] = False
                labels.add("reopen")
                reopened = True
        # final: read every dataset completely
        for k, m in enumerate(models):
            shape = m.cur_shape()
            if all(x > 0 for x in shape):
                n = int(np.prod(shape))
                ln = p.call("i", "SDreaddata", V("s%d" % k), i32s(*([0] * m.rank)), None, i32s(*shape),
                            Out(n * np.dtype(m.dt).itemsize))
                ev, es = m.expect([0] * m.rank, None, shape)
                checks.append((ln, "read", (k, ev, es, "final full read")))
            ln = p.call("i", "SDgetinfo", V("s%d" % k), OutS(300), Out(4), Out(4 * 32), Out(4), Out(4))
            checks.append((ln, "info", (k, m.rank, m.cur_shape(), sm.nt_code(m.nt, decls[k]["flavour"]))))
        for k in range(len(decls)):
            p.call("i", "SDendaccess", V("s%d" % k))
        lend = p.call("i", "SDend", V("sd"))
        checks.append((lend, "ret0", "SDend"))
        rr = run(p, cwd=d)
        tagged = dict(known_tag)
        try:
            if rr.harness_error:
                raise Fail("harness error", detail=rr.harness_error)
            for ln, kind, pay in checks:
                r = rr.res.get(ln)
                if r is None:
                    raise Fail("crash" if rr.crashed else "no result", detail=rr.sanitizer_summary(),
                               frames=rr.crash_frames(), line=ln, call=p.lines[ln - 1][:120],
                               text=rr.stderr[-1500:] if rr.crashed else "")
                if kind == "nofail":
                    if r.ret == -1:
                        raise Fail("%s failed" % pay)
                elif kind == "ret0":
                    if r.ret != 0:
                        raise Fail("%s failed" % pay, ret=r.ret)
                elif kind == "mustfail":
                    if r.ret != -1:
                        raise Fail("request outside the extent was accepted", call=pay, ret=r.ret)
                elif kind == "read":
                    k, ev, es, what = pay
                    if r.ret != 0:
                        if (es == 3).any():
                            labels.add("soft_read_fail")
                            continue    # never-written cells in no-fill mode may be unreadable
                        raise Fail("SDreaddata failed", what=what, dataset=decls[k])
                    got = np.frombuffer(r.bufs[0], dtype=ev.dtype)
                    # bitwise comparison (NaN-safe); unknown cells are skipped
                    gb = got.view(np.uint8).reshape(len(got), -1)
                    eb = ev.view(np.uint8).reshape(len(ev), -1)
                    bad = np.nonzero((es != 3) & (gb != eb).any(axis=1))[0]
                    if len(bad):
                        i = int(bad[0])
                        raise Fail("SDreaddata value differs from array model", what=what, cell=i,
                                   expected=str(ev[i]), observed=str(got[i]),
                                   cell_state={1: "written", 2: "fill"}[int(es[i])], dataset=decls[k],
                                   nbad=int(len(bad)))
                elif kind == "info":
                    k, rank, shape, ntc = pay
                    if r.ret != 0:
                        raise Fail("SDgetinfo failed")
                    grank = struct.unpack("=i", r.bufs[1])[0]
                    gdims = un_i32s(r.bufs[2])[:rank]
                    gnt = struct.unpack("=i", r.bufs[3])[0]
                    if grank != rank or (gnt & 0xff) != (ntc & 0xff):
                        raise Fail("SDgetinfo rank/type differs", expected=[rank, ntc], observed=[grank, gnt])
                    if gdims != shape:
                        raise Fail("SDgetinfo dimensions differ", expected=shape, observed=gdims)
                elif kind == "getfill":
                    k, uf = pay
                    if uf is None:
                        if r.ret not in (0, -1):
                            raise Fail("SDgetfillvalue odd return", ret=r.ret)
                    else:
                        if r.ret != 0 or r.bufs[0] != pack_fill(decls[k]["nt"], uf):
                            raise Fail("SDgetfillvalue differs", expected=uf, observed=r.bufs[0].hex())
            if not rr.done:
                raise Fail("crash", detail=rr.sanitizer_summary(), frames=rr.crash_frames(),
                           text=rr.stderr[-1500:])
        except Fail as f:
            info = f.info
            if tagged:
                info["known_keys"] = sorted(set(tagged.values()))
            info["program"] = p.text()[:5000]
            return CaseResult(labels=labels, failure=info, sample=sample_of(case), excluded=excluded)
    return CaseResult(labels=labels, sample=sample_of(case), excluded=excluded)


def sample_of(case):
    return {"decls": case["decls"], "ops": [str(o) for o in case["ops"][:20]]}


def known_match(case, failure, entry):
    # only directed probes (no_exclude) can carry these tags; generated cases exclude the triggers by construction
    return bool(case.get("no_exclude")) and entry["key"] in failure.get("known_keys", [])


RULE += (" " + 'Histories also contain a fresh read-write session that switches the fill mode off and on again before its first write.')
