"""C02 — every file written is a well-formed, independently readable HDF4 file; raw-location queries are exact."""
import os, struct
import numpy as np
from hypothesis import strategies as st
from h4verif.exe import Prog, V, Out, OutS, run, CaseDir, i32s, un_i32s
from h4verif.runner import CaseResult
from h4verif import h4fmt, h4read

PROPERTY = "C02"
LEVEL = "exploration"
NEED = ("h4x",)
RULE = ("files built over 1..3 sessions from a generated mix of SD datasets (contiguous, chunked, chunked+deflate/"
        "RLE, deflate, RLE, external, unlimited), Vdatas written in several appends (linked blocks), Vgroups, raster "
        "images (contiguous/chunked/compressed, palettes), annotations, attributes and H-level elements (plain, "
        "linked, external, compressed), for several DD-block sizes and cache modes. After the last close: (1) an "
        "independent reader written from the format specification walks the descriptor chain, every special "
        "element, chunk table, Vdata header and Vgroup record and must find no inconsistency; (2) the logical "
        "content it recovers (datasets via NDG/SDD/NT, vdatas via VH/VS, images via RI0.0 groups, annotations) must "
        "equal both what the library's read calls return in a fresh process and what was written; (3) every "
        "raw-location query (SDgetdatainfo per dataset/chunk, VSgetdatainfo, GRgetdatainfo, HDgetdatainfo, "
        "attribute and annotation variants) is issued with generated start_block/info_count and exactly sized "
        "arrays: the count returned and every (offset, length) must equal the independent reader's block list, and "
        "nothing may be written past info_count entries. Non-trivial = a file with >=2 interface kinds, >=1 special "
        "element and >=1 raw-location query answered with >=1 block.")
BUDGET = {"quick": {"shards": 8, "cases": 500}, "thorough": {"shards": 16, "cases": 6000}}
MIN_NT = {"quick": 1500, "thorough": 30000}
ASSUMPTIONS = ["standard (big-endian) number types; n-bit, skipping-Huffman, szip and JPEG streams are checked "
               "structurally only (no independent decoder)",
               "compressed non-chunked datasets/images are written whole in one call",
               "sequential sessions; each file is closed before it is examined"]

NTS = {"int8": (20, "i1"), "uint8": (21, "u1"), "int16": (22, ">i2"), "uint16": (23, ">u2"), "int32": (24, ">i4"),
       "uint32": (25, ">u4"),
       "float32": (5, ">f4"), "float64": (6, ">f8")}
SD_LAYOUTS = ["contig", "contig", "chunk", "chunk_deflate", "chunk_rle", "deflate", "rle", "ext", "unlim", "unlim"]
GR_LAYOUTS = ["contig", "contig", "chunk", "deflate", "rle"]
H_KINDS = ["plain", "linked", "linked", "ext", "comp_rle", "comp_deflate", "comp_none"]


class Fail(Exception):
    def __init__(self, kind, **info):
        self.info = dict(kind=kind, **info)


def nontrivial(labels):
    return "multi_interface" in labels and "special" in labels and "datainfo_blocks" in labels


def vals(nt, n, salt):
    dt = np.dtype(NTS[nt][1])
    rng = np.random.RandomState((salt * 7919 + n) % (2 ** 31))
    if dt.kind == "f":
        a = (rng.randint(-1000, 1000, size=n) / 8.0).astype(dt.newbyteorder("="))
    else:
        info = np.iinfo(dt)
        a = rng.randint(max(info.min, -30000), min(info.max, 30000) + 1, size=n).astype(dt.newbyteorder("="))
        # a quarter of the values from the ends of the type's range (sign bit set, all ones, ...)
        ext = np.array([info.min, info.max, info.max // 2 + 1, info.max - 1], dtype=np.int64)
        pick = rng.randint(0, 4, size=n)
        use = rng.randint(0, 4, size=n) == 0
        a[use] = ext[pick[use]].astype(a.dtype)
    if salt % 3 == 0 and n > 6:
        a[n // 3: 2 * n // 3] = a[n // 3]          # a run, so that RLE/deflate have something to do
    return a


def be(a, nt):
    return a.astype(np.dtype(NTS[nt][1])).tobytes()


def native(a):
    return a.astype(a.dtype.newbyteorder("=")).tobytes()


# ====================================================================== generator
@st.composite
def sds_st(draw, i, nsess):
    nt = draw(st.sampled_from(sorted(NTS)))
    rank = draw(st.integers(1, 3))
    dims = [draw(st.integers(1, 7)) for _ in range(rank)]
    layout = draw(st.sampled_from(SD_LAYOUTS))
    o = dict(kind="sds", name="sds%d" % i, nt=nt, dims=dims, layout=layout, sess=draw(st.integers(0, nsess - 1)),
             attr=draw(st.booleans()), dimname=draw(st.booleans()), dimscale=draw(st.booleans()),
             dimattr=draw(st.booleans()))
    if layout.startswith("chunk"):
        o["chunk"] = [draw(st.integers(1, d)) for d in dims]
    # row ranges along dimension 0, each written in some session >= the creating one
    rows = dims[0]
    if layout in ("deflate", "rle"):
        o["parts"] = [[0, rows, o["sess"]]]
    else:
        cuts = sorted(set(draw(st.lists(st.integers(1, max(1, rows - 1)), max_size=3)))) if rows > 1 else []
        edges = [0] + [c for c in cuts if 0 < c < rows] + [rows]
        parts = []
        s = o["sess"]
        for a, b in zip(edges[:-1], edges[1:]):
            if layout not in ("unlim", "ext") and draw(st.integers(0, 9)) == 0:
                continue        # leave a hole (reads as fill); external files hold no fill for unwritten parts
            s = draw(st.integers(s, nsess - 1))
            parts.append([a, b, s])
        if layout != "unlim" and draw(st.booleans()):
            parts = list(reversed(parts)) if all(p[2] == parts[0][2] for p in parts) else parts
        o["parts"] = parts
    return o


@st.composite
def vd_st(draw, i, nsess):
    nf = draw(st.integers(1, 3))
    fields = [["f%d" % k, draw(st.sampled_from(sorted(NTS))), draw(st.integers(1, 3))] for k in range(nf)]
    s = draw(st.integers(0, nsess - 1))
    writes = []
    for _ in range(draw(st.integers(1, 4))):
        s = draw(st.integers(s, nsess - 1))
        writes.append([draw(st.integers(1, 12)), s])
    # NO_INTERLACE storage (field after field) only supports writing all records with one call
    il = draw(st.sampled_from([0, 0, 1])) if len(writes) == 1 else 0
    return dict(kind="vd", name="vd%d" % i, fields=fields, writes=writes, sess=writes[0][1],
                blocksize=draw(st.sampled_from([0, 0, 16, 64, 500])), attr=draw(st.booleans()),
                cls=draw(st.sampled_from(["", "klass"])), il=il)


def vd_rows(o, stored, nrec):
    """record-major bytes of a vdata stored field after field (NO_INTERLACE)"""
    sizes = [np.dtype(NTS[nt][1]).itemsize * order for _f, nt, order in o["fields"]]
    if len(stored) != sum(sizes) * nrec:
        return stored
    offs = [sum(sizes[:k]) * nrec for k in range(len(sizes))]
    return b"".join(stored[offs[k] + r_ * sizes[k]:offs[k] + (r_ + 1) * sizes[k]]
                    for r_ in range(nrec) for k in range(len(sizes)))


@st.composite
def gr_st(draw, i, nsess):
    return dict(kind="gr", name="img%d" % i, nt=draw(st.sampled_from(["uint8", "uint8", "int16", "uint16", "float32"])),
                ncomp=draw(st.sampled_from([1, 1, 3])), xdim=draw(st.integers(1, 8)), ydim=draw(st.integers(1, 8)),
                layout=draw(st.sampled_from(GR_LAYOUTS)), sess=draw(st.integers(0, nsess - 1)),
                pal=draw(st.booleans()), attr=draw(st.booleans()),
                attr2=draw(st.sampled_from([None, None, "lint32", "nint32", "luint16", "int32"])))


@st.composite
def h_st(draw, i, nsess):
    kind = draw(st.sampled_from(H_KINDS))
    s = draw(st.integers(0, nsess - 1))
    chunks = []
    for _ in range(draw(st.integers(1, 4) if kind in ("plain", "linked", "ext") else st.just(1))):
        s = draw(st.integers(s, nsess - 1))
        chunks.append([draw(st.integers(1, 200)), s])
    return dict(kind="h", hkind=kind, tag=8000 + i, ref=i + 1, chunks=chunks, sess=chunks[0][1],
                blen=draw(st.sampled_from([8, 32, 100])), nblk=draw(st.integers(1, 4)))


@st.composite
def strategy_(draw, tier):
    nsess = draw(st.integers(1, 3))
    objs = []
    for i in range(draw(st.integers(0, 3))):
        objs.append(draw(sds_st(i, nsess)))
    for i in range(draw(st.integers(0, 3))):
        objs.append(draw(vd_st(i, nsess)))
    for i in range(draw(st.integers(0, 2))):
        objs.append(draw(gr_st(i, nsess)))
    for i in range(draw(st.integers(0, 3))):
        objs.append(draw(h_st(i, nsess)))
    nvd = sum(1 for o in objs if o["kind"] == "vd")
    vgs = []
    for i in range(draw(st.integers(0, 2))):
        mem = draw(st.lists(st.integers(0, max(0, nvd - 1)), max_size=3, unique=True)) if nvd else []
        vgs.append(dict(kind="vg", name="vg%d" % i, members=mem, sub=draw(st.booleans()) and i > 0,
                        attr=draw(st.booleans()), sess=nsess - 1))
    objs += vgs
    ann = []
    if draw(st.booleans()):
        ann.append(["file_label", "label of file %d" % draw(st.integers(0, 99))])
    if draw(st.booleans()):
        ann.append(["file_desc", "desc " * draw(st.integers(1, 30))])
    for vi in range(nvd):
        # labels on several objects (distinct texts): a tool must keep each one with its own object
        if draw(st.booleans()):
            ann.append(["obj_label", vi, "vdata label" if vi == 0 else "label of vdata number %d" % vi])
    if not objs:
        objs.append(draw(vd_st(0, nsess)))
    tail = None
    if draw(st.integers(0, 3)) == 0:
        n_ = draw(st.integers(2, 300))
        tail = [n_, draw(st.integers(1, n_ - 1))]
    return {"tail_reserve": tail, "tail_dup": draw(st.sampled_from([None, None, 0, 0, 1])),
            "nsess": nsess, "ndds": draw(st.sampled_from([0, 0, 1, 4, 40])), "cache": draw(st.booleans()),
            "gattr": draw(st.booleans()), "grgattr": draw(st.integers(0, 2)),
            "vg_edit": [draw(st.integers(0, 3)), draw(st.booleans())] if draw(st.integers(0, 2)) == 0 else None,
            "sd_first": draw(st.booleans()), "objs": objs, "ann": ann,
            "q": [[draw(st.integers(0, 3)), draw(st.sampled_from([1, 1, 2, 3, 5, 64]))] for _ in range(4)]}


def strategy(tier):
    return strategy_(tier)


# ====================================================================== writer
def chunk_def(chunk, comp=None):
    """HDF_CHUNK_DEF (176 bytes): chunk lengths[32] followed by comp_type, model_type, cinfo, model_info."""
    b = struct.pack("=32i", *(list(chunk) + [0] * (32 - len(chunk))))
    if comp is None:
        return b + b"\0" * (176 - len(b))
    ctype, param = comp
    b += struct.pack("=ii", ctype, 0) + struct.pack("=i", param) + b"\0" * 16
    return b + b"\0" * (176 - len(b))


def cinfo(param):
    return struct.pack("=i", param) + b"\0" * 60


def build_sessions(case, d, model):
    """Emit one program per session; fills `model` (name -> expected content)."""
    progs = []
    ext_n = [0]
    for s in range(case["nsess"]):
        p = Prog()
        first = (s == 0)

        def sd_part():
            sd_objs = [o for o in case["objs"] if o["kind"] == "sds" and (o["sess"] == s or any(pt[2] == s for pt in o["parts"]))]
            if not sd_objs and not (first and case["sd_first"]):
                return
            p.call("i", "SDstart", "f.hdf", 3 if (os.path.exists(os.path.join(d, "f.hdf")) or model["_created"]) else 4, bind="sd")
            model["_created"] = True
            if case.get("gattr") and "_gattr" not in model:
                model["_gattr"] = vals("int32", 4, 23)
                p.call("i", "SDsetattr", V("sd"), "gattr", 24, 4, native(model["_gattr"]))
            for o in sd_objs:
                nt = o["nt"]
                shape = list(o["dims"])
                m = model.setdefault(o["name"], dict(kind="sds", o=o, arr=None, rows=0))
                if o["sess"] == s:
                    cdims = list(shape)
                    if o["layout"] == "unlim":
                        cdims[0] = 0
                    p.call("i", "SDcreate", V("sd"), o["name"], NTS[nt][0], len(shape), i32s(*cdims), bind="s")
                    fillv = vals(nt, 1, 99)
                    p.call("i", "SDsetfillvalue", V("s"), native(fillv))
                    m["arr"] = np.full(shape, fillv[0], dtype=fillv.dtype)
                    m["fill"] = fillv
                    lay = o["layout"]
                    if lay == "chunk":
                        p.call("i", "hx_SDsetchunk", V("s"), chunk_def(o["chunk"]), 1)
                    elif lay == "chunk_deflate":
                        p.call("i", "hx_SDsetchunk", V("s"), chunk_def(o["chunk"], (4, 6)), 3)
                    elif lay == "chunk_rle":
                        p.call("i", "hx_SDsetchunk", V("s"), chunk_def(o["chunk"], (1, 0)), 3)
                    elif lay == "deflate":
                        p.call("i", "SDsetcompress", V("s"), 4, cinfo(6))
                    elif lay == "rle":
                        p.call("i", "SDsetcompress", V("s"), 1, cinfo(0))
                    elif lay == "ext":
                        ext_n[0] += 1
                        o["extfile"] = "ext_%s.dat" % o["name"]
                        p.call("i", "SDsetexternalfile", V("s"), o["extfile"], 0)
                    if o["attr"]:
                        av = vals("int16", 3, 5)
                        p.call("i", "SDsetattr", V("s"), "sattr", 22, 3, native(av))
                        m["attr"] = be(av, "int16")
                    if o.get("dimname") or o.get("dimscale") or o.get("dimattr"):
                        # dimension metadata of the slowest dimension (names are unique per dataset: no sharing)
                        p.call("i", "SDgetdimid", V("s"), 0, bind="dm")
                        if o.get("dimname"):
                            p.call("i", "SDsetdimname", V("dm"), "d_%s" % o["name"])
                        if o.get("dimscale") and lay != "unlim":
                            p.call("i", "SDsetdimscale", V("dm"), shape[0], NTS[nt][0], native(vals(nt, shape[0], 13)))
                        if o.get("dimattr"):
                            p.call("i", "SDsetdimstrs", V("dm"), "lab_" + o["name"], "unit", "fmt")
                            p.call("i", "SDsetattr", V("dm"), "dattr", 24, 2, native(vals("int32", 2, 17)))
                else:
                    p.call("i", "SDnametoindex", V("sd"), o["name"], bind="ix")
                    p.call("i", "SDselect", V("sd"), V("ix"), bind="s")
                for (a, b, ps) in o["parts"]:
                    if ps != s:
                        continue
                    cnt = [b - a] + shape[1:]
                    n = int(np.prod(cnt))
                    v = vals(nt, n, a + 11 * len(o["name"]) + s).reshape(cnt)
                    p.call("i", "SDwritedata", V("s"), i32s(*([a] + [0] * (len(shape) - 1))), None, i32s(*cnt), native(v))
                    m["arr"][a:b] = v
                    m["rows"] = max(m["rows"], b)
                p.call("i", "SDendaccess", V("s"))
            p.call("i", "SDend", V("sd"))

        def h_part():
            hs = [o for o in case["objs"] if o["kind"] in ("vd", "gr", "h", "vg") and
                  (o["sess"] == s or any(w[1] == s for w in o.get("writes", [])) or
                   any(c[1] == s for c in o.get("chunks", [])))]
            anns = case["ann"] if s == case["nsess"] - 1 else []
            if not hs and not anns and not first and not (case.get("tail_reserve") and s == case["nsess"] - 1) and \
                    not (case.get("tail_dup") is not None and s == min(case["tail_dup"], case["nsess"] - 1)):
                return
            p.call("i", "Hopen", "f.hdf", 3 if model["_created"] else 4, case["ndds"], bind="f")
            model["_created"] = True
            p.call("i", "Hcache", V("f"), 1 if case["cache"] else 0)
            p.call("i", "Vinitialize", V("f"))
            # interleave: one write of each object in turn, so that appends land in separate places
            pending = []
            for o in hs:
                if o["kind"] == "vd":
                    m = model.setdefault(o["name"], dict(kind="vd", o=o, recs=b"", nrec=0))
                    flds = ",".join(f[0] for f in o["fields"])
                    if o["sess"] == s and "made" not in m:
                        m["made"] = True
                        p.call("i", "VSattach", V("f"), -1, "w", bind="v_" + o["name"])
                        vv = V("v_" + o["name"])
                        p.call("i", "VSsetname", vv, o["name"])
                        if o["cls"]:
                            p.call("i", "VSsetclass", vv, o["cls"])
                        for fn, nt, order in o["fields"]:
                            p.call("i", "VSfdefine", vv, fn, NTS[nt][0], order)
                        p.call("i", "VSsetfields", vv, flds)
                        if o.get("il"):
                            p.call("i", "VSsetinterlace", vv, 1)
                        if o["blocksize"]:
                            p.call("i", "VSsetblocksize", vv, o["blocksize"])
                        if o["attr"]:
                            av = vals("int32", 2, 6)
                            p.call("i", "VSsetattr", vv, -1, "vattr", 24, 2, native(av))
                            m["attr"] = be(av, "int32")
                    else:
                        p.call("i", "VSfind", V("f"), o["name"], bind="vr")
                        p.call("i", "VSattach", V("f"), V("vr"), "w", bind="v_" + o["name"])
                        vv = V("v_" + o["name"])
                        p.call("i", "VSsetfields", vv, flds)
                        p.call("i", "VSseek", vv, max(m["nrec"] - 1, 0)) if m["nrec"] else None
                        if m["nrec"]:
                            # position after the last record: read it (documented way to append)
                            rs = sum(np.dtype(NTS[nt][1]).itemsize * order for _f, nt, order in o["fields"])
                            p.call("i", "VSread", vv, Out(rs), 1, 0)
                    for wi, (n, ws) in enumerate(o["writes"]):
                        if ws == s:
                            pending.append(("vd", o, wi, n))
                elif o["kind"] == "h":
                    m = model.setdefault("h%d" % o["tag"], dict(kind="h", o=o, data=b""))
                    for ci, (n, cs) in enumerate(o["chunks"]):
                        if cs == s:
                            pending.append(("h", o, ci, n))
                elif o["kind"] == "gr" and o["sess"] == s:
                    pending.append(("gr", o, 0, 0))
            # round-robin by write index
            pending.sort(key=lambda x: (x[2], x[1].get("name", str(x[1].get("tag")))))
            gr_open = False
            for kind, o, wi, n in pending:
                if kind == "vd":
                    m = model[o["name"]]
                    cols = [vals(nt, n * order, m["nrec"] + k + wi).reshape(n, order) for k, (_f, nt, order) in enumerate(o["fields"])]
                    nat = b"".join(b"".join(native(c[r]) for c in cols) for r in range(n))
                    big = b"".join(b"".join(be(c[r], o["fields"][k][1]) for k, c in enumerate(cols)) for r in range(n))
                    p.call("i", "VSwrite", V("v_" + o["name"]), nat, n, 0)
                    m["recs"] += big
                    m["nrec"] += n
                elif kind == "h":
                    m = model["h%d" % o["tag"]]
                    data = bytes(((o["tag"] + wi * 13 + i * 5) & 0xff) if (i // 7) % 2 else 0x41 for i in range(n))
                    hk = o["hkind"]
                    if wi == 0:
                        if hk == "plain":
                            p.call("i", "Hputelement", V("f"), o["tag"], o["ref"], data, n)
                        elif hk == "linked":
                            p.call("i", "HLcreate", V("f"), o["tag"], o["ref"], o["blen"], o["nblk"], bind="a")
                            p.call("i", "Hwrite", V("a"), n, data)
                            p.call("i", "Hendaccess", V("a"))
                        elif hk == "ext":
                            o["extfile"] = "hext_%d.dat" % o["tag"]
                            p.call("i", "HXcreate", V("f"), o["tag"], o["ref"], o["extfile"], 0, 0, bind="a")
                            p.call("i", "Hwrite", V("a"), n, data)
                            p.call("i", "Hendaccess", V("a"))
                        else:
                            coder = {"comp_rle": 1, "comp_deflate": 4, "comp_none": 0}[hk]
                            p.call("i", "HCcreate", V("f"), o["tag"], o["ref"], 0, cinfo(0), coder, cinfo(6), bind="a")
                            p.call("i", "Hwrite", V("a"), n, data)
                            p.call("i", "Hendaccess", V("a"))
                    else:
                        p.call("i", "Hstartaccess", V("f"), o["tag"], o["ref"], 2, bind="a")
                        p.call("i", "Happendable", V("a"))
                        p.call("i", "Hseek", V("a"), len(m["data"]), 0)
                        p.call("i", "Hwrite", V("a"), n, data)
                        p.call("i", "Hendaccess", V("a"))
                    m["data"] += data
                elif kind == "gr":
                    if not gr_open:
                        p.call("i", "GRstart", V("f"), bind="gr")
                        gr_open = True
                        if case.get("grgattr") and "_grgattr" not in model:
                            # file (global) attributes of the GR interface
                            model["_grgattr"] = [vals("int32", 3, 31)]
                            p.call("i", "GRsetattr", V("gr"), "grglob", 24, 3, native(model["_grgattr"][0]))
                            if case["grgattr"] == 2:
                                model["_grgattr"].append(vals("float32", 2, 32))
                                p.call("i", "GRsetattr", V("gr"), "grglob2", 5, 2, native(model["_grgattr"][1]))
                    nt = o["nt"]
                    m = model.setdefault(o["name"], dict(kind="gr", o=o))
                    p.call("i", "GRcreate", V("gr"), o["name"], o["ncomp"], NTS[nt][0], 0, i32s(o["xdim"], o["ydim"]), bind="ri")
                    lay = o["layout"]
                    if lay == "chunk":
                        cd = [max(1, o["xdim"] // 2), max(1, o["ydim"] // 2)]
                        o["chunk"] = cd
                        p.call("i", "hx_GRsetchunk", V("ri"), chunk_def(cd), 1)
                    elif lay == "deflate":
                        p.call("i", "GRsetcompress", V("ri"), 4, cinfo(6))
                    elif lay == "rle":
                        p.call("i", "GRsetcompress", V("ri"), 1, cinfo(0))
                    n_el = o["xdim"] * o["ydim"] * o["ncomp"]
                    v = vals(nt, n_el, 3 + len(o["name"]) + o["xdim"])
                    p.call("i", "GRwriteimage", V("ri"), i32s(0, 0), None, i32s(o["xdim"], o["ydim"]), native(v))
                    m["data"] = be(v, nt)
                    if o["pal"]:
                        pal = bytes((i * 3 + k) & 0xff for i in range(256) for k in range(3))
                        p.call("i", "GRgetlutid", V("ri"), 0, bind="lut")
                        p.call("i", "GRwritelut", V("lut"), 3, 21, 0, 256, pal)
                        m["pal"] = pal
                    if o["attr"]:
                        av = vals("uint8", 4, 8)
                        p.call("i", "GRsetattr", V("ri"), "gattr", 21, 4, native(av))
                        m["attr"] = be(av, "uint8")
                        ant = o.get("attr2")
                        if ant:
                            # a second attribute with a little-endian or native number type (stored in that order)
                            code = {"lint32": 0x4000 | 24, "nint32": 0x1000 | 24, "luint16": 0x4000 | 23,
                                    "int32": 24}[ant]
                            base = "uint16" if ant == "luint16" else "int32"
                            av2 = vals(base, 3, 9)
                            p.call("i", "GRsetattr", V("ri"), "gattr2", code, 3, native(av2))
                    p.call("i", "GRendaccess", V("ri"))
            # vgroups (last session): members are the vdatas attached above or looked up
            for o in hs:
                if o["kind"] != "vg":
                    continue
                m = model.setdefault(o["name"], dict(kind="vg", o=o, members=[]))
                p.call("i", "Vattach", V("f"), -1, "w", bind="g_" + o["name"])
                gv = V("g_" + o["name"])
                p.call("i", "Vsetname", gv, o["name"])
                vds = [x for x in case["objs"] if x["kind"] == "vd"]
                for mi in o["members"]:
                    if mi < len(vds) and vds[mi]["name"] in model and "made" in model[vds[mi]["name"]]:
                        p.call("i", "VSfind", V("f"), vds[mi]["name"], bind="mr")
                        p.call("i", "Vaddtagref", gv, 1962, V("mr"))
                        m["members"].append(("vd", vds[mi]["name"]))
                if o["sub"]:
                    p.call("i", "Vfind", V("f"), "vg0", bind="mr")
                    p.call("i", "Vaddtagref", gv, 1965, V("mr"))
                    m["members"].append(("vg", "vg0"))
                if o["attr"]:
                    av = vals("float32", 2, 4)
                    p.call("i", "Vsetattr", gv, "gattr", 5, 2, native(av))
                    m["attr"] = be(av, "float32")
                p.call("i", "Vdetach", gv)
            for o in hs:
                if o["kind"] == "vd" and ("v_" + o["name"]) in p.text():
                    p.call("i", "VSdetach", V("v_" + o["name"]))
            if gr_open:
                p.call("i", "GRend", V("gr"))
            if anns:
                p.call("i", "ANstart", V("f"), bind="an")
                for a in anns:
                    if a[0] == "file_label":
                        p.call("i", "ANcreatef", V("an"), 2, bind="ann")
                        txt = a[1]
                    elif a[0] == "file_desc":
                        p.call("i", "ANcreatef", V("an"), 3, bind="ann")
                        txt = a[1]
                    else:
                        vds = [x for x in case["objs"] if x["kind"] == "vd"]
                        if not vds or "made" not in model.get(vds[a[1]]["name"], {}):
                            continue
                        p.call("i", "VSfind", V("f"), vds[a[1]]["name"], bind="ar")
                        p.call("i", "ANcreate", V("an"), 1962, V("ar"), 0, bind="ann")
                        txt = a[2]
                        model.setdefault("_objann", []).append((vds[a[1]]["name"], txt.encode()))
                    p.call("i", "ANwriteann", V("ann"), txt.encode(), len(txt))
                    p.call("i", "ANendaccess", V("ann"))
                    if a[0] != "obj_label":
                        model.setdefault("_fileann", []).append((a[0], txt.encode()))
                p.call("i", "ANend", V("an"))
            td = case.get("tail_dup")
            if td is not None and s == min(td, case["nsess"] - 1):
                # the last thing this session adds is a descriptor without data of its own (an alias of a small
                # element): with few descriptors per block the file then ends in a descriptor block, and the
                # next session has to continue behind it
                p.call("i", "Hputelement", V("f"), 8951, 1, b"anchor", 6)
                p.call("i", "Hdupdd", V("f"), 8952, 1, 8951, 1)
                model["_alias"] = True
            tr = case.get("tail_reserve")
            if tr and s == case["nsess"] - 1:
                # the last thing stored by this session: an element whose space is reserved (Hstartwrite with a
                # length) but only partly written, so that the end of the file has to be extended at close
                p.call("i", "Hstartwrite", V("f"), 8900, 1, tr[0], bind="tr")
                data = bytes((7 * i_ + 3) & 0xff for i_ in range(tr[1]))
                p.call("i", "Hwrite", V("tr"), tr[1], data)
                p.call("i", "Hendaccess", V("tr"))
                model["_tail"] = (tr[0], data)
            p.call("i", "Vfinish", V("f"))
            p.call("i", "Hclose", V("f"))

        if case["sd_first"]:
            sd_part(); h_part()
        else:
            h_part(); sd_part()
        progs.append(p)
    ve = case.get("vg_edit")
    vgs = [(k, m) for k, m in model.items() if isinstance(m, dict) and m.get("kind") == "vg" and m["members"]]
    if ve and vgs:
        # one more session edits a stored vgroup so that its record becomes SHORTER (a member removed), optionally
        # giving it its first attribute at the same time
        name, m = vgs[ve[0] % len(vgs)]
        p = Prog()
        p.call("i", "Hopen", "f.hdf", 3, 0, bind="f")
        p.call("i", "Vinitialize", V("f"))
        p.call("i", "Vfind", V("f"), name, bind="er")
        p.call("i", "Vattach", V("f"), V("er"), "w", bind="eg")
        p.call("i", "hx_vdelete_at", V("eg"), 0)
        m["members"].pop(0)
        if ve[1] and not m["o"]["attr"]:
            av = vals("float32", 2, 4)
            p.call("i", "Vsetattr", V("eg"), "gattr", 5, 2, native(av))
            m["attr"] = be(av, "float32")
            m["late_attr"] = True
        p.call("i", "Vdetach", V("eg"))
        p.call("i", "Vfinish", V("f"))
        p.call("i", "Hclose", V("f"))
        model["_vg_edit"] = True
        progs.append(p)
    return progs


# ====================================================================== the check
def run_case(case):
    labels = set()
    sample = dict(objs=["%s:%s" % (o["kind"], o.get("layout") or o.get("hkind") or len(o.get("writes", o.get("members", []))))
                        for o in case["objs"]], nsess=case["nsess"], ndds=case["ndds"])
    with CaseDir() as d:
        try:
            check(case, d, labels)
        except Fail as f:
            info = f.info
            return CaseResult(labels=labels, failure=info, sample=sample)
    return CaseResult(labels=labels, sample=sample)


def check(case, d, labels):
    model = {"_created": False}
    progs = build_sessions(case, d, model)
    text = ""
    for si, p in enumerate(progs):
        if not p.lines:
            continue
        rr = run(p, cwd=d, timeout=120)
        text += "# session %d\n%s" % (si, p.text())
        if not rr.done:
            raise Fail("crash while writing", detail=rr.sanitizer_summary(), frames=rr.crash_frames(),
                       text=rr.stderr[-1500:], program=text[-6000:])
        for ln, l in enumerate(p.lines, 1):
            x = rr.res.get(ln)
            if x is not None and x.kind == "R" and x.ret == -1 and not l.startswith("i VSseek"):
                raise Fail("a writer call failed", call=l[:120], session=si, program=text[-6000:])
    prog = text[-6000:]
    path = os.path.join(d, "f.hdf")
    if not os.path.exists(path):
        return
    kinds = set(o["kind"] for o in case["objs"])
    if len(kinds) >= 2:
        labels.add("multi_interface")
    # ---------------- (1) independent structural walk
    R = h4read.Reader(path)
    probs = R.deep_check()
    if probs:
        raise Fail("the closed file is not well-formed", problems=probs[:6], program=prog)
    if any(h4fmt.is_special(dd.tag) for dd in R.f.dds):
        labels.add("special")
    for dd in R.f.dds:
        if h4fmt.is_special(dd.tag):
            info = R.f.special_info(dd)
            labels.add("sp_%s" % {1: "linked", 2: "ext", 3: "comp", 5: "chunked"}.get(info["code"], info["code"]))
    # ---------------- (2)+(3) library reads and raw-location queries in a fresh process
    q = Prog()
    Q = [list(x) for x in case["q"]]
    if not case.get("no_exclude"):
        # start_block is ignored by the linked-block layer and off by one for single blocks (known finding
        # C02-datainfo-start-block): queries are generated with start_block 0 only
        for x in Q:
            x[0] = 0
    plan = []          # (what, key, line numbers dict)
    sds_objs = [o for o in case["objs"] if o["kind"] == "sds" and o["name"] in model and model[o["name"]]["arr"] is not None]
    if sds_objs:
        q.call("i", "SDstart", "f.hdf", 1, bind="sd")
        for oi, o in enumerate(sds_objs):
            m = model[o["name"]]
            ln = {}
            q.call("i", "SDnametoindex", V("sd"), o["name"], bind="ix")
            ln["sel"] = q.call("i", "SDselect", V("sd"), V("ix"), bind="s")
            ln["ref"] = q.call("i", "SDidtoref", V("s"))
            rank = len(o["dims"])
            ln["info"] = q.call("i", "SDgetinfo", V("s"), OutS(64), Out(4), Out(4 * rank), Out(4), Out(4))
            shape = list(o["dims"])
            if o["layout"] == "unlim":
                shape[0] = m["rows"]
            m["shape"] = shape
            n = int(np.prod(shape)) if shape[0] else 0
            isz = np.dtype(NTS[o["nt"]][1]).itemsize
            if n:
                ln["read"] = q.call("i", "SDreaddata", V("s"), i32s(*([0] * rank)), None, i32s(*shape), Out(n * isz))
            st_, cnt = Q[oi % len(Q)]
            if o["layout"].startswith("chunk"):
                grid = [(dd_ + c - 1) // c for dd_, c in zip(o["dims"], o["chunk"])]
                coords = list(np.ndindex(*grid))[:10]
                ln["chunks"] = []
                for co in coords:
                    l0 = q.call("i", "SDgetdatainfo", V("s"), i32s(*co), 0, 0, None, None)
                    l1 = q.call("i", "SDgetdatainfo", V("s"), i32s(*co), 0, cnt, Out(4 * cnt), Out(4 * cnt))
                    ln["chunks"].append((co, l0, l1, cnt))
            else:
                ln["n"] = q.call("i", "SDgetdatainfo", V("s"), None, 0, 0, None, None)
                ln["q0"] = (q.call("i", "SDgetdatainfo", V("s"), None, 0, cnt, Out(4 * cnt), Out(4 * cnt)), 0, cnt)
                ln["q1"] = (q.call("i", "SDgetdatainfo", V("s"), None, st_, cnt, Out(4 * cnt), Out(4 * cnt)), st_, cnt)
            if o["attr"]:
                ln["att"] = q.call("i", "SDgetattdatainfo", V("s"), 1, Out(4), Out(4))     # index 0 is _FillValue
                ln["att0"] = q.call("i", "SDfindattr", V("s"), "sattr")
            q.call("i", "SDendaccess", V("s"))
            plan.append(("sds", o, ln))
        q.call("i", "SDend", V("sd"))
    others = [o for o in case["objs"] if o["kind"] in ("vd", "gr", "h", "vg")]
    if others or case["ann"]:
        q.call("i", "Hopen", "f.hdf", 1, 0, bind="f")
        q.call("i", "Vinitialize", V("f"))
        for oi, o in enumerate(others):
            st_, cnt = Q[(oi + 1) % len(Q)]
            ln = {}
            if o["kind"] == "vd":
                m = model.get(o["name"])
                if not m or "made" not in m:
                    continue
                rs = sum(np.dtype(NTS[nt][1]).itemsize * order for _f, nt, order in o["fields"])
                q.call("i", "VSfind", V("f"), o["name"], bind="vr")
                ln["ref"] = q.call("i", "VSattach", V("f"), V("vr"), "r", bind="v")
                ln["vref"] = q.call("i", "VSQueryref", V("v"))
                ln["elts"] = q.call("i", "VSelts", V("v"))
                q.call("i", "VSsetfields", V("v"), ",".join(f[0] for f in o["fields"]))
                if m["nrec"]:
                    ln["read"] = q.call("i", "VSread", V("v"), Out(rs * m["nrec"]), m["nrec"], 0)
                ln["n"] = q.call("i", "VSgetdatainfo", V("v"), 0, 0, None, None)
                ln["q0"] = (q.call("i", "VSgetdatainfo", V("v"), 0, cnt, Out(4 * cnt), Out(4 * cnt)), 0, cnt)
                ln["q1"] = (q.call("i", "VSgetdatainfo", V("v"), st_, cnt, Out(4 * cnt), Out(4 * cnt)), st_, cnt)
                if o["attr"]:
                    ln["att"] = q.call("i", "VSgetattdatainfo", V("v"), -1, 0, Out(4), Out(4))
                q.call("i", "VSdetach", V("v"))
                plan.append(("vd", o, ln))
            elif o["kind"] == "vg":
                m = model.get(o["name"])
                if not m:
                    continue
                q.call("i", "Vfind", V("f"), o["name"], bind="gr_")
                ln["ref"] = q.call("i", "Vattach", V("f"), V("gr_"), "r", bind="g")
                ln["n"] = q.call("i", "Vntagrefs", V("g"))
                ln["tr"] = q.call("i", "Vgettagrefs", V("g"), Out(4 * 8), Out(4 * 8), 8)
                ln["vref"] = q.call("i", "VQueryref", V("g"))
                if o["attr"] or model[o["name"]].get("late_attr"):
                    ln["att"] = q.call("i", "Vgetattdatainfo", V("g"), 0, Out(4), Out(4))
                q.call("i", "Vdetach", V("g"))
                plan.append(("vg", o, ln))
            elif o["kind"] == "h":
                m = model.get("h%d" % o["tag"])
                if not m:
                    continue
                ln["get"] = q.call("i", "Hgetelement", V("f"), o["tag"], o["ref"], Out(len(m["data"]) + 4))
                if o["hkind"] != "ext":
                    ln["n"] = q.call("i", "HDgetdatainfo", V("f"), o["tag"], o["ref"], None, 0, 0, None, None)
                    ln["q0"] = (q.call("i", "HDgetdatainfo", V("f"), o["tag"], o["ref"], None, 0, cnt, Out(4 * cnt), Out(4 * cnt)), 0, cnt)
                    ln["q1"] = (q.call("i", "HDgetdatainfo", V("f"), o["tag"], o["ref"], None, st_, cnt, Out(4 * cnt), Out(4 * cnt)), st_, cnt)
                plan.append(("h", o, ln))
        grs = [o for o in others if o["kind"] == "gr" and o["name"] in model]
        if grs:
            q.call("i", "GRstart", V("f"), bind="gr")
            if model.get("_grgattr"):
                ln = dict(info=q.call("i", "GRfileinfo", V("gr"), Out(4), Out(4)),
                          vals=[q.call("i", "GRgetattr", V("gr"), i, Out(16)) for i in range(len(model["_grgattr"]))])
                plan.append(("grglob", None, ln))
            for oi, o in enumerate(grs):
                st_, cnt = Q[(oi + 2) % len(Q)]
                m = model[o["name"]]
                ln = {}
                q.call("i", "GRnametoindex", V("gr"), o["name"], bind="ix")
                ln["sel"] = q.call("i", "GRselect", V("gr"), V("ix"), bind="ri")
                ln["read"] = q.call("i", "GRreadimage", V("ri"), i32s(0, 0), None, i32s(o["xdim"], o["ydim"]), Out(len(m["data"])))
                if o["layout"] != "chunk":
                    ln["n"] = q.call("i", "GRgetdatainfo", V("ri"), 0, 0, None, None)
                    ln["q0"] = (q.call("i", "GRgetdatainfo", V("ri"), 0, cnt, Out(4 * cnt), Out(4 * cnt)), 0, cnt)
                if o["pal"]:
                    q.call("i", "GRgetlutid", V("ri"), 0, bind="lut")
                    ln["pal"] = q.call("i", "GRreadlut", V("lut"), Out(768))
                if o["attr"]:
                    ln["att"] = q.call("i", "GRgetattdatainfo", V("ri"), 0, Out(4), Out(4))
                q.call("i", "GRendaccess", V("ri"))
                plan.append(("gr", o, ln))
            q.call("i", "GRend", V("gr"))
        if model.get("_fileann") or model.get("_objann"):
            q.call("i", "ANstart", V("f"), bind="an")
            ln = dict(info=q.call("i", "ANfileinfo", V("an"), Out(4), Out(4), Out(4), Out(4)), items=[])
            for ty, lst in ((2, [a for a in model.get("_fileann", []) if a[0] == "file_label"]),
                            (3, [a for a in model.get("_fileann", []) if a[0] == "file_desc"]),
                            (0, model.get("_objann", []))):
                # the position of an annotation among those of its type is not specified: the i-th one read
                # must be one of the texts written (each exactly once)
                mx = max([len(a[1]) for a in lst] + [0]) + 1
                for i, a in enumerate(lst):
                    q.call("i", "ANselect", V("an"), i, ty, bind="ann")
                    # labels are returned NUL-terminated: the buffer must hold one byte more than the text
                    l0 = q.call("i", "ANannlen", V("ann"))
                    l1 = q.call("i", "ANreadann", V("ann"), Out(mx), mx)
                    l2 = q.call("i", "ANgetdatainfo", V("ann"), Out(4), Out(4))
                    ln["items"].append((ty, [x[1] for x in lst], l1, l2, l0))
                    q.call("i", "ANendaccess", V("ann"))
            q.call("i", "ANend", V("an"))
            plan.append(("an", None, ln))
        q.call("i", "Vfinish", V("f"))
        q.call("i", "Hclose", V("f"))
    qq = run(q, cwd=d, timeout=120)
    rdr = q.text()[-4000:]
    if not qq.done:
        raise Fail("crash while reading / querying raw locations", detail=qq.sanitizer_summary(),
                   frames=qq.crash_frames(), text=qq.stderr[-1500:],
                   last_call=q.lines[qq.last_line][:120] if qq.last_line < len(q.lines) else "", reader=rdr, program=prog)

    def r(ln):
        return qq.res[ln].ret

    raw = R.f.data

    def at(off, ln_):
        return bytes(raw[off:off + ln_])

    def check_blocks(what, lines, expect, decode=None):
        """expect: independent block list [(off,len)]. lines: dict with n, q0, q1."""
        n = r(lines["n"])
        if n != len(expect):
            raise Fail("%s: number of data blocks reported differs from the independent reader" % what, reported=n,
                       independent=len(expect), blocks=expect[:6], reader=rdr, program=prog)
        if n > 0:
            labels.add("datainfo_blocks")
        if n > 1:
            labels.add("datainfo_multi")
        for key in ("q0", "q1"):
            if key not in lines:
                continue
            l, st_, cnt = lines[key]
            x = qq.res[l]
            if st_ > n or (st_ == n and n > 0):
                if x.ret != -1 and not (st_ == n and x.ret == 0):
                    raise Fail("%s: a start_block beyond the last block was accepted" % what, start=st_, blocks=n,
                               ret=x.ret, reader=rdr, program=prog)
                labels.add("datainfo_start_beyond")
                continue
            want = expect[st_:st_ + cnt]
            if st_ > 0:
                labels.add("datainfo_start>0")
            if cnt < n:
                labels.add("datainfo_short_array")
            if x.ret != len(want):
                raise Fail("%s: raw-location query returned a different number of blocks" % what, start=st_,
                           info_count=cnt, ret=x.ret, want=len(want), total=n, reader=rdr, program=prog)
            offs = un_i32s(x.bufs[0])[:x.ret]
            lens = un_i32s(x.bufs[1])[:x.ret]
            if list(zip(offs, lens)) != [tuple(w) for w in want]:
                raise Fail("%s: raw locations differ from where the independent reader finds the data" % what,
                           start=st_, info_count=cnt, reported=list(zip(offs, lens))[:6], independent=want[:6],
                           reader=rdr, program=prog)
            # the arrays are allocated with exactly info_count entries: a write past them is an ASan report.
            # Entries between the returned count and info_count may be scribbled on (not claimed by the property).

    try:
        ind_sds = R.datasets()
        ind_vd = R.vdatas()
        ind_vg = R.vgroups()
        ind_img = R.images()
        ind_ann = R.annotations()
    except (h4read.StructureError, struct.error) as e:
        raise Fail("the independent reader cannot recover the logical objects: %s" % e, program=prog)
    if model.get("_alias"):
        a1, a2 = R.f.find(8951, 1), R.f.find(8952, 1)
        if a1 is None or a2 is None or (a1.off, a1.len) != (a2.off, a2.len) or \
                bytes(R.f.data[a1.off:a1.off + a1.len]) != b"anchor":
            raise Fail("an aliased element (Hdupdd) is not stored as described",
                       descriptors=[None if x is None else [x.off, x.len] for x in (a1, a2)], program=prog)
        labels.add("alias_tail")
    if model.get("_tail"):
        n_, data_ = model["_tail"]
        tdd = R.f.find(8900, 1)
        if tdd is None or tdd.len != n_ or tdd.off < 0 or tdd.off + tdd.len > len(R.f.data) or \
                bytes(R.f.data[tdd.off:tdd.off + len(data_)]) != data_:
            raise Fail("the partly written reserved element at the end of the file is not stored as described",
                       descriptor=None if tdd is None else [tdd.off, tdd.len], file_size=len(R.f.data),
                       reserved=n_, written=len(data_), program=prog)
        labels.add("reserved_tail")
    if model.get("_vg_edit"):
        labels.add("vgroup_record_shrunk")
    for what, o, ln in plan:
        if what == "sds":
            m = model[o["name"]]
            ref = r(ln["ref"])
            if r(ln["sel"]) == -1 or ref not in ind_sds:
                raise Fail("dataset %s: not found by the independent reader (NDG %r)" % (o["name"], ref),
                           ndgs=sorted(ind_sds), reader=rdr, program=prog)
            I = ind_sds[ref]
            shape = m["shape"]
            if I["rank"] != len(shape) or I["nt"]["type"] != NTS[o["nt"]][0] or I["dims"][1:] != shape[1:] or \
                    (o["layout"] != "unlim" and I["dims"][0] != shape[0]):
                raise Fail("dataset %s: stored rank/dims/number type differ" % o["name"], stored=I["dims"],
                           nt=I["nt"], want=shape, program=prog)
            if o["layout"] == "unlim" and (I["dims"][0] > shape[0] or
                                           (case["nsess"] == 1 and I["dims"][0] != shape[0])):
                # the dimension record of a record variable may be stale (smaller) when the variable grew in a
                # later session (known finding of C15); it never claims more records than were stored
                raise Fail("dataset %s: the stored dimension record claims %d records, %d were stored" % (
                    o["name"], I["dims"][0], shape[0]), stored=I["dims"], program=prog)
            want = be(m["arr"][:shape[0]], o["nt"]) if shape[0] else b""
            if "read" in ln:
                lib = np.frombuffer(qq.res[ln["read"]].bufs[0], dtype=np.dtype(NTS[o["nt"]][1]).newbyteorder("="))
                libbe = lib.astype(np.dtype(NTS[o["nt"]][1])).tobytes()
                if r(ln["read"]) != 0:
                    raise Fail("dataset %s: SDreaddata failed on the closed file" % o["name"], reader=rdr, program=prog)
                try:
                    ind = R.logical(I["data"]) if I["data"] is not None else b""
                except h4read.Unsupported:
                    ind = None
                except h4read.StructureError as e:
                    raise Fail("dataset %s: independent reader: %s" % (o["name"], e), program=prog)
                if ind is not None:
                    if len(ind) < len(libbe) and o["layout"] != "ext":
                        # unwritten tail of a contiguous dataset reads as fill through the library
                        pad = be(np.full((len(libbe) - len(ind)) // len(m["fill"].tobytes()), m["fill"][0]), o["nt"])
                        ind = ind + pad
                    if ind[:len(libbe)] != libbe:
                        raise Fail("dataset %s: independent reader and library disagree on the content" % o["name"],
                                   layout=o["layout"], first_diff=next(i for i in range(len(libbe)) if ind[i:i + 1] != libbe[i:i + 1]),
                                   reader=rdr, program=prog)
                if libbe != want:
                    raise Fail("dataset %s: content read back differs from what was written" % o["name"],
                               layout=o["layout"], program=prog)
            # raw locations
            if "chunks" in ln:
                dd = I["data"]
                info = R.f.special_info(dd) if dd is not None and h4fmt.is_special(dd.tag) else None
                if info is None or info["code"] != 5:
                    raise Fail("dataset %s: not stored as a chunked element" % o["name"], program=prog)
                rows = {tuple(org): (t, rf) for org, t, rf in R.chunk_table(dd, info)}
                for co, l0, l1, cnt in ln["chunks"]:
                    if tuple(co) in rows:
                        cdd = R.f.find(*rows[tuple(co)])
                        try:
                            exp = R.blocks(cdd)
                        except h4read.Unsupported:
                            continue
                    else:
                        exp = []
                    check_blocks("dataset %s chunk %r" % (o["name"], tuple(co)), dict(n=l0, q0=(l1, 0, cnt)), exp)
            else:
                dd = I["data"]
                try:
                    exp = R.blocks(dd) if dd is not None else []
                except h4read.Unsupported:
                    exp = None
                if exp is not None and not (exp and exp[0][0] == "ext"):
                    check_blocks("dataset %s" % o["name"], ln, exp)
                    dd_sp = dd is not None and h4fmt.is_special(dd.tag)
                    if exp and not dd_sp:
                        got = b"".join(at(o_, l_) for o_, l_ in exp)
                        if got[:len(want)] != want[:len(got)]:
                            raise Fail("dataset %s: bytes at the reported raw location are not the data" % o["name"],
                                       program=prog)
            if "att" in ln:
                if r(ln["att"]) == -1:
                    raise Fail("dataset %s: SDgetattdatainfo failed" % o["name"], reader=rdr, program=prog)
                off, = un_i32s(qq.res[ln["att"]].bufs[0])
                le, = un_i32s(qq.res[ln["att"]].bufs[1])
                idx = r(ln["att0"])
                if idx == 1 and at(off, le) != m["attr"]:
                    raise Fail("dataset %s: bytes at the attribute's reported location are not its values" % o["name"],
                               offset=off, length=le, program=prog)
        elif what == "vd":
            m = model[o["name"]]
            vref = r(ln["vref"])
            if r(ln["ref"]) == -1 or vref not in ind_vd:
                raise Fail("vdata %s: not found by the independent reader" % o["name"], program=prog)
            I = ind_vd[vref]
            h = I["header"]
            if h["nvert"] != m["nrec"] or r(ln["elts"]) != m["nrec"] or h["name"].decode() != o["name"] or \
                    [x.decode() for x in h["names"]] != [f[0] for f in o["fields"]]:
                raise Fail("vdata %s: stored header differs (records %d, expected %d)" % (o["name"], h["nvert"], m["nrec"]),
                           program=prog)
            try:
                ind = R.logical(I["data"])[:h["nvert"] * h["ivsize"]] if I["data"] is not None else b""
            except h4read.StructureError as e:
                raise Fail("vdata %s: independent reader: %s" % (o["name"], e), program=prog)
            if o.get("il"):
                if h.get("interlace") != 1:
                    raise Fail("vdata %s: stored header lost the NO_INTERLACE mode" % o["name"], program=prog)
                ind = vd_rows(o, ind, m["nrec"])
            if ind != m["recs"]:
                raise Fail("vdata %s: records recovered by the independent reader differ from what was written" % o["name"],
                           got=len(ind), want=len(m["recs"]), program=prog)
            if "read" in ln:
                if r(ln["read"]) != m["nrec"]:
                    raise Fail("vdata %s: VSread failed on the closed file" % o["name"], ret=r(ln["read"]), program=prog)
                lib = qq.res[ln["read"]].bufs[0]
                out = bytearray()
                pos = 0
                for _ in range(m["nrec"]):
                    for _f, nt, order in o["fields"]:
                        dt = np.dtype(NTS[nt][1])
                        k = dt.itemsize * order
                        out += np.frombuffer(lib[pos:pos + k], dtype=dt.newbyteorder("=")).astype(dt).tobytes()
                        pos += k
                if bytes(out) != ind:
                    raise Fail("vdata %s: independent reader and library disagree on the records" % o["name"], program=prog)
            exp = R.blocks(I["data"]) if I["data"] is not None else []
            check_blocks("vdata %s" % o["name"], ln, exp)
            if exp:
                got = b"".join(at(o_, l_) for o_, l_ in exp)
                if o.get("il"):
                    got = vd_rows(o, got, m["nrec"])
                if got != m["recs"]:
                    raise Fail("vdata %s: bytes at the reported raw locations are not the records" % o["name"],
                               blocks=exp[:6], got=len(got), want=len(m["recs"]), program=prog)
            if "att" in ln:
                if r(ln["att"]) == -1:
                    raise Fail("vdata %s: VSgetattdatainfo failed" % o["name"], program=prog)
                off, = un_i32s(qq.res[ln["att"]].bufs[0])
                le, = un_i32s(qq.res[ln["att"]].bufs[1])
                if at(off, le) != m["attr"]:
                    raise Fail("vdata %s: bytes at the attribute's reported location are not its values" % o["name"],
                               program=prog)
        elif what == "vg":
            m = model[o["name"]]
            vref = r(ln["vref"])
            if r(ln["ref"]) == -1 or vref not in ind_vg:
                raise Fail("vgroup %s: not found by the independent reader" % o["name"], program=prog)
            g = ind_vg[vref]
            n = r(ln["n"])
            tags = un_i32s(qq.res[ln["tr"]].bufs[0])[:n]
            refs = un_i32s(qq.res[ln["tr"]].bufs[1])[:n]
            if g["nvelt"] != n or list(zip(g["tags"], g["refs"])) != list(zip(tags, refs)) or n != len(m["members"]):
                raise Fail("vgroup %s: members differ between the independent reader, the library and the model" % o["name"],
                           stored=list(zip(g["tags"], g["refs"])), library=list(zip(tags, refs)), model=m["members"],
                           program=prog)
            for (mk, mn), (t, rf) in zip(m["members"], zip(tags, refs)):
                if mk == "vd":
                    if t != 1962 or rf not in ind_vd or ind_vd[rf]["header"]["name"].decode() != mn:
                        raise Fail("vgroup %s: member does not designate vdata %s" % (o["name"], mn), program=prog)
                elif t != 1965 or rf not in ind_vg or ind_vg[rf]["name"].decode() != mn:
                    raise Fail("vgroup %s: member does not designate vgroup %s" % (o["name"], mn), program=prog)
            if "att" in ln:
                if r(ln["att"]) == -1:
                    raise Fail("vgroup %s: Vgetattdatainfo failed" % o["name"], program=prog)
                off, = un_i32s(qq.res[ln["att"]].bufs[0])
                le, = un_i32s(qq.res[ln["att"]].bufs[1])
                if at(off, le) != m["attr"]:
                    raise Fail("vgroup %s: bytes at the attribute's reported location are not its values" % o["name"],
                               program=prog)
        elif what == "h":
            m = model["h%d" % o["tag"]]
            dd = R.dd(o["tag"], o["ref"])
            if dd is None:
                raise Fail("element %d/%d: missing from the file" % (o["tag"], o["ref"]), program=prog)
            try:
                ind = R.logical(dd)
            except h4read.StructureError as e:
                raise Fail("element %d/%d: independent reader: %s" % (o["tag"], o["ref"], e), program=prog)
            lib = qq.res[ln["get"]].bufs[0][:max(r(ln["get"]), 0)]
            if r(ln["get"]) != len(m["data"]) or lib != m["data"] or ind != m["data"]:
                raise Fail("element %d/%d (%s): content differs (library %d bytes, independent %d, written %d)" % (
                    o["tag"], o["ref"], o["hkind"], len(lib), len(ind), len(m["data"])), program=prog)
            if "n" in ln:
                exp = R.blocks(dd)
                check_blocks("element %d/%d (%s)" % (o["tag"], o["ref"], o["hkind"]), ln, exp)
                if exp and o["hkind"] in ("plain", "linked"):
                    if b"".join(at(o_, l_) for o_, l_ in exp) != m["data"]:
                        raise Fail("element %d/%d: bytes at the reported raw locations are not the data" % (
                            o["tag"], o["ref"]), blocks=exp[:6], program=prog)
        elif what == "grglob":
            want = model["_grgattr"]
            if r(ln["info"]) != 0 or un_i32s(qq.res[ln["info"]].bufs[1])[0] != len(want):
                raise Fail("GR file attributes: GRfileinfo reports another count than was set", expected=len(want),
                           observed=un_i32s(qq.res[ln["info"]].bufs[1])[0], program=prog)
            for l_, w_ in zip(ln["vals"], want):
                if r(l_) != 0 or qq.res[l_].bufs[0][:w_.nbytes] != native(w_):
                    raise Fail("GR file attribute differs from what was set", program=prog)
        elif what == "gr":
            m = model[o["name"]]
            if r(ln["sel"]) == -1 or o["name"] not in ind_img:
                raise Fail("image %s: not found by the independent reader" % o["name"], images=sorted(ind_img), program=prog)
            I = ind_img[o["name"]]
            if (I["xdim"], I["ydim"], I["ncomp"]) != (o["xdim"], o["ydim"], o["ncomp"]) or I["nt"]["type"] != NTS[o["nt"]][0]:
                raise Fail("image %s: stored dimensions/number type differ" % o["name"], stored=I, program=prog)
            if r(ln["read"]) != 0:
                raise Fail("image %s: GRreadimage failed on the closed file" % o["name"], program=prog)
            dt = np.dtype(NTS[o["nt"]][1])
            libbe = np.frombuffer(qq.res[ln["read"]].bufs[0], dtype=dt.newbyteorder("=")).astype(dt).tobytes()
            try:
                ind = R.logical(I["data"]) if I["data"] is not None else b""
            except h4read.Unsupported:
                ind = None
            except h4read.StructureError as e:
                raise Fail("image %s: independent reader: %s" % (o["name"], e), program=prog)
            if libbe != m["data"] or (ind is not None and ind[:len(libbe)] != libbe):
                raise Fail("image %s: content differs between library, independent reader and what was written" % o["name"],
                           layout=o["layout"], program=prog)
            if "n" in ln and I["data"] is not None:
                try:
                    exp = R.blocks(I["data"])
                    check_blocks("image %s" % o["name"], ln, exp)
                except h4read.Unsupported:
                    pass
            if "pal" in ln and (r(ln["pal"]) != 0 or qq.res[ln["pal"]].bufs[0] != m["pal"]):
                raise Fail("image %s: palette differs" % o["name"], program=prog)
            if "att" in ln:
                if r(ln["att"]) == -1:
                    raise Fail("image %s: GRgetattdatainfo failed" % o["name"], program=prog)
                off, = un_i32s(qq.res[ln["att"]].bufs[0])
                le, = un_i32s(qq.res[ln["att"]].bufs[1])
                if at(off, le) != m["attr"]:
                    raise Fail("image %s: bytes at the attribute's reported location are not its values" % o["name"],
                               program=prog)
        elif what == "an":
            used = {}
            for ty, texts_, l1, l2, l0 in ln["items"]:
                n_ = r(l0)
                text_ = qq.res[l1].bufs[0][:max(n_, 0)]
                used.setdefault(ty, [])
                if r(l1) != 0 or text_ not in texts_ or used[ty].count(text_) >= texts_.count(text_):
                    raise Fail("annotation: ANreadann differs from what was written", type=ty, program=prog)
                used[ty].append(text_)
                if r(l2) == -1:
                    raise Fail("annotation: ANgetdatainfo failed", type=ty, reader=rdr, program=prog)
                off, = un_i32s(qq.res[l2].bufs[0])
                le, = un_i32s(qq.res[l2].bufs[1])
                if at(off, le) != text_:
                    raise Fail("annotation: bytes at the reported raw location are not the text", type=ty, offset=off,
                               length=le, got=at(off, le)[:30].hex(), program=prog)
                kinds_ = {2: "file_label", 3: "file_desc", 0: "label"}
                if not any(a[0] == kinds_[ty] and a[2] == text_ for a in ind_ann):
                    raise Fail("annotation: not recovered by the independent reader", type=ty, program=prog)
                labels.add("datainfo_blocks")
    labels.add("files_checked")


def known_match(case, failure, entry):
    if not case.get("no_exclude"):
        return False
    if entry["key"] == "C02-datainfo-start-block":
        return failure.get("start", 0) > 0 and ("start_block" in failure.get("kind", "") or
                                                 "raw-location query returned a different number" in failure.get("kind", "") or
                                                 "raw locations differ" in failure.get("kind", ""))
    return False


RULE += (" " + 'Later extensions: one or two GR file (global) attributes; an optional final session that re-attaches a stored vgroup, removes a member (shorter record) and may set its first attribute -- the independent reader rejects records with unexplained trailing bytes.')
