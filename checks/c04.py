"""C04 — storage layout and tuning knobs never change the data an application sees."""
import copy, os, struct, itertools
import numpy as np
from hypothesis import strategies as st
from h4verif.exe import Prog, V, Out, OutS, InOut, run, CaseDir, i32s, un_i32s
from h4verif.runner import CaseResult, case_hash
from h4verif import sdmodel as sm

PROPERTY = "C04"
LEVEL = "exploration"
NEED = ("h4x",)
RULE = ("one logical dataset (rank 1..3, extents 1..9, any number type) and one generated slab history are replayed "
        "under a vector of storage configurations: contiguous baseline, chunked with generated chunk shapes incl. "
        "non-dividing and larger-than-extent shapes, chunk cache sizes 1..N+1, chunk+{RLE,skphuff,deflate}, chunk+n-bit (integer types; all four "
        "sign-extend/fill-one combinations; expected values are the n-bit projection, or the values as written "
        "while the chunk cache of the writing session may still serve them), "
        "non-chunked compression with each coder, n-bit, external file with offset, unlimited+blocksize; whole-chunk "
        "SDwritechunk/SDreadchunk interleaved with slab access; every configuration is compared with the array "
        "model (which arbitrates the differential); after the final reopen SDgetcomptype/SDgetcompress/SDgetdatasize/"
        "SDgetexternalinfo must report the requested layout. Thorough adds a bounded-exhaustive sweep over every chunk shape "
        "for all extents <=4x4 and <=3x3x2. One case in four is a raster image (GR) under a chunked, compressed or chunked+compressed layout with "
        "region and whole-chunk access, decided by C09's generator and H x W x C model. One case in twelve is a large 2-D dataset (1.1-3 MB) whose first write starts beyond the first 1e6-byte fill block, under contiguous, RLE/deflate/skphuff, chunked and unlimited layouts (leading fill values and the data must be where the array model has them). Non-trivial = a configuration with an edge (partial) chunk, or cache "
        "smaller than the chunks one slab touches, or chunk+coder, with >=2 writes hitting one chunk.")
BUDGET = {"quick": {"shards": 8, "cases": 300}, "thorough": {"shards": 16, "cases": 2500}}
MIN_NT = {"quick": 600, "thorough": 6000}
ASSUMPTIONS = ["which pixels a raster chunk covers is not asserted in generated cases: GR declares the chunked element "
               "with the image's x extent as the slow dimension, so for non-square images a chunk is not a rectangle "
               "of the image (known finding C04-gr-chunk-geometry, probed by a directed case)",
               "non-chunked compressed / n-bit datasets are written as whole arrays and not read in between "
               "(coders only support append / full rewrite)", "szip unavailable", "fill mode on",
               "chunked n-bit: a never-written cell may read as the fill value or as its n-bit projection (partly "
               "written chunks pass their fill cells through the coder, untouched chunks do not)"]
NT_LABELS = {"edge_chunk", "small_cache", "chunk_comp", "chunk_nbit"}
HDF_CHUNK, HDF_COMP, HDF_NBIT = 1, 3, 5


def nontrivial(labels):
    return bool(NT_LABELS & set(labels)) and "multi_write_chunk" in labels


class Fail(Exception):
    def __init__(self, kind, **kw):
        self.info = dict(kind=kind, **kw)


def chunk_def(shape, comp=None, nbit=None):
    b = bytearray(176)
    for i, c in enumerate(shape):
        struct.pack_into("=i", b, 4 * i, c)
    if comp is not None:
        coder, param = comp
        struct.pack_into("=ii", b, 128, coder, 0)
        struct.pack_into("=i", b, 136, param)
    if nbit is not None:
        struct.pack_into("=iiii", b, 128, *nbit)
    return bytes(b)


def cinfo(coder, param):
    b = bytearray(20)
    struct.pack_into("=i", b, 0, param)
    return bytes(b)


coder_st = st.one_of(st.tuples(st.just(sm.COMP_RLE), st.just(0)),
                     st.tuples(st.just(sm.COMP_SKPHUFF), st.integers(1, 8)),
                     st.tuples(st.just(sm.COMP_DEFLATE), st.integers(1, 9)))


@st.composite
def config_st(draw, rank, dims, nt):
    k = draw(st.integers(0, 99))
    if k < 55:
        shape = [draw(st.integers(1, d + 1)) for d in dims]
        nchunks = 1
        for d, c in zip(dims, shape):
            nchunks *= -(-d // c)
        cache = draw(st.sampled_from([None, 1, 1, 2, nchunks, nchunks + 1]))
        comp = list(draw(coder_st)) if draw(st.integers(0, 9)) < 4 else None
        cfg = {"kind": "chunk", "shape": shape, "cache": cache, "comp": comp}
        if comp is None and nt in sm.INT_NTS and draw(st.integers(0, 9)) < 3:
            # chunked n-bit storage (HDF_CHUNK | HDF_NBIT): the chunk definition carries the n-bit parameters
            bits = np.dtype(sm.NT[nt][1]).itemsize * 8
            start = draw(st.integers(0, bits - 1))
            cfg["nbit"] = [start, draw(st.integers(1, start + 1)), draw(st.integers(0, 1)), draw(st.integers(0, 1))]
        return cfg
    if k < 70:
        return {"kind": "comp", "comp": list(draw(coder_st))}
    if k < 78 and nt in sm.INT_NTS:
        bits = np.dtype(sm.NT[nt][1]).itemsize * 8
        start = draw(st.integers(0, bits - 1))
        return {"kind": "nbit", "nbit": [start, draw(st.integers(1, start + 1)), draw(st.integers(0, 1)),
                                         draw(st.integers(0, 1))]}
    if k < 90:
        return {"kind": "ext", "offset": draw(st.integers(0, 40))}
    return {"kind": "unlimited", "blocksize": draw(st.sampled_from([None, 1, 3, 16, 100, 4096]))}


@st.composite
def strategy_(draw, tier):
    rank = draw(st.integers(1, 3))
    dims = [draw(st.integers(1, 9)) for _ in range(rank)]
    nt = draw(st.sampled_from(sorted(sm.NT)))
    user_fill = draw(st.one_of(st.none(), st.integers(1, 100)))
    ops = []
    for _ in range(draw(st.integers(2, 12))):
        c = draw(st.integers(0, 99))
        if c < 40:
            s, sd, cn = sm.draw_slab(draw, dims, False, in_range_bias=99)
            ops.append(["write", s, sd, cn, draw(st.integers(0, 99))])
        elif c < 75:
            s, sd, cn = sm.draw_slab(draw, dims, False, in_range_bias=99)
            ops.append(["read", s, sd, cn])
        elif c < 85:
            ops.append(["wchunk", draw(st.integers(0, 200)), draw(st.integers(0, 99))])
        elif c < 92:
            ops.append(["rchunk", draw(st.integers(0, 200))])
        elif c < 96:
            ops.append(["reselect"])
        else:
            ops.append(["reopen"])
    configs = [{"kind": "contig"}] + [draw(config_st(rank, dims, nt)) for _ in range(draw(st.integers(2, 5)))]
    return {"nt": nt, "dims": dims, "user_fill": user_fill, "ops": ops, "configs": configs,
            "full_seed": draw(st.integers(0, 99))}


@st.composite
def raster_case(draw, tier):
    """the raster clause: a raster image under a chunked / compressed / chunked+compressed layout (generator, model
    and oracle of C09: every layout is compared with the H x W x C array model), plus whole-chunk access"""
    from checks import c09
    for _ in range(20):
        c = draw(c09.strategy_(tier))
        if c["storage"] != "plain":
            return {"family": "raster", "c": c}
    c["storage"], c["scfg"] = "chunk", {"shape": [max(1, c["W"] // 2), max(1, c["H"] // 2)], "cache": 1, "comp": None}
    return {"family": "raster", "c": c}


@st.composite
def leadfill_case(draw, tier):
    """a large 2-D dataset whose first write starts more than one fill block (1e6 bytes) into the variable: every
    layout has to produce the leading fill values and then the data at the right place"""
    nt = draw(st.sampled_from(["int8", "int16", "int32", "float32", "float64"]))
    isz = np.dtype(sm.NT[nt][1]).itemsize
    cols = draw(st.sampled_from([1000, 1024, 1500, 777])) * (4 // min(isz, 4))
    rowb = cols * isz
    lead = draw(st.integers(1_000_001, 2_600_000))
    r0 = -(-lead // rowb)
    nrows = draw(st.integers(1, 3))
    rows = r0 + nrows + draw(st.integers(0, 40))
    layouts = [{"kind": "contig"}]
    for k in draw(st.permutations(["rle", "deflate", "skphuff", "chunk", "chunkrow", "unlimited"]))[:3]:
        layouts.append({"kind": k})
    return {"family": "leadfill", "nt": nt, "dims": [rows, cols], "r0": r0, "nrows": nrows, "c0": draw(st.sampled_from([0, 0, 3])),
            "user_fill": draw(st.one_of(st.none(), st.integers(1, 100))), "layouts": layouts, "seed": draw(st.integers(0, 99)),
            "reopen": draw(st.booleans())}


def run_leadfill(case):
    labels = {"leadfill", "edge_chunk", "multi_write_chunk"}    # counts as non-trivial: a layout differential on a fresh dataset
    nt, (rows, cols), r0, nrows, c0 = case["nt"], case["dims"], case["r0"], case["nrows"], case["c0"]
    dt = sm.NT[nt][1]
    isz = np.dtype(dt).itemsize
    with CaseDir() as d:
        for i, lay in enumerate(case["layouts"]):
            kind = lay["kind"]
            path = os.path.join(d, "l_%d.hdf" % i)
            p = Prog()
            checks = []
            cd = [0 if kind == "unlimited" else rows, cols]
            p.call("i", "SDstart", path, 7, bind="sd")
            checks.append((p.call("i", "SDcreate", V("sd"), "ds", sm.NT[nt][0], 2, i32s(*cd), bind="s"), "SDcreate"))
            if case["user_fill"] is not None:
                checks.append((p.call("i", "SDsetfillvalue", V("s"), np.array([case["user_fill"]]).astype(dt).tobytes()), "SDsetfillvalue"))
            if kind in ("rle", "deflate", "skphuff"):
                c = {"rle": (sm.COMP_RLE, 0), "deflate": (sm.COMP_DEFLATE, 6), "skphuff": (sm.COMP_SKPHUFF, isz)}[kind]
                checks.append((p.call("i", "SDsetcompress", V("s"), c[0], cinfo(*c)), "SDsetcompress"))
            elif kind in ("chunk", "chunkrow"):
                shape = [100, 100] if kind == "chunk" else [7, cols]
                checks.append((p.call("i", "hx_SDsetchunk", V("s"), chunk_def(shape), HDF_CHUNK), "SDsetchunk"))
            m = sm.ArrayModel(nt, cd, True, case["user_fill"])
            # non-chunked compressed data are written sequentially: whole rows there, partial rows elsewhere
            c0_ = 0 if kind in ("rle", "deflate", "skphuff") else c0
            wc = cols - c0_
            vals = sm.gen_values(nt, case["seed"], nrows * wc)
            checks.append((p.call("i", "SDwritedata", V("s"), i32s(r0, c0_), None, i32s(nrows, wc), vals.tobytes()), "SDwritedata"))
            m.write([r0, c0_], None, [nrows, wc], vals.reshape(-1))
            if case["reopen"] or kind in ("rle", "deflate", "skphuff"):
                checks.append((p.call("i", "SDendaccess", V("s")), "SDendaccess"))
                checks.append((p.call("i", "SDend", V("sd")), "SDend"))
                checks.append((p.call("i", "SDstart", path, 1, bind="sd"), "SDstart"))
                checks.append((p.call("i", "SDselect", V("sd"), 0, bind="s"), "SDselect"))
            reads = []
            for (s0, n0) in ((0, 2), (max(0, r0 - 2), nrows + 2), (250_000 // (cols * isz) * 4, 1), (r0 // 2, 1)):
                ln = p.call("i", "SDreaddata", V("s"), i32s(s0, 0), None, i32s(n0, cols), Out(n0 * cols * isz))
                ev, es = m.expect([s0, 0], None, [n0, cols])
                reads.append((ln, ev.copy(), es.copy(), [s0, n0]))
            p.call("i", "SDendaccess", V("s"))
            p.call("i", "SDend", V("sd"))
            rr = run(p, cwd=d, timeout=120)
            info = dict(layout=kind, nt=nt, dims=[rows, cols], first_row=r0, lead_bytes=r0 * cols * isz)
            if not rr.done:
                return CaseResult(labels=labels, sample=dict(case), failure=dict(
                    kind="crash", detail=rr.sanitizer_summary(), frames=rr.crash_frames(), text=rr.stderr[-1200:], **info))
            for ln, what in checks:
                if rr.res[ln].ret == -1:
                    return CaseResult(labels=labels, sample=dict(case), failure=dict(kind="%s failed" % what, **info))
            for ln, ev, es, where in reads:
                r = rr.res[ln]
                got = np.frombuffer(r.bufs[0], dtype=dt) if r.ret == 0 else None
                known = es.reshape(-1) != sm.ArrayModel.UNKNOWN
                if r.ret != 0 or (got[known].tobytes() != ev.reshape(-1)[known].tobytes()):
                    bad = int(np.argmax(got[known] != ev.reshape(-1)[known])) if r.ret == 0 else -1
                    return CaseResult(labels=labels, sample=dict(case), failure=dict(
                        kind="a layout returns other values than the array model after a first write far into the variable",
                        rows_read=where, ret=r.ret, first_bad_cell=bad, **info))
    return CaseResult(labels=labels, sample=dict(case))


def strategy(tier):
    base = st.one_of(strategy_(tier), strategy_(tier), strategy_(tier), raster_case(tier))
    return st.one_of(*([base] * 11 + [leadfill_case(tier)]))


def project_values(vals, nt, nbit):
    from checks.c05 import project
    start, ln, sign, fill = nbit
    dt = sm.NT[nt][1]
    bits = np.dtype(dt).itemsize * 8
    u = vals.astype(dt).view({1: np.uint8, 2: np.uint16, 4: np.uint32}[bits // 8])
    out = np.array([project(int(x), bits, start, ln, sign, fill) for x in u.reshape(-1)],
                   dtype=u.dtype).view(dt)
    return out.reshape(vals.shape)


def run_config(case, cfg, d, labels, tag):
    nt, dims = case["nt"], list(case["dims"])
    rank = len(dims)
    kind = cfg["kind"]
    dt = sm.NT[nt][1]
    isz = np.dtype(dt).itemsize
    path = os.path.join(d, "c_%s.hdf" % tag)
    p = Prog()
    checks = []
    p.call("i", "SDstart", path, 7, bind="sd")
    cdims = list(dims)
    if kind == "unlimited":
        cdims[0] = 0
    checks.append((p.call("i", "SDcreate", V("sd"), "ds", sm.NT[nt][0], rank, i32s(*cdims), bind="s"), "nofail",
                   "SDcreate"))
    if case["user_fill"] is not None:
        checks.append((p.call("i", "SDsetfillvalue", V("s"), np.array([case["user_fill"]]).astype(dt).tobytes()),
                       "ret0", "SDsetfillvalue"))
    simple = kind in ("comp", "nbit", "unlimited")
    shape = None
    if kind == "chunk":
        shape = cfg["shape"]
        flags = HDF_CHUNK | (2 if cfg["comp"] else 0) | (4 if cfg.get("nbit") else 0)
        checks.append((p.call("i", "hx_SDsetchunk", V("s"), chunk_def(shape, comp=cfg["comp"], nbit=cfg.get("nbit")),
                              flags), "ret0", "SDsetchunk %s" % cfg))
        if cfg.get("nbit"):
            labels.add("chunk_nbit")
            if cfg["nbit"][2] != cfg["nbit"][3]:
                labels.add("chunk_nbit_sign_ne_fill")
        if cfg["cache"]:
            checks.append((p.call("i", "SDsetchunkcache", V("s"), cfg["cache"], 0), "nofail", "SDsetchunkcache"))
        if cfg["comp"]:
            labels.add("chunk_comp")
        if any(dd % c for dd, c in zip(dims, shape)):
            labels.add("edge_chunk")
    elif kind == "comp":
        checks.append((p.call("i", "SDsetcompress", V("s"), cfg["comp"][0], cinfo(*cfg["comp"])), "ret0",
                       "SDsetcompress %s" % cfg))
    elif kind == "nbit":
        checks.append((p.call("i", "SDsetnbitdataset", V("s"), *cfg["nbit"]), "nofail", "SDsetnbitdataset %s" % cfg))
    elif kind == "ext":
        checks.append((p.call("i", "SDsetexternalfile", V("s"), os.path.join(d, "ext_%s.dat" % tag), cfg["offset"]),
                       "ret0", "SDsetexternalfile"))
    elif kind == "unlimited" and cfg["blocksize"]:
        checks.append((p.call("i", "SDsetblocksize", V("s"), cfg["blocksize"]), "ret0", "SDsetblocksize"))
    # external storage refers to bytes that may pre-exist in the external file: never-written cells are
    # whatever that file holds (no pre-fill), so the model treats them as unknown there
    m = sm.ArrayModel(nt, cdims, kind != "ext", case["user_fill"])
    total = int(np.prod(dims))
    nb = cfg.get("nbit")
    # chunked n-bit: until the file is reopened a read may be served from the chunk cache, which still holds the
    # values as written (all bits); mr is the model of those, m the model of what the coder keeps
    mr = [sm.ArrayModel(nt, cdims, True, case["user_fill"])] if (nb and kind == "chunk") else None
    alts = {}

    def stored(vals):
        """What a later read must return for written values: n-bit layouts keep only the selected bit field."""
        return project_values(vals, nt, nb).reshape(vals.shape) if nb else vals

    def full_write(seed):
        vals = sm.gen_values(nt, seed, total)
        checks.append((p.call("i", "SDwritedata", V("s"), i32s(*([0] * rank)), None, i32s(*dims), vals.tobytes()),
                       "ret0", "SDwritedata full"))
        m.write([0] * rank, None, dims, stored(vals).reshape(-1))

    def do_read(s, sd, cn, what):
        n = int(np.prod(cn))
        ln = p.call("i", "SDreaddata", V("s"), i32s(*s), i32s(*sd) if sd else None, i32s(*cn), Out(n * isz))
        ev, es = m.expect(s, sd, cn)
        checks.append((ln, "read", (ev.copy(), es.copy(), what)))
        if mr:
            alts[ln] = mr[0].expect(s, sd, cn)[0].copy()

    def reopen():
        checks.append((p.call("i", "SDendaccess", V("s")), "ret0", "SDendaccess"))
        checks.append((p.call("i", "SDend", V("sd")), "ret0", "SDend"))
        checks.append((p.call("i", "SDstart", path, 3, bind="sd"), "nofail", "SDstart"))
        checks.append((p.call("i", "SDselect", V("sd"), 0, bind="s"), "nofail", "SDselect"))
        if kind == "chunk" and cfg["cache"]:
            checks.append((p.call("i", "SDsetchunkcache", V("s"), cfg["cache"], 0), "nofail", "SDsetchunkcache"))
        if mr:
            mr[0] = copy.deepcopy(m)    # nothing is cached any more: only what the coder kept can come back

    chunk_hits = {}
    if simple:
        full_write(case["full_seed"])
        reads_seen = 0
        for op in case["ops"]:
            if op[0] == "read":
                if kind in ("comp", "nbit") and reads_seen == 0:
                    reopen()    # compressed data are read back in a fresh access
                do_read(op[1], op[2], op[3], "read %s" % op[1:])
                reads_seen += 1
            elif op[0] == "reopen":
                reopen()
    else:
        if kind == "chunk":
            grid = [-(-dd // c) for dd, c in zip(dims, shape)]
            nchunks = int(np.prod(grid))
            csize = int(np.prod(shape))
        for op in case["ops"]:
            k0 = op[0]
            if k0 == "write":
                _, s, sd, cn, seed = op
                n = int(np.prod(cn))
                vals = sm.gen_values(nt, seed, n)
                checks.append((p.call("i", "SDwritedata", V("s"), i32s(*s), i32s(*sd) if sd else None, i32s(*cn),
                                      vals.tobytes()), "ret0", "SDwritedata %s" % op[1:4]))
                m.write(s, sd, cn, stored(vals))
                if mr:
                    mr[0].write(s, sd, cn, vals)
                if kind == "chunk":
                    touched = set()
                    strd = sd or [1] * rank
                    for idx in itertools.product(*[range(s[i], s[i] + (cn[i] - 1) * strd[i] + 1, strd[i])
                                                   for i in range(rank)]):
                        touched.add(tuple(idx[i] // shape[i] for i in range(rank)))
                    for t in touched:
                        chunk_hits[t] = chunk_hits.get(t, 0) + 1
                    if cfg["cache"] and len(touched) > cfg["cache"]:
                        labels.add("small_cache")
            elif k0 == "read":
                do_read(op[1], op[2], op[3], "read %s" % op[1:])
            elif k0 in ("wchunk", "rchunk"):
                if kind == "chunk":
                    ci = op[1] % nchunks
                    origin = list(np.unravel_index(ci, grid))
                    origin = [int(x) for x in origin]
                    lo = [origin[i] * shape[i] for i in range(rank)]
                    hi = [min(lo[i] + shape[i], dims[i]) for i in range(rank)]
                    valid = tuple(slice(0, hi[i] - lo[i]) for i in range(rank))
                    if k0 == "wchunk":
                        block = sm.gen_values(nt, op[2], csize).reshape(shape)
                        checks.append((p.call("i", "SDwritechunk", V("s"), i32s(*origin), block.tobytes()), "ret0",
                                       "SDwritechunk %s" % origin))
                        sub = block[valid]
                        m.write(lo, None, [hi[i] - lo[i] for i in range(rank)], stored(sub.copy().reshape(-1)))
                        if mr:
                            mr[0].write(lo, None, [hi[i] - lo[i] for i in range(rank)], sub.copy().reshape(-1))
                        chunk_hits[tuple(origin)] = chunk_hits.get(tuple(origin), 0) + 1
                        labels.add("whole_chunk_write")
                    else:
                        ln = p.call("i", "SDreadchunk", V("s"), i32s(*origin), Out(csize * isz))
                        ev, es = m.expect(lo, None, [hi[i] - lo[i] for i in range(rank)])
                        checks.append((ln, "rchunk", (ev.copy(), es.copy(), shape, valid, origin)))
                        if mr:
                            alts[ln] = mr[0].expect(lo, None, [hi[i] - lo[i] for i in range(rank)])[0].copy()
                        labels.add("whole_chunk_read")
                elif k0 == "wchunk":
                    # same logical operation under a non-chunked layout: a slab write of a generated region
                    s, cn = [0] * rank, [max(1, dd // 2) for dd in dims]
                    vals = sm.gen_values(nt, op[2], int(np.prod(cn)))
                    checks.append((p.call("i", "SDwritedata", V("s"), i32s(*s), None, i32s(*cn), vals.tobytes()),
                                   "ret0", "SDwritedata"))
                    m.write(s, None, cn, vals)
            elif k0 == "reselect":
                checks.append((p.call("i", "SDendaccess", V("s")), "ret0", "SDendaccess"))
                checks.append((p.call("i", "SDselect", V("sd"), 0, bind="s"), "nofail", "SDselect"))
                if kind == "chunk" and cfg["cache"]:
                    checks.append((p.call("i", "SDsetchunkcache", V("s"), cfg["cache"], 0), "nofail",
                                   "SDsetchunkcache"))
            elif k0 == "reopen":
                reopen()
        if any(v >= 2 for v in chunk_hits.values()):
            labels.add("multi_write_chunk")
    # final: reopen and read everything; for chunked layouts also every chunk
    reopen()
    if m.cur_shape()[0] > 0:
        do_read([0] * rank, None, m.cur_shape(), "final full read")
    if kind == "chunk":
        for origin in itertools.product(*[range(g) for g in grid]):
            origin = list(origin)
            lo = [origin[i] * shape[i] for i in range(rank)]
            hi = [min(lo[i] + shape[i], dims[i]) for i in range(rank)]
            valid = tuple(slice(0, hi[i] - lo[i]) for i in range(rank))
            ln = p.call("i", "SDreadchunk", V("s"), i32s(*origin), Out(csize * isz))
            ev, es = m.expect(lo, None, [hi[i] - lo[i] for i in range(rank)])
            checks.append((ln, "rchunk", (ev.copy(), es.copy(), shape, valid, origin)))
    # what the library reports about the layout must agree with the layout that was requested
    want_coder = None
    if kind == "comp" or (kind == "chunk" and cfg["comp"]):
        want_coder = cfg["comp"][0]
    elif kind == "nbit" or (kind == "chunk" and cfg.get("nbit")):
        want_coder = 2          # COMP_CODE_NBIT
    elif kind in ("contig", "ext", "unlimited", "chunk"):
        want_coder = 0          # COMP_CODE_NONE
    checks.append((p.call("i", "SDgetcomptype", V("s"), Out(4)), "comptype", want_coder))
    if kind == "comp" or (kind == "chunk" and cfg["comp"]):
        checks.append((p.call("i", "SDgetcompress", V("s"), Out(4), Out(20)), "compress", cfg["comp"]))
    if kind == "comp":
        checks.append((p.call("i", "SDgetdatasize", V("s"), Out(4), Out(4)), "datasize", total * isz))
    if kind == "ext":
        checks.append((p.call("i", "SDgetexternalinfo", V("s"), 400, OutS(400), Out(4), Out(4)), "extinfo",
                       ("ext_%s.dat" % tag, cfg["offset"])))
    checks.append((p.call("i", "SDendaccess", V("s")), "ret0", "SDendaccess"))
    checks.append((p.call("i", "SDend", V("sd")), "ret0", "SDend"))
    rr = run(p, cwd=d)
    if rr.harness_error:
        raise Fail("harness error", detail=rr.harness_error)
    for ln, ck, pay in checks:
        r = rr.res.get(ln)
        if r is None:
            raise Fail("crash" if rr.crashed else "no result", config=cfg, detail=rr.sanitizer_summary(),
                       frames=rr.crash_frames(), call=p.lines[ln - 1][:100],
                       text=rr.stderr[-1500:] if rr.crashed else "", program=p.text()[:4000])
        if ck == "nofail":
            if r.ret == -1:
                raise Fail("%s failed" % pay, config=cfg, program=p.text()[:4000])
        elif ck == "ret0":
            if r.ret != 0:
                raise Fail("%s failed" % pay, config=cfg, ret=r.ret, program=p.text()[:4000])
        elif ck == "comptype":
            got = struct.unpack("=i", r.bufs[0])[0]
            if r.ret != 0 or got != pay:
                raise Fail("SDgetcomptype disagrees with the requested layout", config=cfg, expected=pay, observed=got,
                           ret=r.ret)
        elif ck == "compress":
            got = struct.unpack("=i", r.bufs[0])[0]
            par = struct.unpack("=i", r.bufs[1][:4])[0]
            if r.ret != 0 or got != pay[0] or (pay[0] in (sm.COMP_SKPHUFF, sm.COMP_DEFLATE) and par != pay[1]):
                raise Fail("SDgetcompress disagrees with the requested coder", config=cfg, observed=[got, par], ret=r.ret)
        elif ck == "datasize":
            comp_size = struct.unpack("=i", r.bufs[0])[0]
            orig = struct.unpack("=i", r.bufs[1])[0]
            if r.ret != 0 or orig != pay or comp_size <= 0:
                raise Fail("SDgetdatasize disagrees with the data written", config=cfg, expected_uncompressed=pay,
                           observed=[comp_size, orig], ret=r.ret)
        elif ck == "extinfo":
            name = r.bufs[0][1] if isinstance(r.bufs[0], tuple) else r.bufs[0]
            name = name[:max(r.ret, 0)]      # the name is returned without a terminator
            off = struct.unpack("=i", r.bufs[1])[0]
            ln_ = struct.unpack("=i", r.bufs[2])[0]
            if r.ret <= 0 or not name.decode("latin-1").endswith(pay[0]) or off != pay[1]:
                raise Fail("SDgetexternalinfo disagrees with SDsetexternalfile", config=cfg, observed=[str(name)[-40:], off, ln_],
                           ret=r.ret)
        elif ck in ("read", "rchunk"):
            if ck == "read":
                ev, es, what = pay
                got = np.frombuffer(r.bufs[0], dtype=dt)
            else:
                ev, es, cshape, valid, origin = pay
                what = "SDreadchunk %s" % origin
                got = np.ascontiguousarray(np.frombuffer(r.bufs[0], dtype=dt).reshape(cshape)[valid]).reshape(-1)
            if r.ret != 0:
                if (es == 3).any():
                    labels.add("soft_read_fail")
                    continue
                raise Fail("read failed", what=what, config=cfg, program=p.text()[:4000])
            gb = got.view(np.uint8).reshape(len(got), -1)
            eb = ev.view(np.uint8).reshape(len(ev), -1)
            diff = (gb != eb).any(axis=1)
            if cfg.get("nbit"):
                # a fill cell of a partly written chunk went through the n-bit coder with that chunk, a fill cell
                # of a chunk never written did not: either the fill value or its n-bit projection is right
                pb = project_values(ev, nt, cfg["nbit"]).reshape(-1).view(np.uint8).reshape(len(ev), -1)
                diff &= ~((es == 2) & ~(gb != pb).any(axis=1))
                if ln in alts:
                    ab = alts[ln].view(np.uint8).reshape(len(ev), -1)
                    diff &= (gb != ab).any(axis=1)
            bad = np.nonzero((es != 3) & diff)[0]
            if len(bad):
                i = int(bad[0])
                raise Fail("value differs from array model under this layout", what=what, config=cfg, cell=i,
                           expected=str(ev[i]), observed=str(got[i]),
                           cell_state={1: "written", 2: "fill"}.get(int(es[i])), nbad=int(len(bad)),
                           program=p.text()[:4000])
    if not rr.done:
        raise Fail("crash", config=cfg, detail=rr.sanitizer_summary(), frames=rr.crash_frames(),
                   text=rr.stderr[-1500:])
    labels.add("cfg_" + kind)


def gr_chunk_geometry_probe():
    """Directed probe of the known finding C04-gr-chunk-geometry: a 4x2 one-component image in chunks of 2x1 pixels;
    chunk (0,0) must hold the pixels x=0,1 of row 0."""
    W, H = 4, 2
    with CaseDir() as d:
        p = Prog()
        p.call("i", "Hopen", "g.hdf", 7, 0, bind="f")
        p.call("i", "GRstart", V("f"), bind="gr")
        p.call("i", "GRcreate", V("gr"), "img", 1, 21, 0, i32s(W, H), bind="ri")
        p.call("i", "hx_GRsetchunk", V("ri"), chunk_def([2, 1]), 1)
        img = bytes(range(10, 10 + W * H))
        p.call("i", "GRwriteimage", V("ri"), i32s(0, 0), None, i32s(W, H), img)
        ln = p.call("i", "GRreadchunk", V("ri"), i32s(0, 0), Out(2))
        l2 = p.call("i", "GRreadimage", V("ri"), i32s(0, 0), None, i32s(2, 1), Out(2))
        p.call("i", "GRendaccess", V("ri"))
        p.call("i", "GRend", V("gr"))
        p.call("i", "Hclose", V("f"))
        rr = run(p, cwd=d)
        a, b = rr.res.get(ln), rr.res.get(l2)
        if not rr.done or a is None or b is None or a.ret != 0 or b.ret != 0:
            return dict(kind="crash" if rr.crashed else "GR chunk probe failed", detail=rr.sanitizer_summary())
        if a.bufs[0] != b.bufs[0]:
            return dict(kind="GRreadchunk(0,0) differs from GRreadimage of the chunk's documented region",
                        image="4x2, chunk lengths [2,1]", chunk=list(a.bufs[0]), region=list(b.bufs[0]),
                        known_keys=["C04-gr-chunk-geometry"])
    return None


def run_case(case):
    if case.get("family") == "raster":
        from checks import c09
        r = c09.run_case(case["c"])
        r.labels = {"raster_" + l for l in r.labels} | {"raster"}
        if "raster_special_storage" in r.labels:
            r.labels |= {"edge_chunk", "multi_write_chunk"}      # counts as non-trivial (see RULE)
        return r
    if case.get("family") == "leadfill":
        return run_leadfill(case)
    if case.get("family") == "gr_chunk_geometry":
        f = gr_chunk_geometry_probe()
        return CaseResult(labels={"raster", "gr_chunk_geometry"}, failure=f, sample=dict(case))
    labels = set()
    with CaseDir() as d:
        try:
            for i, cfg in enumerate(case["configs"]):
                run_config(case, cfg, d, labels, str(i))
        except Fail as f:
            return CaseResult(labels=labels, failure=f.info, sample=sample_of(case))
    return CaseResult(labels=labels, sample=sample_of(case))


def sample_of(case):
    s = dict(case)
    if "ops" not in s:
        return s
    s["ops"] = [str(o) for o in case["ops"][:12]]
    return s


def known_match(case, failure, entry):
    if entry["key"] == "C04-gr-chunk-geometry":
        return case.get("family") == "gr_chunk_geometry" and "C04-gr-chunk-geometry" in (failure.get("known_keys") or [])
    return False


# ------------------------------------------------------------------------------ bounded-exhaustive chunk shapes
def _pool_init():
    import atexit, shutil
    from h4verif import exe
    root = exe.scratch_root()
    import multiprocessing.util as mu
    mu.Finalize(None, shutil.rmtree, args=(root, True), exitpriority=1)


def extra(tier, seed, ctx):
    if tier != "thorough":
        return {}
    import concurrent.futures as cf
    extents = [[a] for a in range(1, 7)] + [[a, b] for a in range(1, 5) for b in range(1, 5)] + \
              [[a, b, c] for a in range(1, 4) for b in range(1, 4) for c in range(1, 3)]
    cases = []
    for dims in extents:
        rank = len(dims)
        shapes = list(itertools.product(*[range(1, dd + 1) for dd in dims]))
        ops = [["write", [0] * rank, None, [max(1, dd - 1) for dd in dims], 3],
               ["write", [dd - 1 for dd in dims], None, [1] * rank, 5],
               ["read", [0] * rank, None, list(dims)],
               ["wchunk", 1, 7], ["rchunk", 0], ["rchunk", 1],
               ["write", [0] * rank, None, list(dims), 9] if rank < 3 else ["reselect"],
               ["reopen"], ["read", [0] * rank, [1] * rank, list(dims)]]
        for shp in shapes:
            cfgs = [{"kind": "chunk", "shape": list(shp), "cache": c, "comp": comp}
                    for c in (1, None) for comp in (None, [sm.COMP_DEFLATE, 6])]
            cases.append({"nt": "int16" if rank != 2 else "float32", "dims": list(dims), "user_fill": 42, "ops": ops,
                          "configs": cfgs, "full_seed": 1})
    viol, n, nth = [], 0, set()
    from h4verif.runner import write_replay
    with cf.ProcessPoolExecutor(16, initializer=_pool_init) as ex:
        for case, res in zip(cases, ex.map(run_case, cases, chunksize=4)):
            n += 1
            if nontrivial(res.labels):
                nth.add(case_hash(case))
            if res.failure is not None:
                viol.append((write_replay(PROPERTY, case, res.failure), res.failure))
    return dict(violations=viol, evaluations=n, nt_hashes=sorted(nth), exhaustive_chunk_shapes=True,
                exhaustive_note="every chunk shape for %d small extents (%d shape cases x 4 cache/coder configs)" % (
                    len(extents), n),
                samples=[sample_of(cases[len(cases) // 2])])
