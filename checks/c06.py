"""C06 — number-type conversion is exact, byte-order-correct and mode-independent."""
import os, json, struct, subprocess
import numpy as np
from hypothesis import strategies as st
from h4verif.exe import Prog, V, Out, OutS, run, CaseDir, i32s, un_i32s, BUILD, scratch_root
from h4verif.runner import CaseResult, write_replay
from h4verif import sdmodel as sm

PROPERTY = "C06"
LEVEL = "exploration"
NEED = ("h4x",)
RULE = ("(enumerator, native C linked with the sanitized library) for each of 10 number types x {standard, "
        "little-endian, native} x both directions: all 2^8 / 2^16 patterns, and for 32-bit types 2^27 stratified "
        "patterns (quick; strata offset by VERIF_SEED) or all 2^32 (thorough, exhaustive=true per type), each "
        "checked against an independent shift-based byte-order reference, bit-exact round trip, in-place == "
        "out-of-place, strided (strides >= element size) == contiguous; float64: all single-bit, exponent-boundary, "
        "denormal, NaN-payload and 2^16..2^20 pseudo-random patterns. (cross-API, Hypothesis) small SDS written in "
        "each flavour, raw file bytes at the location reported by SDgetdatainfo compared with the reference byte "
        "order, values read back through SDreaddata. Every pattern is non-trivial; distinct = distinct patterns.")
BUDGET = {"quick": {"shards": 4, "cases": 120}, "thorough": {"shards": 8, "cases": 600}}
MIN_NT = {"quick": 1000, "thorough": 1000}
ASSUMPTIONS = ["little-endian IEEE host (x86-64): 'native' equals little-endian here",
               "strides where exactly one of source/destination stride is 0 are outside the callers' domain"]


def nontrivial(labels):
    return "crossapi" in labels


@st.composite
def strategy_(draw, tier):
    nt = draw(st.sampled_from(sorted(sm.NT)))
    flavour = draw(st.sampled_from(["std", "little", "native"]))
    n = draw(st.integers(1, 40))
    dt = sm.NT[nt][1]
    size = np.dtype(dt).itemsize
    raw = draw(st.binary(min_size=n * size, max_size=n * size))
    return {"nt": nt, "flavour": flavour, "n": n, "raw": raw.hex()}


def strategy(tier):
    return strategy_(tier)


def run_case(case):
    labels = {"crossapi"}
    nt, fl, n = case["nt"], case["flavour"], case["n"]
    dt = sm.NT[nt][1]
    size = np.dtype(dt).itemsize
    mem = bytes.fromhex(case["raw"])
    with CaseDir() as d:
        path = os.path.join(d, "x.hdf")
        p = Prog()
        p.call("i", "SDstart", path, 7, bind="sd")
        lc = p.call("i", "SDcreate", V("sd"), "v", sm.nt_code(nt, fl), 1, i32s(n), bind="s")
        lw = p.call("i", "SDwritedata", V("s"), i32s(0), None, i32s(n), mem)
        lr = p.call("i", "SDreaddata", V("s"), i32s(0), None, i32s(n), Out(n * size))
        p.call("i", "SDendaccess", V("s"))
        p.call("i", "SDend", V("sd"))
        p.call("i", "SDstart", path, 1, bind="sd")
        p.call("i", "SDselect", V("sd"), 0, bind="s")
        li = p.call("i", "SDgetdatainfo", V("s"), None, 0, 4, Out(16), Out(16))
        lr2 = p.call("i", "SDreaddata", V("s"), i32s(0), None, i32s(n), Out(n * size))
        p.call("i", "SDendaccess", V("s"))
        p.call("i", "SDend", V("sd"))
        rr = run(p, cwd=d)
        fail = None
        try:
            for ln in (lc, lw, lr, li, lr2):
                if ln not in rr.res:
                    raise RuntimeError("crash: " + rr.sanitizer_summary())
            if rr.res[lc].ret == -1 or rr.res[lw].ret != 0:
                raise RuntimeError("SDcreate/SDwritedata failed")
            for ln, what in ((lr, "same session"), (lr2, "after reopen")):
                if rr.res[ln].ret != 0 or rr.res[ln].bufs[0] != mem:
                    raise RuntimeError("values read back (%s) differ from values written" % what)
            r = rr.res[li]
            if r.ret != 1:
                raise RuntimeError("SDgetdatainfo returned %s blocks for a contiguous dataset" % r.ret)
            off = un_i32s(r.bufs[0])[0]
            ln_ = un_i32s(r.bufs[1])[0]
            if ln_ != n * size:
                raise RuntimeError("SDgetdatainfo length %d != %d" % (ln_, n * size))
            with open(path, "rb") as f:
                f.seek(off)
                rawfile = f.read(ln_)
            exp = bytearray()
            for i in range(n):
                e = mem[i * size:(i + 1) * size]
                exp += e[::-1] if fl == "std" else e
            if rawfile != bytes(exp):
                raise RuntimeError("raw file bytes do not have the designated byte order: file %s expected %s" % (
                    rawfile.hex()[:64], bytes(exp).hex()[:64]))
            if not rr.done:
                raise RuntimeError("crash: " + rr.sanitizer_summary())
        except RuntimeError as ex:
            fail = dict(kind=str(ex)[:300], program=p.text()[:2000])
    return CaseResult(labels=labels, failure=fail, sample={k: case[k] for k in ("nt", "flavour", "n")})


def known_match(case, failure, entry):
    return False


def extra(tier, seed, ctx):
    out = os.path.join(scratch_root(), "c06_enum.json")
    env = dict(os.environ)
    env["ASAN_OPTIONS"] = "detect_leaks=0"
    p = subprocess.run([os.path.join(BUILD, "c06_enum"), tier, str(seed), out, "16"], env=env,
                       stdout=subprocess.PIPE, stderr=subprocess.PIPE)
    if not os.path.exists(out):
        raise RuntimeError("c06_enum produced no output: %s" % p.stderr.decode()[-500:])
    with open(out) as f:
        d = json.load(f)
    viol = []
    if d["mismatches"] or d["crashed_workers"] or d["bad_workers"]:
        firsts = [t for t in d["types"] if t["mismatches"]]
        failure = dict(kind="conversion enumerator found mismatches", mismatches=d["mismatches"],
                       crashed_workers=d["crashed_workers"], first=[t["first"] for t in firsts][:6],
                       stderr=p.stderr.decode("latin-1")[-1500:])
        path = write_replay(PROPERTY, {"enumerator": True, "tier": tier, "seed": seed}, failure)
        viol.append((path, failure))
    return dict(violations=viol, evaluations=int(d["evaluations"]), nt_count=int(d["patterns"]),
                exhaustive=all(t["exhaustive"] for t in d["types"] if t["nt"] != "float64"),
                per_type=[{k: t[k] for k in ("nt", "flavour", "patterns", "exhaustive", "mismatches")}
                          for t in d["types"]],
                samples=[{"nt": "int32", "flavour": "standard", "pattern": "0x80000001", "modes":
                          "write+read contiguous, in place, strided"},
                         {"nt": "float64", "flavour": "little", "pattern": "0x7ff8000000000001 (NaN payload)"}])
