"""C09 — raster images and palettes round-trip for every region, interlace and type."""
import os, struct
import numpy as np
from hypothesis import strategies as st
from h4verif.exe import Prog, V, Out, OutS, InOut, run, CaseDir, i32s, un_i32s
from h4verif.runner import CaseResult
from h4verif import sdmodel as sm
from checks.c04 import chunk_def, cinfo

PROPERTY = "C09"
LEVEL = "exploration"
NEED = ("h4x",)
RULE = ("images with dims 1..12, 1..5 components, all number types, created with each of the three interlaces; "
        "optional FillValue attribute before the first write (an image with a fill value may be read before anything was written); histories of GRwriteimage rectangles/strides inside "
        "the image (buffers in the creation interlace), GRreqimageil x GRreadimage rectangles/strides (buffers in "
        "the requested interlace: 3x3 combinations), 256x3 palettes via GRwritelut/GRreqlutil/GRreadlut, "
        "GRsetcompress(RLE|skphuff|deflate) with whole-image writes, old-style RLE rasters written by DFR8 (up to 300 pixels wide, runs of 1..260 equal pixels) rewritten and read through GR, GRsetchunk (+coder, cache) with region writes and whole-chunk GRwritechunk/GRreadchunk (round trip per "
        "chunk; which pixels a chunk covers is not modelled), "
        "GRendaccess/GRend/reopen, GRgetiminfo/GRgetlutinfo/GRnametoindex/GRreftoindex; numpy HxWxC model with "
        "value/fill/unknown cells. Non-trivial = ncomp>=2 with a non-pixel interlace on either side and a "
        "non-square sub-rectangle, or a partial first write (fill), or compressed/chunked storage.")
BUDGET = {"quick": {"shards": 8, "cases": 600}, "thorough": {"shards": 16, "cases": 5000}}
MIN_NT = {"quick": 1500, "thorough": 20000}
ASSUMPTIONS = ["write/read regions lie inside the image (the GR interface does not bound-check regions)",
               "compressed non-chunked images are written as whole images, except that the first write of a new one may be a region", "JPEG/IMCOMP excluded (lossy)"]
NT_LABELS = {"interlace_nd", "partial_fill", "special_storage"}
PIXEL, LINE, COMP = 0, 1, 2


def nontrivial(labels):
    return bool(NT_LABELS & set(labels))


class Fail(Exception):
    def __init__(self, kind, **kw):
        self.info = dict(kind=kind, **kw)


def to_il(block, il):
    """block: (h, w, c) -> bytes in interlace il"""
    if il == PIXEL:
        a = block
    elif il == LINE:
        a = block.transpose(0, 2, 1)
    else:
        a = block.transpose(2, 0, 1)
    return np.ascontiguousarray(a).tobytes()


def from_il(buf, dt, h, w, c, il):
    a = np.frombuffer(buf, dtype=dt)
    if il == PIXEL:
        return a.reshape(h, w, c)
    if il == LINE:
        return a.reshape(h, c, w).transpose(0, 2, 1)
    return a.reshape(c, h, w).transpose(1, 2, 0)


def rle8_block(w, h, seed):
    """rows made of long uniform runs (lengths around the 120..130 boundary of the old RLE coder) and noise"""
    a = np.zeros((h, w), dtype=np.uint8)
    for y in range(h):
        x = 0
        k = seed + y
        while x < w:
            run = [1, 3, 119, 120, 121, 127, 128, 129, 150, 260][(k * 7 + x) % 10]
            a[y, x:x + run] = (k * 13 + x) % 251
            x += run
            k += 1
    return a


def draw_region(draw, W, H):
    sx = draw(st.integers(1, 3)) if draw(st.booleans()) else 1
    sy = draw(st.integers(1, 3)) if draw(st.booleans()) else 1
    x0 = draw(st.integers(0, W - 1))
    y0 = draw(st.integers(0, H - 1))
    cx = draw(st.integers(1, (W - 1 - x0) // sx + 1))
    cy = draw(st.integers(1, (H - 1 - y0) // sy + 1))
    stride = None if (sx == 1 and sy == 1 and draw(st.booleans())) else [sx, sy]
    return [x0, y0], stride, [cx, cy]


@st.composite
def strategy_(draw, tier):
    W, H = draw(st.integers(1, 12)), draw(st.integers(1, 12))
    ncomp = draw(st.sampled_from([1, 1, 2, 3, 3, 4, 5]))
    nt = draw(st.sampled_from(sorted(sm.NT)))
    il = draw(st.sampled_from([PIXEL, PIXEL, LINE, COMP]))
    storage = draw(st.sampled_from(["plain"] * 5 + ["comp", "comp", "chunk", "chunk", "chunkcomp", "rle8"]))
    scfg = None
    if storage == "rle8":
        # an old-style run-length compressed 8-bit raster written by DFR8 and then accessed through GR; wide enough
        # for runs longer than the coder's 7-bit count
        W, H = draw(st.sampled_from([3, 130, 200, 300])), draw(st.integers(1, 5))
        ncomp, nt, il = 1, "uint8", PIXEL
    if storage == "comp":
        scfg = {"comp": draw(st.sampled_from([[1, 0], [3, 1], [3, 2], [4, 1], [4, 6], [4, 9]]))}
    elif storage in ("chunk", "chunkcomp"):
        scfg = {"shape": [draw(st.integers(1, W + 1)), draw(st.integers(1, H + 1))],
                "cache": draw(st.sampled_from([None, 1, 2, 5])),
                "comp": draw(st.sampled_from([[1, 0], [3, 2], [4, 6]])) if storage == "chunkcomp" else None}
    fill = None
    if draw(st.booleans()) and storage != "rle8":
        fill = [draw(st.integers(1, 100)) for _ in range(ncomp)]
    ops = []
    for _ in range(draw(st.integers(2, 12))):
        c = draw(st.integers(0, 99))
        if storage in ("chunk", "chunkcomp") and c < 14:
            # whole-chunk access; chunk indices are reduced modulo the chunk grid when the program is built
            if c < 7:
                ops.append(["wchunk", draw(st.integers(0, 20)), draw(st.integers(0, 20)), draw(st.integers(0, 99))])
            else:
                ops.append(["rchunk", draw(st.integers(0, 20)), draw(st.integers(0, 20)),
                            draw(st.sampled_from([PIXEL, PIXEL, LINE, COMP]))])
        elif c < 35:
            if storage == "comp" and not any(o[0] == "write" for o in ops) and draw(st.integers(0, 2)) == 0:
                # the FIRST write of a new compressed image may be a region: fill values around it
                s, sd, cn = draw_region(draw, W, H)
                ops.append(["write", s, sd, cn, draw(st.integers(0, 99))])
            elif storage in ("comp", "rle8"):
                ops.append(["write", [0, 0], None, [W, H], draw(st.integers(0, 99))])
            else:
                s, sd, cn = draw_region(draw, W, H)
                ops.append(["write", s, sd, cn, draw(st.integers(0, 99))])
        elif c < 70:
            s, sd, cn = draw_region(draw, W, H)
            ops.append(["read", s, sd, cn, draw(st.sampled_from([PIXEL, PIXEL, LINE, COMP]))])
        elif c < 78:
            ops.append(["lutw", draw(st.integers(0, 99)), draw(st.sampled_from([PIXEL, PIXEL, LINE, COMP]))])
        elif c < 85:
            ops.append(["lutr", draw(st.sampled_from([PIXEL, COMP]))])   # line interlace of a palette is ambiguous
        elif c < 90:
            ops.append(["info"])
        elif c < 94:
            ops.append(["reselect"])
        else:
            ops.append(["reopen"])
    return {"W": W, "H": H, "ncomp": ncomp, "nt": nt, "il": il, "storage": storage, "scfg": scfg, "fill": fill,
            "ops": ops}


def strategy(tier):
    return strategy_(tier)


def run_case(case):
    labels = set()
    W, H, C = case["W"], case["H"], case["ncomp"]
    nt = case["nt"]
    dt = sm.NT[nt][1]
    isz = np.dtype(dt).itemsize
    storage = case["storage"]
    val = np.zeros((H, W, C), dtype=dt)
    stt = np.zeros((H, W, C), dtype=np.uint8)      # 0 untouched, 1 known, 2 fill, 3 unknown
    fillv = np.zeros(C, dtype=dt)
    if case["fill"] is not None:
        fillv = np.array(case["fill"]).astype(dt)
    lut = None
    with CaseDir() as d:
        path = os.path.join(d, "r.hdf")
        p = Prog()
        checks = []
        if storage == "rle8":
            img0 = rle8_block(W, H, 1)
            checks.append((p.call("i", "DFR8addimage", path, img0.tobytes(), W, H, 11), "ret0", "DFR8addimage RLE"))
            checks.append((p.call("i", "DFR8restart"), "ret0", "DFR8restart"))
            p.call("i", "Hopen", path, 3, 0, bind="f")
            checks.append((p.call("i", "GRstart", V("f"), bind="gr"), "nofail", "GRstart"))
            checks.append((p.call("i", "GRselect", V("gr"), 0, bind="ri"), "nofail", "GRselect"))
            val[:, :, 0] = img0
            stt[:] = 1
            labels.add("special_storage")
            labels.add("old_style_rle")
        else:
            p.call("i", "Hopen", path, 7, 0, bind="f")
            checks.append((p.call("i", "GRstart", V("f"), bind="gr"), "nofail", "GRstart"))
            checks.append((p.call("i", "GRcreate", V("gr"), "img", C, sm.NT[nt][0], case["il"], i32s(W, H), bind="ri"),
                           "nofail", "GRcreate"))
        if case["fill"] is not None:
            checks.append((p.call("i", "GRsetattr", V("ri"), "FillValue", sm.NT[nt][0], C, fillv.tobytes()), "ret0",
                           "GRsetattr FillValue"))
        if storage == "comp":
            checks.append((p.call("i", "GRsetcompress", V("ri"), case["scfg"]["comp"][0], cinfo(*case["scfg"]["comp"])),
                           "ret0", "GRsetcompress %s" % case["scfg"]))
            labels.add("special_storage")
        elif storage in ("chunk", "chunkcomp"):
            sc = case["scfg"]
            flags = 1 | (2 if sc["comp"] else 0)
            # chunk lengths are given in the order [y, x]?  the GR interface documents [xdim, ydim]
            checks.append((p.call("i", "hx_GRsetchunk", V("ri"), chunk_def(sc["shape"], comp=sc["comp"]), flags),
                           "ret0", "GRsetchunk %s" % sc))
            if sc["cache"]:
                checks.append((p.call("i", "GRsetchunkcache", V("ri"), sc["cache"], 0), "nofail", "GRsetchunkcache"))
            labels.add("special_storage")
        cur_il = case["il"]         # interlace in which GRwriteimage interprets buffers
        last_chunk = {}             # chunk index -> block last written with GRwritechunk (until the next GRwriteimage)
        written = storage == "rle8"
        dirty = False
        excluded = []
        known_keys = set()
        checks.append((p.call("u", "GRidtoref", V("ri"), bind="riref"), "nofail0", "GRidtoref"))

        def reattach_settings():
            if storage in ("chunk", "chunkcomp") and case["scfg"]["cache"]:
                checks.append((p.call("i", "GRsetchunkcache", V("ri"), case["scfg"]["cache"], 0), "nofail",
                               "GRsetchunkcache"))

        for op in case["ops"]:
            k = op[0]
            if k == "write":
                _, s, sd, cn, seed = op
                cx, cy = cn
                if storage == "comp" and case["scfg"]["comp"][0] == 3 and written and not dirty:
                    # known finding (root cause in the bit-I/O layer, see C05-skphuff-read-then-rewrite): a
                    # skipping-Huffman image rewritten in a later access keeps its old pixels
                    if not case.get("no_exclude"):
                        excluded.append("C09-skphuff-image-rewrite")
                        continue
                    known_keys.add("C09-skphuff-image-rewrite")
                strd = sd or [1, 1]
                block = sm.gen_values(nt, seed, cy * cx * C).reshape(cy, cx, C)
                if storage == "rle8":
                    block = rle8_block(cx, cy, seed).reshape(cy, cx, 1)
                checks.append((p.call("i", "GRwriteimage", V("ri"), i32s(*s), i32s(*sd) if sd else None, i32s(*cn),
                                      to_il(block, cur_il)), "ret0", "GRwriteimage %s/%s/%s" % (s, sd, cn)))
                dirty = True
                last_chunk.clear()
                if not written:
                    written = True
                    stt[stt == 0] = 2
                    if cx * cy < W * H:
                        labels.add("partial_fill")
                ys = slice(s[1], s[1] + (cy - 1) * strd[1] + 1, strd[1])
                xs = slice(s[0], s[0] + (cx - 1) * strd[0] + 1, strd[0])
                val[ys, xs, :] = block
                stt[ys, xs, :] = 1
                if C >= 2 and cur_il != PIXEL and cx != cy:
                    labels.add("interlace_nd")
            elif k == "read":
                _, s, sd, cn, ril = op
                if not written and (case["fill"] is None or storage != "plain"):
                    continue     # an image without data and without a fill value: content not defined
                if not written:
                    labels.add("read_before_any_write")
                cx, cy = cn
                strd = sd or [1, 1]
                if storage == "comp" and dirty:
                    # compressed images are read back through a fresh access (coders buffer written data)
                    checks.append((p.call("i", "GRendaccess", V("ri")), "ret0", "GRendaccess"))
                    checks.append((p.call("i", "GRselect", V("gr"), 0, bind="ri"), "nofail", "GRselect"))
                    dirty = False
                checks.append((p.call("i", "GRreqimageil", V("ri"), ril), "ret0", "GRreqimageil"))
                ln = p.call("i", "GRreadimage", V("ri"), i32s(*s), i32s(*sd) if sd else None, i32s(*cn),
                            Out(cx * cy * C * isz))
                ys = slice(s[1], s[1] + (cy - 1) * strd[1] + 1, strd[1])
                xs = slice(s[0], s[0] + (cx - 1) * strd[0] + 1, strd[0])
                ev = val[ys, xs, :].copy()
                es = stt[ys, xs, :].copy()
                if not written:
                    es[:] = 2        # no data yet: the image reads as its fill value
                for c in range(C):
                    ev[..., c][es[..., c] == 2] = fillv[c]
                checks.append((ln, "read", (ev, es, cy, cx, ril, "GRreadimage %s/%s/%s il=%d" % (s, sd, cn, ril))))
                if C >= 2 and ril != PIXEL and cx != cy:
                    labels.add("interlace_nd")
            elif k in ("wchunk", "rchunk"):
                if storage not in ("chunk", "chunkcomp") or not written:
                    continue
                c0, c1 = case["scfg"]["shape"]
                # GRsetchunk declares dimension 0 with the image's x extent and dimension 1 with its y extent
                i0, i1 = op[1] % (-(-W // c0)), op[2] % (-(-H // c1))
                if k == "wchunk":
                    blk = sm.gen_values(nt, op[3], c1 * c0 * C).reshape(c1, c0, C)
                    checks.append((p.call("i", "GRwritechunk", V("ri"), i32s(i0, i1), to_il(blk, cur_il)), "ret0",
                                   "GRwritechunk %s" % [i0, i1]))
                    # which pixels of the image a chunk holds is not modelled: everything becomes unknown
                    stt[:] = 3
                    last_chunk[(i0, i1)] = blk
                    dirty = True
                    labels.add("whole_chunk_write")
                else:
                    ril = op[3]
                    # the same chunk read in pixel interlace and in the requested interlace must hold the same pixels
                    checks.append((p.call("i", "GRreqimageil", V("ri"), PIXEL), "ret0", "GRreqimageil"))
                    ln0 = p.call("i", "GRreadchunk", V("ri"), i32s(i0, i1), Out(c0 * c1 * C * isz))
                    checks.append((ln0, "rchunk", (last_chunk.get((i0, i1)), c1, c0, PIXEL, [i0, i1], None)))
                    checks.append((p.call("i", "GRreqimageil", V("ri"), ril), "ret0", "GRreqimageil"))
                    ln = p.call("i", "GRreadchunk", V("ri"), i32s(i0, i1), Out(c0 * c1 * C * isz))
                    checks.append((ln, "rchunk", (last_chunk.get((i0, i1)), c1, c0, ril, [i0, i1], ln0)))
                    labels.add("whole_chunk_read")
            elif k == "lutw":
                seed, lil = op[1], op[2]
                if not written:
                    continue
                data = sm.gen_values("uint8", seed, 256 * 3).reshape(256, 3)
                checks.append((p.call("i", "GRgetlutid", V("ri"), 0, bind="lut"), "nofail", "GRgetlutid"))
                # palette data are handed over in pixel interlace
                checks.append((p.call("i", "GRwritelut", V("lut"), 3, 21, PIXEL, 256, data.tobytes()), "ret0",
                               "GRwritelut"))
                lut = data
                labels.add("palette")
            elif k == "lutr":
                if lut is None:
                    continue
                lil = op[1]
                checks.append((p.call("i", "GRgetlutid", V("ri"), 0, bind="lut"), "nofail", "GRgetlutid"))
                checks.append((p.call("i", "GRreqlutil", V("lut"), lil), "ret0", "GRreqlutil"))
                ln = p.call("i", "GRreadlut", V("lut"), Out(768))
                checks.append((ln, "lut", (lut.copy(), lil)))
                ln = p.call("i", "GRgetlutinfo", V("lut"), Out(4), Out(4), Out(4), Out(4))
                checks.append((ln, "lutinfo", None))
            elif k == "info":
                ln = p.call("i", "GRgetiminfo", V("ri"), OutS(300), Out(4), Out(4), Out(4), Out(8), Out(4))
                checks.append((ln, "info", None))
                if storage == "rle8":
                    continue
                checks.append((p.call("i", "GRnametoindex", V("gr"), "img"), "retn", (0, "GRnametoindex")))
                checks.append((p.call("i", "GRreftoindex", V("gr"), V("riref")), "retn", (0, "GRreftoindex")))
            elif k == "reselect":
                checks.append((p.call("i", "GRendaccess", V("ri")), "ret0", "GRendaccess"))
                checks.append((p.call("i", "GRselect", V("gr"), 0, bind="ri"), "nofail", "GRselect"))
                reattach_settings()
                dirty = False
            elif k == "reopen":
                checks.append((p.call("i", "GRendaccess", V("ri")), "ret0", "GRendaccess"))
                checks.append((p.call("i", "GRend", V("gr")), "ret0", "GRend"))
                checks.append((p.call("i", "Hclose", V("f")), "ret0", "Hclose"))
                checks.append((p.call("i", "Hopen", path, 3, 0, bind="f"), "nofail", "Hopen"))
                checks.append((p.call("i", "GRstart", V("f"), bind="gr"), "nofail", "GRstart"))
                checks.append((p.call("i", "GRselect", V("gr"), 0, bind="ri"), "nofail", "GRselect"))
                reattach_settings()
                cur_il = PIXEL     # the stored interlace is pixel; the creation interlace is not persistent
                dirty = False
                labels.add("reopen")
                if not written:
                    # an image without data does not survive reopen as a writable object in all cases: stop here
                    break
        # final: reopen read-only and read the whole image in each interlace
        checks.append((p.call("i", "GRendaccess", V("ri")), "ret0", "GRendaccess"))
        checks.append((p.call("i", "GRend", V("gr")), "ret0", "GRend"))
        checks.append((p.call("i", "Hclose", V("f")), "ret0", "Hclose"))
        if written:
            checks.append((p.call("i", "Hopen", path, 1, 0, bind="f"), "nofail", "Hopen"))
            checks.append((p.call("i", "GRstart", V("f"), bind="gr"), "nofail", "GRstart"))
            checks.append((p.call("i", "GRselect", V("gr"), 0, bind="ri"), "nofail", "GRselect"))
            ln = p.call("i", "GRgetiminfo", V("ri"), OutS(300), Out(4), Out(4), Out(4), Out(8), Out(4))
            checks.append((ln, "info", None))
            if storage in ("chunk", "chunkcomp"):
                # a whole chunk read as the first access through the read-only file
                c0_, c1_ = case["scfg"]["shape"]
                ln = p.call("i", "GRreadchunk", V("ri"), i32s(0, 0), Out(c0_ * c1_ * C * isz))
                checks.append((ln, "rchunk", (None, c1_, c0_, PIXEL, [0, 0], None)))
            for ril in (PIXEL, LINE, COMP):
                checks.append((p.call("i", "GRreqimageil", V("ri"), ril), "ret0", "GRreqimageil"))
                ln = p.call("i", "GRreadimage", V("ri"), i32s(0, 0), None, i32s(W, H), Out(W * H * C * isz))
                ev = val.copy()
                for c in range(C):
                    ev[..., c][stt[..., c] == 2] = fillv[c]
                checks.append((ln, "read", (ev, stt.copy(), H, W, ril, "final full read il=%d" % ril)))
            if lut is not None:
                checks.append((p.call("i", "GRgetlutid", V("ri"), 0, bind="lut"), "nofail", "GRgetlutid"))
                ln = p.call("i", "GRreadlut", V("lut"), Out(768))
                checks.append((ln, "lut", (lut.copy(), PIXEL)))
            checks.append((p.call("i", "GRendaccess", V("ri")), "ret0", "GRendaccess"))
            checks.append((p.call("i", "GRend", V("gr")), "ret0", "GRend"))
            checks.append((p.call("i", "Hclose", V("f")), "ret0", "Hclose"))
        rr = run(p, cwd=d)
        try:
            if rr.harness_error:
                raise Fail("harness error", detail=rr.harness_error)
            for ln, ck, pay in checks:
                r = rr.res.get(ln)
                if r is None:
                    raise Fail("crash" if rr.crashed else "no result", detail=rr.sanitizer_summary(),
                               frames=rr.crash_frames(), call=p.lines[ln - 1][:100],
                               text=rr.stderr[-1500:] if rr.crashed else "")
                if ck == "nofail":
                    if r.ret == -1:
                        raise Fail("%s failed" % pay)
                elif ck == "nofail0":
                    if r.ret == 0:
                        raise Fail("%s failed" % pay)
                elif ck == "ret0":
                    if r.ret != 0:
                        raise Fail("%s failed" % pay, ret=r.ret)
                elif ck == "retn":
                    if r.ret != pay[0]:
                        raise Fail("%s returned %s, expected %s" % (pay[1], r.ret, pay[0]))
                elif ck == "read":
                    ev, es, h, w, ril, what = pay
                    if r.ret != 0:
                        raise Fail("GRreadimage failed", what=what)
                    got = from_il(r.bufs[0], dt, h, w, C, ril)
                    gb = np.ascontiguousarray(got).view(np.uint8).reshape(h, w, C, isz)
                    eb = np.ascontiguousarray(ev).view(np.uint8).reshape(h, w, C, isz)
                    bad = np.argwhere((es != 3) & (gb != eb).any(axis=3))
                    if len(bad):
                        y, x, c = [int(v) for v in bad[0]]
                        raise Fail("GRreadimage value differs from image model", what=what, at=[y, x, c],
                                   expected=str(ev[y, x, c]), observed=str(got[y, x, c]),
                                   cell_state={0: "untouched", 1: "written", 2: "fill"}[int(es[y, x, c])],
                                   nbad=int(len(bad)))
                elif ck == "rchunk":
                    blk, ch, cw, ril, org, ln_pix = pay
                    if r.ret != 0:
                        raise Fail("GRreadchunk failed", chunk=org)
                    if ln_pix is not None:
                        a_ = from_il(r.bufs[0], dt, ch, cw, C, ril)
                        b_ = from_il(rr.res[ln_pix].bufs[0], dt, ch, cw, C, PIXEL)
                        if np.ascontiguousarray(a_).tobytes() != np.ascontiguousarray(b_).tobytes():
                            raise Fail("GRreadchunk in the requested interlace does not hold the pixels of the same "
                                       "chunk read in pixel interlace", chunk=org, read_interlace=ril)
                    if blk is not None:
                        got = from_il(r.bufs[0], dt, ch, cw, C, ril)
                        if got.tobytes() != np.ascontiguousarray(blk).tobytes():
                            raise Fail("GRreadchunk does not return the chunk GRwritechunk stored", chunk=org,
                                       read_interlace=ril)
                elif ck == "lut":
                    data, lil = pay
                    if r.ret != 0:
                        raise Fail("GRreadlut failed")
                    got = from_il(r.bufs[0], np.uint8, 1, 256, 3, lil).reshape(256, 3)
                    if not (got == data).all():
                        raise Fail("GRreadlut differs from palette written", interlace=lil)
                elif ck == "lutinfo":
                    v = [struct.unpack("=i", b)[0] for b in r.bufs]
                    if r.ret != 0 or v[0] != 3 or (v[1] & 0xff) not in (21, 3) or v[3] != 256:   # uint8 / uchar8: same bytes
                        raise Fail("GRgetlutinfo differs", observed=v)
                elif ck == "info":
                    if r.ret != 0:
                        raise Fail("GRgetiminfo failed")
                    nc = struct.unpack("=i", r.bufs[1])[0]
                    gnt = struct.unpack("=i", r.bufs[2])[0]
                    gd = un_i32s(r.bufs[4])
                    if storage == "rle8":
                        # images written by DFR8 get a generated name and are presented as 8-bit characters
                        ok_ = r.bufs[0].startswith(b"Raster Image") and nc == 1 and (gnt & 0xff) in (3, 21) and \
                            gd == [W, H]
                    else:
                        ok_ = r.bufs[0] == b"img" and nc == C and (gnt & 0xff) == sm.NT[nt][0] and gd == [W, H]
                    if not ok_:
                        raise Fail("GRgetiminfo differs", observed=[str(r.bufs[0]), nc, gnt, gd],
                                   expected=["img", C, sm.NT[nt][0], [W, H]])
            if not rr.done:
                raise Fail("crash", detail=rr.sanitizer_summary(), frames=rr.crash_frames(), text=rr.stderr[-1500:])
        except Fail as f:
            info = f.info
            info["known_keys"] = sorted(known_keys)
            info["program"] = p.text()[:4000]
            return CaseResult(labels=labels, failure=info, sample=sample_of(case), excluded=excluded)
    return CaseResult(labels=labels, sample=sample_of(case), excluded=excluded)


def sample_of(case):
    s = dict(case)
    s["ops"] = [str(o) for o in case["ops"][:12]]
    return s


def known_match(case, failure, entry):
    return bool(case.get("no_exclude")) and entry["key"] in failure.get("known_keys", [])
