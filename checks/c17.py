"""C17 — a crash while adding objects never damages what was already in the file (crash-point enumeration)."""
import os, json, struct
from hypothesis import strategies as st
from h4verif.exe import Prog, V, Out, OutS, run_text, run, CaseDir, i32s
from h4verif.runner import CaseResult
from h4verif import workloads as wl, h4fmt

PROPERTY = "C17"
LEVEL = "fault_enumeration"
NEED = ("h4x",)
RULE = ("base files built by the workload library (H elements incl. linked blocks and several DD blocks, Vdata+Vgroup, "
        "SD datasets, GR images, annotations; a DFSD-written file whose datasets are described by NDG groups only) with generated DD-block sizes; generated append-only sessions (new H "
        "elements of generated sizes, enough to need new DD blocks; new Vdatas/Vgroups; a new SDS; a new GR image; new "
        "annotations; members added to an existing Vgroup and attributes added to an existing Vdata, whose "
        "headers are rewritten through descriptor reuse; appending records into the unused tail of an existing "
        "Vdata's last linked block, or changing the class of an existing Vdata (header of unchanged or smaller size, "
        "rewritten in place) are not generated: they change an existing object rather than adding one) run once under the ordered stdio write log of the HDF stream; part 1: every write logged before "
        "the flush (the marker placed before the closing call, or, if later, the first write into a descriptor "
        "block of the base file: the closing call of SD/GR/AN sessions first appends its new metadata) starts at or beyond used_end(base) computed from the base file's descriptors by the "
        "independent reader; part 2: for every prefix of the write log (H/V sessions: all prefixes incl. inside the "
        "flush; SD/GR/AN sessions: prefixes before the flush) the image base+prefix is materialised, parsed by the "
        "independent reader, opened by the library in a fresh process, and every pre-existing element must read "
        "back byte-identical. Non-trivial = session creates a new DD block, or the cut lies inside the flush.")
BUDGET = {"quick": {"shards": 8, "cases": 18}, "thorough": {"shards": 16, "cases": 250}}
MIN_NT = {"quick": 500, "thorough": 10000}
ASSUMPTIONS = ["crash model of the property: a prefix of the ordered, atomic stdio writes on the HDF stream",
               "DD caching at its default (on)"]
BASES = ["h_elements", "vdata_vgroup", "sd_basic", "gr", "an", "h_many", "dfsd", "h_maxref", "h_dense"]
SESSIONS = ["h_append", "v_append", "sd_append", "gr_append", "an_append", "v_edit", "h_newref"]
ALL_PREFIX = {"h_append", "v_append", "h_newref"}


def nontrivial(labels):
    return "new_dd_block" in labels or "cut_in_flush" in labels


class Fail(Exception):
    def __init__(self, kind, **kw):
        self.info = dict(kind=kind, **kw)


def base_program(name, ndds):
    if name == "h_many":
        p = Prog()
        p.call("i", "Hopen", "f.hdf", 7, ndds, bind="f")
        for i in range(1, 8):
            p.call("i", "Hputelement", V("f"), 900, i, bytes([i]) * (i * 3), i * 3)
        # a descriptor without data of its own: with 4 descriptors per block it opens a new descriptor block,
        # which is then the last thing in the file
        p.call("i", "Hdupdd", V("f"), 901, 1, 900, 1)
        p.call("i", "Hclose", V("f"))
        return p, "f.hdf"
    if name == "h_maxref":
        # the reference space has been used up to 65535 and the descriptors are not in ascending order of
        # reference: new references have to be searched for
        p = Prog()
        p.call("i", "Hopen", "f.hdf", 7, ndds, bind="f")
        for r_ in (1, 3, 2, 65535):
            p.call("i", "Hputelement", V("f"), 950, r_, bytes([65 + (r_ % 7)]) * 16, 16)
        p.call("i", "Hclose", V("f"))
        return p, "f.hdf"
    if name == "h_dense":
        # one tag with a long dense run of references followed (in descriptor order) by a far larger one: the
        # per-tag table of references in use is grown in a jump when the file is loaded
        p = Prog()
        k_ = {0: 130, 4: 133, 5: 141, 16: 200}.get(ndds, 130)
        p.call("i", "Hopen", "f.hdf", 7, ndds, bind="f")
        for r_ in list(range(1, k_ + 1)) + [1000]:
            p.call("i", "Hputelement", V("f"), 950, r_, bytes([r_ & 0xff, 0x33]) * 3, 6)
        p.call("i", "Hclose", V("f"))
        return p, "f.hdf"
    if name == "dfsd":
        # a file whose datasets are described by old-style NDG groups only (written by the DFSD interface),
        # with strings, range and a dimension scale so that the groups have several members
        p = Prog()
        import numpy as _np
        for k in range(2):
            dims = [3, 4] if k == 0 else [5]
            a = (_np.arange(int(_np.prod(dims)), dtype=">f4") + k).astype("=f4")
            p.call("i", "DFSDclear")
            p.call("i", "DFSDsetNT", 5)
            p.call("i", "DFSDsetdims", len(dims), i32s(*dims))
            p.call("i", "DFSDsetdatastrs", "lab%d" % k, "unit%d" % k, "F7.2", "")
            p.call("i", "DFSDsetrange", _np.array([9.0], dtype="=f4").tobytes(), _np.array([-1.0], dtype="=f4").tobytes())
            p.call("i", "DFSDsetdimscale", 1, dims[0], _np.arange(dims[0], dtype="=f4").tobytes())
            p.call("i", "DFSDadddata", "f.hdf", len(dims), i32s(*dims), a.tobytes())
        return p, "f.hdf"
    fn = dict(wl.WORKLOADS)[name]
    p, paths = fn("")
    # patch ndds of Hopen-created files when the workload uses Hopen
    txt = p.text()
    return p, paths[0]


def session_program(kind, fname, params):
    p = Prog()
    if kind == "h_append":
        p.call("i", "Hopen", fname, 3, 0, bind="f")
        for i, n in enumerate(params["sizes"]):
            p.call("i", "Hputelement", V("f"), 950, i + 1, bytes([(i * 7 + 1) & 0xff]) * n, n)
        if params.get("linked"):
            p.call("i", "HLcreate", V("f"), 951, 1, 8, 2, bind="l")
            p.call("i", "Hwrite", V("l"), 30, bytes(range(30)))
            p.call("i", "Hendaccess", V("l"))
        if params.get("reserve"):
            # a new last element that reserves more space than the session writes: the file is only extended to
            # the reserved length at the very end of the close
            rsv, wr = params["reserve"]
            p.call("i", "Hstartwrite", V("f"), 952, 1, rsv, bind="rs")
            p.call("i", "Hwrite", V("rs"), wr, bytes([0x5a]) * wr)
            p.call("i", "Hendaccess", V("rs"))
        p.raw("!mark flush")
        p.call("i", "Hclose", V("f"))
    elif kind == "h_newref":
        # new elements under references handed out by the library
        p.call("i", "Hopen", fname, 3, 0, bind="f")
        for i, n in enumerate(params["sizes"]):
            if params.get("pertag"):
                p.call("u", "Htagnewref", V("f"), 950, bind="nr")
            else:
                p.call("u", "Hnewref", V("f"), bind="nr")
            p.call("i", "hx_put_if_ref", V("f"), 950, V("nr"), bytes([(i * 7 + 1) & 0xff]) * n, n)
        p.raw("!mark flush")
        p.call("i", "Hclose", V("f"))
    elif kind == "v_append":
        p.call("i", "Hopen", fname, 3, 0, bind="f")
        p.call("i", "Vinitialize", V("f"))
        for i in range(params["nvd"]):
            p.call("i", "VSattach", V("f"), -1, "w", bind="vs")
            p.call("i", "VSfdefine", V("vs"), "q", 24, 1)
            p.call("i", "VSsetfields", V("vs"), "q")
            p.call("i", "VSsetname", V("vs"), "new%d" % i)
            p.call("i", "VSwrite", V("vs"), bytes(4 * (i + 2)), i + 2, 0)
            p.call("i", "VSQueryref", V("vs"), bind="vr")
            p.call("i", "VSdetach", V("vs"))
            p.call("i", "Vattach", V("f"), -1, "w", bind="g")
            p.call("i", "Vsetname", V("g"), "newgrp%d" % i)
            p.call("i", "Vaddtagref", V("g"), 1962, V("vr"))
            p.call("i", "Vdetach", V("g"))
        p.raw("!mark flush")
        p.call("i", "Vfinish", V("f"))
        p.call("i", "Hclose", V("f"))
    elif kind == "v_edit":
        # adds to EXISTING objects: their headers are rewritten (descriptor reuse) and must go to new space
        p.call("i", "Hopen", fname, 3, 0, bind="f")
        p.call("i", "Vinitialize", V("f"))
        for i, op in enumerate(params["ops"]):
            if op == "new_vd":
                p.call("i", "VSattach", V("f"), -1, "w", bind="vs")
                p.call("i", "VSfdefine", V("vs"), "q", 24, 1)
                p.call("i", "VSsetfields", V("vs"), "q")
                p.call("i", "VSsetname", V("vs"), "new%d" % i)
                p.call("i", "VSwrite", V("vs"), bytes(4 * (i + 2)), i + 2, 0)
                p.call("i", "VSdetach", V("vs"))
            elif op == "vg_add":
                p.call("i", "hx_vattach_named", V("f"), "group", bind="g0")
                p.call("i", "VQueryref", V("g0"), bind="gref")
                p.call("i", "Vdetach", V("g0"))
                p.call("i", "Vattach", V("f"), V("gref"), "w", bind="g")
                p.call("i", "Vaddtagref", V("g"), 1000, 20 + i)
                p.call("i", "Vdetach", V("g"))
            else:
                p.call("i", "VSfind", V("f"), "table", bind="vr")
                p.call("i", "VSattach", V("f"), V("vr"), "w", bind="vs")
                if op == "vs_attr":
                    p.call("i", "VSsetattr", V("vs"), -1, "added%d" % i, 4, 3, b"xyz")
                elif op == "vs_class":
                    p.call("i", "VSsetclass", V("vs"), "class%d" % i)
                else:
                    p.call("i", "VSsetfields", V("vs"), "a,b")
                    p.call("i", "VSseek", V("vs"), 14)
                    p.call("i", "VSread", V("vs"), Out(12), 1, 0)
                    p.call("i", "VSwrite", V("vs"), bytes(range(24)), 2, 0)
                p.call("i", "VSdetach", V("vs"))
        p.raw("!mark flush")
        p.call("i", "Vfinish", V("f"))
        p.call("i", "Hclose", V("f"))
    elif kind == "sd_append":
        p.call("i", "SDstart", fname, 3, bind="sd")
        p.call("i", "SDcreate", V("sd"), "appended", 22, 1, i32s(params["n"]), bind="s")
        p.call("i", "SDwritedata", V("s"), i32s(0), None, i32s(params["n"]), bytes(2 * params["n"]))
        p.raw("!mark flush")
        p.call("i", "SDendaccess", V("s"))
        p.call("i", "SDend", V("sd"))
    elif kind == "gr_append":
        p.call("i", "Hopen", fname, 3, 0, bind="f")
        p.call("i", "GRstart", V("f"), bind="gr")
        p.call("i", "GRcreate", V("gr"), "appended", 1, 21, 0, i32s(params["n"], 2), bind="ri")
        p.call("i", "GRwriteimage", V("ri"), i32s(0, 0), None, i32s(params["n"], 2), bytes(2 * params["n"]))
        p.raw("!mark flush")
        p.call("i", "GRendaccess", V("ri"))
        p.call("i", "GRend", V("gr"))
        p.call("i", "Hclose", V("f"))
    else:
        p.call("i", "Hopen", fname, 3, 0, bind="f")
        p.call("i", "ANstart", V("f"), bind="an")
        for i in range(params["nann"]):
            p.call("i", "ANcreatef", V("an"), 3, bind="n")
            txt = b"description %d" % i + b"x" * i
            p.call("i", "ANwriteann", V("n"), txt, len(txt))
            p.call("i", "ANendaccess", V("n"))
        p.raw("!mark flush")
        p.call("i", "ANend", V("an"))
        p.call("i", "Hclose", V("f"))
    return p


COMPAT = {"h_append": ["h_elements", "h_many", "vdata_vgroup", "an"], "v_append": ["vdata_vgroup", "h_elements", "h_many"],
          "v_edit": ["vdata_vgroup"], "h_newref": ["h_maxref", "h_many", "h_elements", "h_dense", "h_dense"], "sd_append": ["sd_basic", "dfsd"], "gr_append": ["gr", "h_many"], "an_append": ["an", "h_many", "h_elements"]}


@st.composite
def strategy_(draw, tier):
    kind = draw(st.sampled_from(SESSIONS + ["v_edit"]))
    base = draw(st.sampled_from(COMPAT[kind]))
    params = {}
    if kind == "h_append":
        params["sizes"] = draw(st.lists(st.integers(1, 40), min_size=1, max_size=24))
        params["linked"] = draw(st.booleans())
        if draw(st.integers(0, 2)) == 0:
            rsv = draw(st.sampled_from([64, 300, 4096, 70000]))
            params["reserve"] = [rsv, draw(st.integers(1, min(rsv - 1, 200)))]
    elif kind == "h_newref":
        params["sizes"] = draw(st.lists(st.integers(1, 16), min_size=1, max_size=6))
        params["pertag"] = draw(st.booleans())
    elif kind == "v_append":
        params["nvd"] = draw(st.integers(1, 5))
    elif kind == "v_edit":
        params["ops"] = draw(st.lists(st.sampled_from(["vg_add", "vg_add", "vs_attr", "new_vd"]), min_size=1,
                                      max_size=4))
    elif kind in ("sd_append", "gr_append"):
        params["n"] = draw(st.integers(1, 30))
    else:
        params["nann"] = draw(st.integers(1, 6))
    case = {"base": base, "ndds": draw(st.sampled_from([0, 4, 5, 16])), "session": kind, "params": params}
    if kind == "v_edit":
        case["prep"] = draw(st.sampled_from([None, "touch_vg", "touch_vh"]))
    return case


def strategy(tier):
    return strategy_(tier)


def reader_program(fname, keys):
    p = Prog()
    lo = p.call("i", "Hopen", fname, 1, 0, bind="f")
    reads = []
    for (tag, ref, ln) in keys:
        reads.append((p.call("i", "Hgetelement", V("f"), tag, ref, Out(max(ln, 0) + 8)), tag, ref))
    lc = p.call("i", "Hclose", V("f"))
    return p, lo, reads, lc


def parse_wlog(path, fname):
    """returns (writes [(offset, bytes)], index of the flush marker in that list)"""
    sid = None
    writes = []
    flush_at = None
    with open(path) as f:
        for l in f:
            t = l.rstrip("\n").split(" ")
            if t[0] == "O" and t[3].endswith(fname):
                sid = t[1]
            elif t[0] == "W" and t[1] == sid:
                writes.append((int(t[2]), bytes.fromhex(t[4])))
            elif t[0] == "M" and t[1] == "flush":
                flush_at = len(writes)
    return writes, flush_at


def run_case(case):
    labels = set()
    with CaseDir() as d:
        try:
            # 1. base file (fault-free, own process)
            bp, fname = base_program(case["base"], case["ndds"])
            if case.get("prep"):
                # a further fault-free session of the base: leaves a rewritten Vgroup record / Vdata header as the
                # last thing in the file
                bp.call("i", "Hopen", fname, 3, 0, bind="f")
                bp.call("i", "Vinitialize", V("f"))
                if case["prep"] == "touch_vg":
                    bp.call("i", "hx_vattach_named", V("f"), "group", bind="g0")
                    bp.call("i", "VQueryref", V("g0"), bind="gref")
                    bp.call("i", "Vdetach", V("g0"))
                    bp.call("i", "Vattach", V("f"), V("gref"), "w", bind="g")
                    bp.call("i", "Vaddtagref", V("g"), 1000, 99)
                    bp.call("i", "Vdetach", V("g"))
                else:
                    bp.call("i", "VSfind", V("f"), "table", bind="vr")
                    bp.call("i", "VSattach", V("f"), V("vr"), "w", bind="vs")
                    bp.call("i", "VSsetclass", V("vs"), "prepared")
                    bp.call("i", "VSdetach", V("vs"))
                bp.call("i", "Vfinish", V("f"))
                bp.call("i", "Hclose", V("f"))
            rb = run(bp, cwd=d)
            if not rb.done:
                raise Fail("harness: base workload failed", detail=rb.sanitizer_summary())
            fpath = os.path.join(d, fname)
            with open(fpath, "rb") as f:
                base_bytes = f.read()
            bf = h4fmt.H4File(base_bytes)
            if bf.violations:
                raise Fail("base file is not well-formed", violations=bf.violations[:5])
            used_end = bf.used_end()
            keys = []
            for dd in bf.dds:
                if dd.off >= 0 and dd.len >= 0:
                    keys.append((dd.tag, dd.ref, dd.len))
            # library's view of the base (logical reads through base tags)
            lkeys = [(h4fmt.base_tag(t), r, 70000) for (t, r, l) in keys]
            rp, lo, reads, lc = reader_program(fname, lkeys)
            r0 = run(rp, cwd=d)
            if not r0.done:
                raise Fail("harness: reading the base file failed", detail=r0.sanitizer_summary())
            base_view = {(t, r): (r0.res[ln].ret, r0.res[ln].bufs[0][:max(r0.res[ln].ret, 0)]) for ln, t, r in reads}
            # 2. the append session under the write log
            sp = session_program(case["session"], fname, case["params"])
            wlog = os.path.join(d, "wlog")
            rs = run(sp, cwd=d, wlog=wlog)
            if not rs.done:
                raise Fail("append session crashed", detail=rs.sanitizer_summary(), frames=rs.crash_frames())
            for ln, r in rs.res.items():
                if r.kind == "R" and r.ret == -1:
                    raise Fail("append session: a call failed", call=sp.lines[ln - 1][:80])
            writes, flush_at = parse_wlog(wlog, fname)
            if flush_at is None:
                raise Fail("harness: no flush marker in the write log")
            with open(fpath, "rb") as f:
                final_bytes = f.read()
            ff = h4fmt.H4File(final_bytes)
            if len(ff.blocks) > len(bf.blocks):
                labels.add("new_dd_block")
            # the descriptor flush proper starts with the first write into a descriptor block of the base file;
            # the close call of the SD/GR/AN sessions first appends new metadata, which still belongs to the
            # part of the session that must only touch new space
            def in_base_dd_block(off):
                return any(boff <= off < boff + 6 + 12 * nd for (boff, nd, _n) in bf.blocks)
            first_dd = next((j for j, (off, _d) in enumerate(writes) if in_base_dd_block(off)), len(writes))
            flush_at = max(flush_at, first_dd) if first_dd >= flush_at else flush_at
            # part 1: nothing below used_end before the flush
            for j, (off, data) in enumerate(writes[:flush_at]):
                if off < used_end:
                    raise Fail("write into previously used space before the flush", write_index=j, offset=off,
                               length=len(data), used_end=used_end, session=case["session"])
            # part 2: every prefix image
            last = len(writes) if case["session"] in ALL_PREFIX else flush_at
            nimg = 0
            for j in range(0, last + 1):
                img = bytearray(base_bytes)
                for off, data in writes[:j]:
                    if off + len(data) > len(img):
                        img.extend(b"\0" * (off + len(data) - len(img)))
                    img[off:off + len(data)] = data
                nimg += 1
                if j > flush_at:
                    labels.add("cut_in_flush")
                what = dict(prefix=j, of=len(writes), flush_at=flush_at, session=case["session"], base=case["base"])
                jf = h4fmt.H4File(bytes(img))
                if jf.fatal:
                    raise Fail("crash image is not a readable HDF file", violations=jf.violations[:4], **what)
                for dd in bf.dds:
                    if dd.off < 0:
                        continue
                    nd = jf.by_key.get((dd.tag, dd.ref))
                    if nd is None:
                        raise Fail("pre-existing element missing from crash image", element=[dd.tag, dd.ref], **what)
                    if jf.raw(nd) != bf.raw(dd):
                        raise Fail("pre-existing element changed in crash image", element=[dd.tag, dd.ref], **what)
                ipath = os.path.join(d, "img.hdf")
                with open(ipath, "wb") as f:
                    f.write(img)
                rp2, lo2, reads2, lc2 = reader_program("img.hdf", lkeys)
                ri = run(rp2, cwd=d)
                if not ri.done:
                    raise Fail("library crashed on a crash image", detail=ri.sanitizer_summary(),
                               frames=ri.crash_frames(), **what)
                if ri.res[lo2].ret == -1:
                    raise Fail("Hopen fails on a crash image", **what)
                for ln, t, r in reads2:
                    got = (ri.res[ln].ret, ri.res[ln].bufs[0][:max(ri.res[ln].ret, 0)])
                    if got != base_view[(t, r)]:
                        raise Fail("pre-existing element reads back differently from a crash image",
                                   element=[t, r], expected_len=base_view[(t, r)][0], observed_len=got[0], **what)
            labels.add("images>=50" if nimg >= 50 else "images<50")
        except Fail as f:
            info = f.info
            return CaseResult(labels=labels, failure=info, sample=dict(case))
    s = dict(case)
    s["crash_images"] = nimg
    s["writes"] = len(writes)
    s["flush_at"] = flush_at
    newblk = "new_dd_block" in labels
    ntk = [j for j in range(0, last + 1) if newblk or j > flush_at]
    return CaseResult(labels=labels, sample=s, units=nimg, nt_keys=ntk)


def known_match(case, failure, entry):
    return False


RULE += (" " + 'Further bases/sessions: a last element that reserves more space than the session writes; a base with a dense run of 130..200 references of one tag followed by reference 1000, with new references taken from Htagnewref.')
