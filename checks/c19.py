"""C19 — inspection tools report what is actually in the file (hdiff, hdp dumps, hdfimport)."""
import os, subprocess, struct, shutil, copy
import numpy as np
from hypothesis import strategies as st
from h4verif.exe import Prog, V, Out, run, CaseDir, BUILD, base_env, i32s
from h4verif.runner import CaseResult
from checks import c02, c18

PROPERTY = "C19"
LEVEL = "exploration"
NEED = ("h4x", "tools")
RULE = ("three families against the sanitizer-built tool binaries. hdiff: a generated file F (C02 generator, NaN-free "
        "data) must compare equal to itself and to a byte copy (exit 0); for a generated single-point mutation F' "
        "(one element of one dataset / vdata record / image pixel changed through the API, one attribute value "
        "changed, one dataset added; one file in five holds 20..50 datasets so that the tools' object tables grow) hdiff F F' and hdiff F' F must both report differences (exit 1). hdp (one file in ten holds a vdata larger than the 1 MiB transfer buffer): the "
        "numbers printed by dumpsds -d / dumpvd -d / dumpgr -d for every dataset, vdata and image of F are parsed and "
        "must equal, in order, the values the library API returns (harness-written description). hdfimport: "
        "generated TEXT / FP32 / FP64 / IN32 / IN16 / IN08 inputs of rank 2 and 3 with scales and max/min, with "
        "every -t output type and -n, must produce one dataset whose rank, dimensions, number type, values and "
        "dimension scales equal the input. Non-trivial = a mutation hdiff had to find, a dump with >= 2 values "
        "compared, or an import with rank 3 or a non-default output type.")
BUDGET = {"quick": {"shards": 8, "cases": 300}, "thorough": {"shards": 16, "cases": 4000}}
MIN_NT = {"quick": 800, "thorough": 20000}
ASSUMPTIONS = ["hdiff does not compare raster image attributes at all (not one of its classes): not mutated",
               "floating-point data are multiples of 1/8 within +-4000 (exactly printable with 6 decimals, NaN-free)",
               "hdiff is run with its default options (all classes compared)",
               "hdp dumps are requested per object by name with -d"]
TOOLS = os.path.join(BUILD, "tools")
NTS = c02.NTS


class Fail(Exception):
    def __init__(self, kind, **info):
        self.info = dict(kind=kind, **info)


def nontrivial(labels):
    return bool(labels & {"hdiff_mutation_found", "hdp_values_compared", "import_nontrivial"})


def tool(d, name, args, timeout=120):
    try:
        p = subprocess.run([os.path.join(TOOLS, name)] + args, cwd=d, env=base_env(), stdout=subprocess.PIPE,
                           stderr=subprocess.PIPE, timeout=timeout)
    except subprocess.TimeoutExpired:
        raise Fail("%s did not finish within %d s" % (name, timeout), args=args)
    so, se = p.stdout.decode("latin-1"), p.stderr.decode("latin-1")
    if "ERROR: AddressSanitizer" in se or "runtime error:" in se:
        raise Fail("%s: memory error / undefined behaviour" % name, args=args, text=se[-2500:])
    return p.returncode, so, se


# ====================================================================== generators
@st.composite
def hdiff_case(draw):
    base = draw(c02.strategy_("quick"))
    if draw(st.integers(0, 4)) == 0:
        # many objects: the tools' object tables (20 entries at first) have to grow
        for i in range(draw(st.integers(18, 45))):
            base["objs"].append({"kind": "sds", "name": "m%d" % i, "nt": draw(st.sampled_from(["int16", "uint8", "float32"])),
                                 "dims": [2], "layout": "contig", "sess": 0, "attr": False, "dimname": False,
                                 "dimscale": False, "dimattr": False, "parts": [[0, 2, 0]]})
    muts = draw(st.lists(st.tuples(st.sampled_from(["sds_value", "sds_value", "vd_value", "gr_value", "sds_attr",
                                                     "add_sds", "vd_attr", "sd_gattr", "sd_gattr"]),
                                   st.integers(0, 60), st.integers(0, 400)), min_size=1, max_size=3))
    if len(base["objs"]) >= 18 and draw(st.booleans()):
        # many objects: a run of single-value changes in consecutive datasets around the sizes at which the tools'
        # object tables grow (20, 40, ...), so that the entry next to a growth step is among the changed ones
        start = draw(st.sampled_from([12, 14, 16, 18, 32, 34, 36, 38]))
        muts = [("sds_value", start + j, draw(st.integers(0, 400))) for j in range(8)]
    return {"family": "hdiff", "file": base, "mutations": [list(m) for m in muts]}


@st.composite
def hdp_case(draw):
    f = draw(c02.strategy_("quick"))
    if draw(st.integers(0, 9)) == 0:
        # a vdata larger than the tools' 1 MiB transfer buffer (read and printed in several passes)
        nf = draw(st.integers(1, 2))
        f["objs"].append(dict(kind="vd", name="vdbig", fields=[["f%d" % k, draw(st.sampled_from(["int32", "int16", "float32"])), 1]
                                                               for k in range(nf)],
                              writes=[[draw(st.sampled_from([140001, 270000, 400003])), f["nsess"] - 1]], sess=f["nsess"] - 1,
                              blocksize=0, attr=False, cls="", il=0))
    return {"family": "hdp", "file": f}


@st.composite
def import_case(draw, nested=True):
    fmt = draw(st.sampled_from(["TEXT", "TEXT", "FP32", "FP64", "IN32", "IN16", "IN08"]))
    rank = draw(st.sampled_from([2, 2, 3]))
    dims = [draw(st.integers(2, 5)) for _ in range(3)]      # the tool requires at least 2 rows and 2 columns
    if rank == 2:
        dims[0] = 1
    out = None
    if fmt == "TEXT":
        out = draw(st.sampled_from([None, "FP32", "FP64", "INT32", "INT16", "INT8"]))
    case = {"family": "import", "fmt": fmt, "dims": dims, "outtype": out, "n": draw(st.booleans()),
            "seed": draw(st.integers(0, 10000))}
    if nested and draw(st.integers(0, 2)) == 0:
        # several input files of possibly different formats in one command
        case["more"] = [draw(import_case(False)) for _ in range(draw(st.integers(1, 2)))]
    return case


@st.composite
def any_case(draw, tier):
    fam = draw(st.sampled_from(["hdiff", "hdiff", "hdp", "hdp", "import"]))
    return draw({"hdiff": hdiff_case, "hdp": hdp_case, "import": import_case}[fam]())


def strategy(tier):
    return any_case(tier)


# ====================================================================== helpers
def build_file(fc, d):
    model = {"_created": False}
    text = ""
    for p in c02.build_sessions(fc, d, model):
        if not p.lines:
            continue
        rr = run(p, cwd=d, timeout=120)
        text += p.text()
        if not rr.done:
            raise Fail("harness: building the input file crashed", detail=rr.sanitizer_summary(), program=text[-3000:])
    return model, text


def parse_desc(lines):
    out = dict(sds={}, ri={}, vs={})
    for l in lines:
        f = l.split(" ")
        if f[0] == "SDS":
            out["sds"][f[1]] = dict(rank=int(f[2]), dims=[int(x) for x in f[3].split(",")] if f[3] != "-" else [],
                                    nt=int(f[4]), data=f[9] if f[8] == "0" else "-")    # f[8]: no data written yet
        elif f[0] == "RI":
            out["ri"][f[1]] = dict(x=int(f[2]), y=int(f[3]), ncomp=int(f[4]), nt=int(f[5]), data=f[8])
        elif f[0] == "VS":
            out["vs"][f[1]] = dict(nrec=int(f[3]), fields=f[4], data=f[6])
    return out


NT_DT = {20: "i1", 21: "u1", 22: "i2", 23: "u2", 24: "i4", 25: "u4", 5: "f4", 6: "f8", 3: "u1", 4: "i1"}


def numbers(text):
    vals = []
    for tok in text.split():
        try:
            vals.append(float(tok))
        except ValueError:
            raise Fail("hdp printed something that is not a number in a -d dump", token=tok[:40])
    return vals


# ====================================================================== families
def run_hdiff(case, d, labels, excluded, known_keys):
    fc = copy.deepcopy(case["file"])
    model, text = build_file(fc, d)
    F = "f.hdf"
    if not os.path.exists(os.path.join(d, F)):
        return
    shutil.copy(os.path.join(d, F), os.path.join(d, "g.hdf"))
    for a, b in ((F, F), (F, "g.hdf")):
        rc, so, se = tool(d, "hdiff", [a, b])
        if rc != 0:
            raise Fail("hdiff reports differences (or an error) between a file and itself / its byte copy", exit=rc,
                       output=so[-800:], stderr=se[-300:], program=text[-3000:])
    labels.add("hdiff_reflexive")
    # one mutation at a time, each on a fresh copy
    sds = [o for o in fc["objs"] if o["kind"] == "sds" and o["name"] in model and model[o["name"]].get("arr") is not None
           and model[o["name"]]["rows"] > 0]
    vds = [o for o in fc["objs"] if o["kind"] == "vd" and model.get(o["name"], {}).get("nrec", 0) > 0]
    grs = [o for o in fc["objs"] if o["kind"] == "gr" and o["name"] in model]
    for mi, (kind, pick, pos) in enumerate(case["mutations"]):
        G = "m%d.hdf" % mi
        shutil.copy(os.path.join(d, F), os.path.join(d, G))
        for o in fc["objs"]:
            if o.get("extfile"):
                pass        # external files are shared by name: mutations below never touch external datasets
        p = Prog()
        what = None
        base_override = None
        if kind in ("sds_value", "sds_attr") and sds:
            cand = [o for o in sds if o["layout"] != "ext" and (kind == "sds_value" or o["attr"])]
            if not cand:
                continue
            o = cand[pick % len(cand)]
            m = model[o["name"]]
            p.call("i", "SDstart", G, 3, bind="sd")
            p.call("i", "SDnametoindex", V("sd"), o["name"], bind="ix")
            p.call("i", "SDselect", V("sd"), V("ix"), bind="s")
            if kind == "sds_value":
                shape = list(o["dims"])
                if o["layout"] == "unlim":
                    shape[0] = m["rows"]
                arr = m["arr"][:shape[0]].copy()
                flat = arr.reshape(-1)
                k = pos % flat.size
                if flat.dtype.kind in "iu" and (pos // flat.size) % 2:
                    # a large change: the top bit of the stored value is flipped
                    u = flat.view(flat.dtype.str.replace("i", "u"))
                    u[k] = u[k] ^ (1 << (8 * flat.dtype.itemsize - 1))
                elif flat.dtype.kind == "f" and (pos // flat.size) % 2:
                    # the smallest possible change of a small value: both files get a small value at k first (the
                    # comparison base is a copy taken then), the mutated file the next representable one
                    flat[k] = flat.dtype.type([0.25, 3e-20, -0.015625, 1e-30][(pos // flat.size // 2) % 4])
                    p.call("i", "SDwritedata", V("s"), i32s(*([0] * len(shape))), None, i32s(*shape), c02.native(arr))
                    p.call("i", "SDendaccess", V("s"))
                    p.call("i", "SDend", V("sd"))
                    rr0 = run(p, cwd=d, timeout=60)
                    if not rr0.done or any(x.ret == -1 for x in rr0.res.values() if x.kind == "R"):
                        raise Fail("harness: preparing the small-value base failed", detail=rr0.sanitizer_summary())
                    base_override = "b%d.hdf" % mi
                    shutil.copy(os.path.join(d, G), os.path.join(d, base_override))
                    p = Prog()
                    p.call("i", "SDstart", G, 3, bind="sd")
                    p.call("i", "SDnametoindex", V("sd"), o["name"], bind="ix")
                    p.call("i", "SDselect", V("sd"), V("ix"), bind="s")
                    flat[k] = np.nextafter(flat[k], flat.dtype.type(1))
                    labels.add("mut_float_one_ulp")
                else:
                    flat[k] = flat[k] + 1 if flat[k] < 100 else flat[k] - 1
                p.call("i", "SDwritedata", V("s"), i32s(*([0] * len(shape))), None, i32s(*shape), c02.native(arr))
                what = "one element of dataset %s (layout %s, type %s)" % (o["name"], o["layout"], o["nt"])
                if base_override:
                    what += ": a small value changed to the next representable one"
            else:
                av = c02.vals("int16", 3, 5).copy()
                av[pos % 3] += 1
                p.call("i", "SDsetattr", V("s"), "sattr", 22, 3, c02.native(av))
                what = "one value of an attribute of dataset %s" % o["name"]
            p.call("i", "SDendaccess", V("s"))
            p.call("i", "SDend", V("sd"))
        elif kind in ("vd_value", "vd_attr") and vds:
            cand = [o for o in vds if kind == "vd_value" or o["attr"]]
            if not cand:
                continue
            o = cand[pick % len(cand)]
            m = model[o["name"]]
            p.call("i", "Hopen", G, 3, 0, bind="f")
            p.call("i", "Vinitialize", V("f"))
            p.call("i", "VSfind", V("f"), o["name"], bind="vr")
            p.call("i", "VSattach", V("f"), V("vr"), "w", bind="v")
            if kind == "vd_value":
                rs = sum(np.dtype(NTS[nt][1]).itemsize * order for _f, nt, order in o["fields"])
                rec = pos % m["nrec"]
                be = bytearray(m["recs"][rec * rs:(rec + 1) * rs])
                # convert the record to native order field by field, then change the last byte of the first value
                nat = bytearray()
                q = 0
                for _f, nt, order in o["fields"]:
                    dt = np.dtype(NTS[nt][1])
                    k = dt.itemsize * order
                    a = np.frombuffer(bytes(be[q:q + k]), dtype=dt).astype(dt.newbyteorder("=")).copy()
                    if q == 0:
                        a[0] = a[0] + 1 if a[0] < 100 else a[0] - 1
                    nat += a.tobytes()
                    q += k
                p.call("i", "VSsetfields", V("v"), ",".join(f[0] for f in o["fields"]))
                if o.get("il"):
                    # field-after-field storage is rewritten as a whole
                    allnat = bytearray()
                    for r_ in range(m["nrec"]):
                        if r_ == rec:
                            allnat += nat
                            continue
                        q = r_ * rs
                        for _f, nt, order in o["fields"]:
                            dt = np.dtype(NTS[nt][1])
                            k = dt.itemsize * order
                            allnat += np.frombuffer(m["recs"][q:q + k], dtype=dt).astype(dt.newbyteorder("=")).tobytes()
                            q += k
                    p.call("i", "VSseek", V("v"), 0)
                    p.call("i", "VSwrite", V("v"), bytes(allnat), m["nrec"], 0)
                else:
                    p.call("i", "VSseek", V("v"), rec)
                    p.call("i", "VSwrite", V("v"), bytes(nat), 1, 0)
                what = "one field value of record %d of vdata %s" % (rec, o["name"])
            else:
                av = c02.vals("int32", 2, 6).copy()
                av[pos % 2] += 1
                p.call("i", "VSsetattr", V("v"), -1, "vattr", 24, 2, c02.native(av))
                what = "one value of an attribute of vdata %s" % o["name"]
            p.call("i", "VSdetach", V("v"))
            p.call("i", "Vfinish", V("f"))
            p.call("i", "Hclose", V("f"))
        elif kind in ("gr_value", "gr_attr") and grs:
            cand = [o for o in grs if kind == "gr_value" or o["attr"]]
            if not cand:
                continue
            o = cand[pick % len(cand)]
            m = model[o["name"]]
            dt = np.dtype(NTS[o["nt"]][1])
            p.call("i", "Hopen", G, 3, 0, bind="f")
            p.call("i", "GRstart", V("f"), bind="gr")
            p.call("i", "GRnametoindex", V("gr"), o["name"], bind="ix")
            p.call("i", "GRselect", V("gr"), V("ix"), bind="ri")
            if kind == "gr_value":
                a = np.frombuffer(m["data"], dtype=dt).astype(dt.newbyteorder("=")).copy()
                k = pos % a.size
                a[k] = a[k] + 1 if a[k] < 100 else a[k] - 1
                p.call("i", "GRwriteimage", V("ri"), i32s(0, 0), None, i32s(o["xdim"], o["ydim"]), a.tobytes())
                what = "one pixel component of image %s (layout %s)" % (o["name"], o["layout"])
            else:
                av = c02.vals("uint8", 4, 8).copy()
                av[pos % 4] += 1
                p.call("i", "GRsetattr", V("ri"), "gattr", 21, 4, c02.native(av))
                what = "one value of an attribute of image %s" % o["name"]
            p.call("i", "GRendaccess", V("ri"))
            p.call("i", "GRend", V("gr"))
            p.call("i", "Hclose", V("f"))
        elif kind == "sd_gattr" and "_gattr" in model:
            av = model["_gattr"].copy()
            av[pos % 4] += 1
            p.call("i", "SDstart", G, 3, bind="sd")
            p.call("i", "SDsetattr", V("sd"), "gattr", 24, 4, c02.native(av))
            p.call("i", "SDend", V("sd"))
            what = "element %d of the 4-element int32 global attribute" % (pos % 4)
        elif kind == "add_sds":
            # an object present in only one of the files is not counted as a difference by hdiff (known finding)
            known_keys.add("C19-hdiff-ignores-added-objects")
            if not case.get("no_exclude"):
                excluded.append("C19-hdiff-ignores-added-objects")
                continue
            p.call("i", "SDstart", G, 3, bind="sd")
            p.call("i", "SDcreate", V("sd"), "added_by_mutation", 24, 1, i32s(2), bind="s")
            p.call("i", "SDwritedata", V("s"), i32s(0), None, i32s(2), i32s(5, 6))
            p.call("i", "SDendaccess", V("s"))
            p.call("i", "SDend", V("sd"))
            what = "one dataset added"
        if what is None:
            continue
        rr = run(p, cwd=d, timeout=60)
        if not rr.done or any(x.ret == -1 for x in rr.res.values() if x.kind == "R"):
            raise Fail("harness: applying the mutation failed", mutation=what, detail=rr.sanitizer_summary(),
                       calls=[(l[:70], rr.res[i + 1].ret) for i, l in enumerate(p.lines) if i + 1 in rr.res][:12])
        for a, b in ((base_override or F, G), (G, base_override or F)):
            rc, so, se = tool(d, "hdiff", [a, b])
            if rc != 1:
                raise Fail("hdiff does not report a difference after a single-point change", changed=what, order=[a, b],
                           exit=rc, output=so[-600:], stderr=se[-300:], program=text[-3000:])
        labels.add("hdiff_mutation_found")
        labels.add("mut_" + kind)


def run_hdp(case, d, labels, excluded, known_keys):
    fc = copy.deepcopy(case["file"])
    model, text = build_file(fc, d)
    F = "f.hdf"
    if not os.path.exists(os.path.join(d, F)):
        return
    desc = parse_desc(c18.describe(d, F))
    for kind, cmd, table in (("sds", "dumpsds", desc["sds"]), ("vs", "dumpvd", desc["vs"]), ("ri", "dumpgr", desc["ri"])):
        for name, e in table.items():
            if e["data"] in ("-", "READFAIL"):
                continue
            rc, so, se = tool(d, "hdp", [cmd, "-d", "-n", name, F])
            if rc != 0:
                raise Fail("hdp %s -d exited with status %d" % (cmd, rc), object=name, output=so[-400:], stderr=se[-400:],
                           program=text[-3000:])
            raw = bytes.fromhex(e["data"])
            if kind == "vs":
                want = []
                flds = [x.split(":") for x in e["fields"].split(",")]
                rs = sum(np.dtype(NT_DT[int(t) & 0xfff]).itemsize * int(o) for _n, t, o in flds)
                for r_ in range(e["nrec"]):
                    q = r_ * rs
                    for _n, t, o in flds:
                        dt = np.dtype(NT_DT[int(t) & 0xfff])
                        k = dt.itemsize * int(o)
                        want += [float(x) for x in np.frombuffer(raw[q:q + k], dtype=dt)]
                        q += k
            else:
                dt = np.dtype(NT_DT[e["nt"] & 0xfff])
                want = [float(x) for x in np.frombuffer(raw, dtype=dt)]
            got = numbers(so)
            if len(got) != len(want) or any(abs(a - b) > 1e-6 * max(1.0, abs(b)) for a, b in zip(got, want)):
                bad = next((i for i, (a, b) in enumerate(zip(got, want)) if abs(a - b) > 1e-6 * max(1.0, abs(b))), None)
                raise Fail("the values hdp %s -d prints differ from what the API returns" % cmd, object=name,
                           printed=len(got), api=len(want), first_difference=bad,
                           printed_there=got[bad] if bad is not None and bad < len(got) else None,
                           api_there=want[bad] if bad is not None else None, program=text[-3000:])
            if len(want) >= 2:
                labels.add("hdp_values_compared")
            labels.add("hdp_" + cmd)


FMT_CODE = {"FP32": 0x46503332, "FP64": 0x46503634, "IN32": 0x494e3332, "IN16": 0x494e3136, "IN08": 0x494e3038}


def run_import(case, d, labels, excluded, known_keys):
    # one command may name several input files (each followed by its own options): one dataset per input, in order
    subs = [case] + list(case.get("more") or [])
    args = []
    wants = []
    for k, sub in enumerate(subs):
        fmt, dims, outtype = sub["fmt"], sub["dims"], sub.get("outtype")
        npl, nr, nc = dims
        rng = np.random.RandomState(sub["seed"])
        n = npl * nr * nc
        isint = fmt.startswith("IN") or (fmt == "TEXT" and outtype in ("INT32", "INT16", "INT8"))
        hi = 100 if (fmt == "IN08" or outtype == "INT8") else 2000
        if isint:
            data = rng.randint(-hi, hi + 1, size=n).astype(np.int64)
            scales = [np.arange(1, k_ + 1, dtype=np.int64) * (i + 2) for i, k_ in enumerate(dims)]
        else:
            data = rng.randint(-8000, 8000, size=n) / 8.0
            scales = [np.arange(1, k_ + 1) * (0.5 * (i + 1)) for i, k_ in enumerate(dims)]
        mx, mn = data.max(), data.min()
        iname = "in.dat" if k == 0 else "in%d.dat" % k
        inp = os.path.join(d, iname)
        if fmt == "TEXT":
            with open(inp, "w") as f:
                f.write("TEXT\n%d %d %d\n" % (npl, nr, nc))
                f.write("%s %s\n" % (repr(float(mx)) if not isint else int(mx), repr(float(mn)) if not isint else int(mn)))
                for i, s_ in enumerate(scales):
                    if i == 0 and npl == 1:
                        continue
                    f.write(" ".join((str(int(x)) if isint else repr(float(x))) for x in s_) + "\n")
                f.write(" ".join((str(int(x)) if isint else repr(float(x))) for x in data) + "\n")
        else:
            dt = {"FP32": "f4", "FP64": "f8", "IN32": "i4", "IN16": "i2", "IN08": "i1"}[fmt]
            with open(inp, "wb") as f:
                f.write(fmt.encode() + struct.pack("=3i", npl, nr, nc))      # the designator is the 4 characters
                f.write(np.array([mx, mn]).astype(dt).tobytes())
                for i, s_ in enumerate(scales):
                    if i == 0 and npl == 1:
                        continue
                    f.write(s_.astype(dt).tobytes())
                f.write(data.astype(dt).tobytes())
        args += [iname]
        if fmt == "TEXT" and outtype:
            args += ["-t", outtype]
        if fmt == "FP64" and sub.get("n"):
            args += ["-n"]
        want_nt = {"FP32": 5, "FP64": 6, "INT32": 24, "INT16": 22, "INT8": 20}[outtype] if fmt == "TEXT" and outtype else \
            {"TEXT": 5, "FP32": 5, "FP64": 6 if sub.get("n") else 5, "IN32": 24, "IN16": 22, "IN08": 20}[fmt]
        want_dims = [nr, nc] if npl == 1 else [npl, nr, nc]
        wants.append(dict(fmt=fmt, nt=want_nt, dims=want_dims, data=data, n=n,
                          scales=[s_ for i, s_ in enumerate(scales) if not (i == 0 and npl == 1)]))
        if npl > 1 or (fmt == "TEXT" and outtype) or fmt != "TEXT":
            labels.add("import_nontrivial")
        labels.add("import_" + fmt)
    if len(subs) > 1:
        labels.add("import_several_inputs")
    args += ["-o", "out.hdf"]
    rc, so, se = tool(d, "hdfimport", args)
    cmd = "hdfimport " + " ".join(args)
    if rc != 0 or not os.path.exists(os.path.join(d, "out.hdf")):
        raise Fail("hdfimport failed on a valid input", command=cmd, exit=rc, output=so[-500:], stderr=se[-500:],
                   case={k: v for k, v in case.items()})
    lines = c18.describe(d, "out.hdf")
    ents = []       # datasets in file order (the tool gives every dataset the same name)
    for l in lines:
        f = l.split(" ")
        if f[0] == "SDS":
            ents.append(dict(name=f[1], dims=[int(x) for x in f[3].split(",")] if f[3] != "-" else [], nt=int(f[4]),
                             data=f[9] if f[8] == "0" else "", sc={}))
        elif f[0] == "SDSDIM" and ents and f[6] not in ("-", "NOSCALE"):
            ents[-1]["sc"][int(f[2])] = np.frombuffer(bytes.fromhex(f[6]), dtype=NT_DT[int(f[5]) & 0xfff]).astype(np.float64)
    if len(ents) != len(subs):
        raise Fail("hdfimport did not produce exactly one dataset per input", command=cmd, datasets=[e["name"] for e in ents])
    for k, (e, w) in enumerate(zip(ents, wants)):
        if e["dims"] != w["dims"] or (e["nt"] & 0xfff) != w["nt"]:
            raise Fail("the imported dataset has another shape or number type than the input", command=cmd, got=e["dims"],
                       got_nt=e["nt"], want=w["dims"], want_nt=w["nt"], dataset=k)
        got = np.frombuffer(bytes.fromhex(e["data"]), dtype=NT_DT[w["nt"]]).astype(np.float64)
        if got.size != w["n"] or np.any(np.abs(got - w["data"].astype(np.float64)) > 1e-6):
            raise Fail("the imported dataset holds other values than the input", command=cmd, first=got[:6].tolist(),
                       want=w["data"][:6].tolist(), dataset=k)
        sc = e["sc"]
        for i, s_ in enumerate(w["scales"]):
            if i not in sc or sc[i].size != s_.size or np.any(np.abs(sc[i] - s_.astype(np.float64)) > 1e-6):
                raise Fail("the imported dataset's dimension scale differs from the input", command=cmd, dimension=i,
                           got=sc.get(i, np.array([])).tolist()[:6], want=s_.tolist()[:6], dataset=k)


RUNNERS = {"hdiff": run_hdiff, "hdp": run_hdp, "import": run_import}


def run_case(case):
    labels = set(["family_" + case["family"]])
    sample = dict(family=case["family"], detail=str({k: v for k, v in case.items() if k not in ("file", "family")})[:200])
    excluded, known_keys = [], set()
    with CaseDir() as d:
        try:
            RUNNERS[case["family"]](case, d, labels, excluded, known_keys)
        except (Fail, c18.Fail) as f:
            info = f.info
            info["family"] = case["family"]
            info["known_keys"] = sorted(known_keys)
            return CaseResult(labels=labels, failure=info, sample=sample, excluded=excluded)
    return CaseResult(labels=labels, sample=sample, excluded=excluded)


def known_match(case, failure, entry):
    if not case.get("no_exclude") or entry["key"] not in failure.get("known_keys", []):
        return False
    if entry["key"] == "C19-hdiff-ignores-added-objects":
        return failure.get("changed") == "one dataset added"
    return False


RULE += (" " + 'hdiff mutations include the smallest possible change (next representable value) of a small float element; hdfimport commands may name two or three input files of different formats (one dataset per input, in order).')
