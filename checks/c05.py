"""C05 — lossless coders and bit-level I/O round-trip every byte stream."""
import os, struct, zlib
from hypothesis import strategies as st
from h4verif.exe import Prog, V, Out, InOut, run, CaseDir, un_i32s, i32s
from h4verif.runner import CaseResult
from h4verif import h4fmt

PROPERTY = "C05"
LEVEL = "exploration"
NEED = ("h4x",)
RULE = ("three case families: (coder) byte strings from an edge grammar (runs/mixes at 1,2,3,126..131,255..260, "
        "incompressible, empty, up to ~70000 bytes) x coder in {none, RLE, skphuff skip 1..9, deflate 0..9} x "
        "partition into 1..12 Hwrite calls x read sessions with forward/backward Hseek (from the start, relative, from the end) and Hread partitions x "
        "optional full rewrite from offset 0 + appends x reopen; compressed stream also decoded by independent "
        "RLE/deflate/none decoders and sizes compared with HCPgetdatasize; (nbit) every integer type x legal "
        "start_bit/bit_len x sign_ext x fill_one, whole-value read partitions of varying sizes with seeks, compared "
        "with an independent projection; (bits) Hbitwrite widths 1..32, Hbitseek, Hbitread vs a bit-array model. "
        "Non-trivial = >=2 writes and >=2 reads with a backward seek, or a run/mix at a limit length, or (nbit) >=2 "
        "reads of different sizes, or (bits) >=3 different widths with a seek.")
BUDGET = {"quick": {"shards": 8, "cases": 500}, "thorough": {"shards": 16, "cases": 5000}}
MIN_NT = {"quick": 800, "thorough": 10000}
ASSUMPTIONS = ["compressed elements are written sequentially or rewritten in full from offset 0 (property's domain)",
               "n-bit transfers are whole values", "szip unavailable in this build"]

NONE, RLE, NBIT, SKPHUFF, DEFLATE = 0, 1, 2, 3, 4
TAG, REF = 3000, 1
NT_LABELS = {"partitioned_backseek", "limit_run", "nbit_varsize", "bits_mixed"}
EDGE = [1, 2, 3, 126, 127, 128, 129, 130, 131, 255, 256, 257, 258, 259, 260]

# number types for n-bit: (DFNT code, size, signed)
NTS = {"int8": (20, 1, True), "uint8": (21, 1, False), "int16": (22, 2, True), "uint16": (23, 2, False),
       "int32": (24, 4, True), "uint32": (25, 4, False)}


def nontrivial(labels):
    return bool(NT_LABELS & set(labels))


class Fail(Exception):
    def __init__(self, kind, **kw):
        self.info = dict(kind=kind, **kw)


# ------------------------------------------------------------------------------ data grammar
def build_data(segs):
    out = bytearray()
    for s in segs:
        if s[0] == "run":
            out += bytes([s[1]]) * s[2]
        elif s[0] == "mix":
            # no two equal neighbours: a pure "mix" for RLE
            b = s[1]
            for i in range(s[2]):
                out.append((b + i * 7 + (i // 36) * 3) % 251)
        elif s[0] == "rand":
            x = (s[1] * 2654435761 + 12345) & 0xffffffff
            for i in range(s[2]):
                x = (x * 1103515245 + 12345) & 0x7fffffff
                out.append((x >> 16) & 0xff)
        elif s[0] == "pair":
            out += bytes([s[1], s[1]]) * s[2]
    return bytes(out)


seg = st.one_of(
    st.tuples(st.just("run"), st.integers(0, 255), st.sampled_from(EDGE + [1, 2, 3, 4, 5, 1000])),
    st.tuples(st.just("mix"), st.integers(0, 255), st.sampled_from(EDGE + [1, 2, 5, 40])),
    st.tuples(st.just("rand"), st.integers(0, 999), st.sampled_from([1, 7, 64, 300, 4095, 4096, 4097])),
    st.tuples(st.just("pair"), st.integers(0, 255), st.sampled_from([1, 2, 3, 64, 65])),
)


def partition(draw, n, maxparts):
    if n == 0:
        return []
    k = draw(st.integers(1, min(maxparts, n)))
    if k == 1:
        return [n]
    cuts = sorted(set(draw(st.lists(st.integers(1, n - 1), min_size=k - 1, max_size=k - 1))))
    pts = [0] + cuts + [n]
    return [pts[i + 1] - pts[i] for i in range(len(pts) - 1)]


@st.composite
def coder_case(draw, tier):
    coder = draw(st.sampled_from([NONE, RLE, RLE, SKPHUFF, SKPHUFF, DEFLATE, DEFLATE]))
    param = 0
    if coder == SKPHUFF:
        param = draw(st.integers(1, 9))
    elif coder == DEFLATE:
        param = draw(st.integers(0, 9))
    big = draw(st.integers(0, 99)) < (3 if tier == "quick" else 6)
    segs = [list(x) for x in draw(st.lists(seg, min_size=0 if not big else 1, max_size=6))]
    if big:
        segs.append(["rand", draw(st.integers(0, 99)), draw(st.sampled_from([66000, 70000]))])
        segs.append(["run", 7, draw(st.sampled_from([300, 5000]))])
    data = build_data(segs)
    n = len(data)
    wparts = partition(draw, n, 12)
    sessions = []
    for _ in range(draw(st.integers(1, 2))):
        ops = []
        for _k in range(draw(st.integers(1, 8))):
            if draw(st.integers(0, 9)) < 4:
                ops.append(["sk", draw(st.integers(0, max(n, 0)))])
            else:
                ops.append(["r", draw(st.sampled_from([0, 1, 2, 3, 5, 64, 127, 128, 129, 300, 4096, 5000, 100000]))])
        sessions.append(ops)
    rewrite = None
    if n > 0 and draw(st.integers(0, 9)) < 3:
        segs2 = [list(x) for x in draw(st.lists(seg, min_size=1, max_size=4))]
        d2 = build_data(segs2)
        if len(d2) < n:
            segs2.append(["run", 9, n - len(d2)])
        d2 = build_data(segs2)
        appends = [list(x) for x in draw(st.lists(seg, min_size=0, max_size=2))]
        rewrite = {"segs": segs2, "appends": appends}
    return {"kind": "coder", "coder": coder, "param": param, "segs": segs, "wparts": wparts,
            "sessions": sessions, "rewrite": rewrite, "reopen": draw(st.booleans())}


@st.composite
def nbit_case(draw, tier):
    nt = draw(st.sampled_from(sorted(NTS)))
    code, size, signed = NTS[nt]
    bits = size * 8
    start = draw(st.integers(0, bits - 1))
    blen = draw(st.integers(1, start + 1))
    nvals = draw(st.integers(1, 300 if draw(st.integers(0, 9)) else 700))
    seed = draw(st.integers(0, 9999))
    reads = []
    for _k in range(draw(st.integers(1, 8))):
        if draw(st.integers(0, 9)) < 3:
            reads.append(["sk", draw(st.integers(0, nvals))])
        else:
            reads.append(["r", draw(st.sampled_from([1, 2, 3, 4, 10, 16, 63, 64, 65, 100, 256, 257, 1000]))])
    wparts = partition(draw, nvals, 5)
    return {"kind": "nbit", "nt": nt, "start": start, "len": blen, "sign": draw(st.integers(0, 1)),
            "fill": draw(st.integers(0, 1)), "nvals": nvals, "seed": seed, "wparts": wparts, "reads": reads,
            "reopen": draw(st.booleans())}


@st.composite
def bits_case(draw, tier):
    n = draw(st.integers(1, 60 if draw(st.integers(0, 9)) else 3000))
    widths = draw(st.lists(st.sampled_from([1, 1, 2, 3, 5, 7, 8, 9, 13, 15, 16, 17, 24, 31, 32]), min_size=n,
                           max_size=n))
    seed = draw(st.integers(0, 9999))
    flush = draw(st.sampled_from([0, 1]))
    reads = []
    for _k in range(draw(st.integers(1, 14))):
        if draw(st.integers(0, 9)) < 3:
            reads.append(["sk", draw(st.integers(0, 12000)), draw(st.integers(0, 7))])
        else:
            reads.append(["r", draw(st.sampled_from([1, 2, 3, 7, 8, 9, 15, 16, 17, 31, 32]))])
    return {"kind": "bits", "widths": widths, "seed": seed, "flush": flush, "reads": reads,
            "reopen": draw(st.booleans())}


def strategy(tier):
    return st.one_of(coder_case(tier), coder_case(tier), nbit_case(tier), bits_case(tier))


# ------------------------------------------------------------------------------ helpers
def cinfo_bytes(coder, param, nb=None):
    b = bytearray(20)
    if coder == SKPHUFF or coder == DEFLATE:
        struct.pack_into("=i", b, 0, param)
    elif coder == NBIT:
        nt, sign, fill, start, ln = nb
        struct.pack_into("=iiiii", b, 0, nt, sign, fill, start, ln)
    return bytes(b)


def rle_decode(raw, total):
    out = bytearray()
    i = 0
    while len(out) < total:
        if i >= len(raw):
            raise ValueError("RLE stream ends early at %d/%d" % (len(out), total))
        c = raw[i]; i += 1
        if c & 0x80:
            n = (c & 0x7f) + 3
            if i >= len(raw):
                raise ValueError("RLE run without byte")
            out += bytes([raw[i]]) * n; i += 1
        else:
            n = (c & 0x7f) + 1
            if i + n > len(raw):
                raise ValueError("RLE mix overruns stream")
            out += raw[i:i + n]; i += n
    return bytes(out[:total])


def vals_for(case):
    code, size, signed = NTS[case["nt"]]
    bits = size * 8
    x = case["seed"] * 7919 + 17
    vals = []
    specials = [0, (1 << bits) - 1, 1 << (bits - 1), (1 << (bits - 1)) - 1, 1, 0x55555555 & ((1 << bits) - 1),
                0xAAAAAAAA & ((1 << bits) - 1), 1 << case["start"], (1 << case["start"]) - 1]
    for i in range(case["nvals"]):
        if i < len(specials):
            vals.append(specials[i])
        else:
            x = (x * 1103515245 + 12345) & 0x7fffffff
            y = (x * 69069 + 1) & 0xffffffff
            vals.append((x ^ (y << 3)) & ((1 << bits) - 1))
            x = y & 0x7fffffff
    return vals


def project(v, bits, start, ln, sign, fill):
    lo = start - ln + 1
    fmask = ((1 << ln) - 1) << lo
    allm = (1 << bits) - 1
    out = (v & fmask) | ((allm & ~fmask) if fill else 0)
    if sign:
        sbit = (v >> start) & 1
        himask = allm & ~((1 << (start + 1)) - 1)
        if sbit != fill:
            out = (out & ~himask) | (himask if sbit else 0)
    return out


# ------------------------------------------------------------------------------ coder family
known_keys = set()


def run_coder(case, d, labels):
    known_keys.clear()
    path = os.path.join(d, "c.hdf")
    data = build_data(case["segs"])
    n = len(data)
    p = Prog()
    p.call("i", "Hopen", path, 7, 0, bind="f")
    lc = p.call("i", "HCcreate", V("f"), TAG, REF, 0, bytes(16), case["coder"],
                cinfo_bytes(case["coder"], case["param"]), bind="a")
    pos = 0
    wl = []
    for k in case["wparts"]:
        wl.append((p.call("i", "Hwrite", V("a"), k, data[pos:pos + k]), k))
        pos += k
    le = p.call("i", "Hendaccess", V("a"))
    if case["reopen"]:
        p.call("i", "Hclose", V("f"))
        p.call("i", "Hopen", path, 3, 0, bind="f")
    cur = data
    checks = []     # (lineno, kind, args)

    def read_session(ops, cur):
        ls = p.call("i", "Hstartread", V("f"), TAG, REF, bind="r")
        checks.append((ls, "start", None))
        pos = 0
        backseek = False
        nreads = 0
        for op in ops:
            if op[0] == "sk":
                tgt = min(op[1], len(cur))
                if tgt < pos:
                    backseek = True
                # the same target expressed from the start, relative to the current position, or from the end
                how = (op[1] + nreads) % 3
                if how == 1:
                    checks.append((p.call("i", "Hseek", V("r"), tgt - pos, 1), "ret0", None))
                    labels.add("seek_relative")
                elif how == 2:
                    checks.append((p.call("i", "Hseek", V("r"), tgt - len(cur), 2), "ret0", None))
                    labels.add("seek_from_end")
                else:
                    checks.append((p.call("i", "Hseek", V("r"), tgt, 0), "ret0", None))
                pos = tgt
            else:
                want = op[1]
                rem = len(cur) - pos
                if rem <= 0:
                    ln = p.call("i", "Hread", V("r"), want, Out(16))
                    checks.append((ln, "atend", None))
                    continue
                if want > rem:
                    want = rem    # HCPread refuses over-long requests (DFE_RANGE): a clean refusal, not generated
                exp = rem if want == 0 else want
                ln = p.call("i", "Hread", V("r"), want, Out(exp + 8))
                checks.append((ln, "read", (pos, exp, cur)))
                pos += exp
                nreads += 1
        checks.append((p.call("i", "Hinquire", V("r"), None, None, None, Out(4), None, Out(4), None, None), "inq",
                       (len(cur), pos)))
        checks.append((p.call("i", "Hendaccess", V("r")), "ret0", None))
        return backseek, nreads

    if n > 0:
        for ops in case["sessions"]:
            bs, nr = read_session(ops, cur)
            if bs and nr >= 2 and len(case["wparts"]) >= 2:
                labels.add("partitioned_backseek")
    if case["rewrite"] and n > 0:
        d2 = build_data(case["rewrite"]["segs"])
        lw = p.call("i", "Hstartwrite", V("f"), TAG, REF, 0, bind="w")
        checks.append((lw, "start", None))
        if case.get("read_before_rewrite"):
            # directed probe of a known finding: read through the write AID first, then rewrite from 0
            checks.append((p.call("i", "Hread", V("w"), n, Out(n + 8)), "read", (0, n, cur)))
            checks.append((p.call("i", "Hseek", V("w"), 0, 0), "ret0", None))
            known_keys.add("C05-skphuff-read-then-rewrite")
        checks.append((p.call("i", "Hwrite", V("w"), len(d2), d2), "retn", len(d2)))
        cur = d2
        for s in case["rewrite"]["appends"]:
            a = build_data([s])
            checks.append((p.call("i", "Hwrite", V("w"), len(a), a), "retn", len(a)))
            cur = cur + a
        checks.append((p.call("i", "Hendaccess", V("w")), "ret0", None))
        labels.add("rewrite")
        read_session([["r", 0]] + case["sessions"][0], cur)
    lsz = p.call("i", "HCPgetdatasize", V("f"), TAG, REF, Out(4), Out(4))
    p.call("i", "Hclose", V("f"))
    p.call("i", "Hopen", path, 1, 0, bind="f")
    lg = p.call("i", "Hgetelement", V("f"), TAG, REF, Out(len(cur) + 8))
    ll = p.call("i", "Hlength", V("f"), TAG, REF)
    p.call("i", "Hclose", V("f"))
    rr = run(p, cwd=d)

    def res(ln):
        r = rr.res.get(ln)
        if r is None:
            raise Fail("crash" if rr.crashed else "no result", detail=rr.sanitizer_summary(),
                       frames=rr.crash_frames(), line=ln, text=rr.stderr[-1500:] if rr.crashed else "")
        return r

    if rr.harness_error:
        raise Fail("harness error", detail=rr.harness_error)
    if res(lc).ret == -1:
        raise Fail("HCcreate failed", coder=case["coder"], param=case["param"])
    for ln, k in wl:
        if res(ln).ret != k:
            raise Fail("Hwrite to compressed element failed", expected=k, observed=res(ln).ret)
    if res(le).ret != 0:
        raise Fail("Hendaccess after write failed")
    for ln, kind, arg in checks:
        r = res(ln)
        if kind == "start":
            if r.ret == -1:
                raise Fail("start access on compressed element failed", line=ln)
        elif kind == "ret0":
            if r.ret != 0:
                raise Fail("call failed on compressed element", line=ln, text=p.lines[ln - 1][:80])
        elif kind == "retn":
            if r.ret != arg:
                raise Fail("rewrite/append Hwrite failed", expected=arg, observed=r.ret)
        elif kind == "atend":
            if r.ret not in (0, -1):
                raise Fail("read at end of compressed element returned data", observed=r.ret)
        elif kind == "read":
            pos, exp, cur_ = arg
            if r.ret != exp:
                raise Fail("Hread count differs", pos=pos, expected=exp, observed=r.ret, coder=case["coder"])
            got = r.bufs[0][:exp]
            if got != cur_[pos:pos + exp]:
                i = next(i for i in range(exp) if got[i] != cur_[pos + i])
                raise Fail("Hread data differs", pos=pos, at=pos + i, expected=cur_[pos + i], observed=got[i],
                           coder=case["coder"], param=case["param"])
            if any(b != 0xA5 for b in r.bufs[0][exp:]):
                raise Fail("Hread wrote beyond returned count", pos=pos, count=exp)
        elif kind == "inq":
            ln_, pos_ = arg
            got_len = struct.unpack("=i", r.bufs[0])[0]
            got_pos = struct.unpack("=i", r.bufs[1])[0]
            if r.ret != 0 or got_len != ln_ or got_pos != pos_:
                raise Fail("Hinquire length/position differs", expected=[ln_, pos_], observed=[got_len, got_pos])
    r = res(lsz)
    comp_size = struct.unpack("=i", r.bufs[0])[0]
    orig_size = struct.unpack("=i", r.bufs[1])[0]
    if r.ret != 0 or orig_size != len(cur):
        raise Fail("HCPgetdatasize uncompressed size differs", expected=len(cur), observed=orig_size, ret=r.ret)
    r = res(lg)
    if len(cur) > 0:
        if r.ret != len(cur) or r.bufs[0][:len(cur)] != cur:
            raise Fail("data after reopen differs", expected_len=len(cur), observed_len=r.ret,
                       coder=case["coder"], param=case["param"])
    if res(ll).ret != len(cur):
        raise Fail("Hlength after reopen differs", expected=len(cur), observed=res(ll).ret)
    if not rr.done:
        raise Fail("crash", detail=rr.sanitizer_summary(), frames=rr.crash_frames(), text=rr.stderr[-1500:])
    # independent decode of the stored stream
    f = h4fmt.parse_file(path)
    if f.violations:
        raise Fail("closed file is not well-formed", violations=f.violations[:5])
    dd = f.find(TAG, REF)
    if dd is None or not h4fmt.is_special(dd.tag):
        raise Fail("compressed element not stored as special element")
    info = f.special_info(dd)
    if not info or info.get("code") != h4fmt.SPECIAL_COMP:
        raise Fail("special header is not a compression header", info=str(info)[:200])
    if info["length"] != len(cur):
        raise Fail("stored uncompressed length differs", expected=len(cur), observed=info["length"])
    if info["coder"] != case["coder"]:
        raise Fail("stored coder differs", expected=case["coder"], observed=info["coder"])
    cdd = f.by_key.get((h4fmt.DFTAG_COMPRESSED, info["comp_ref"]))
    if cdd is None:
        if len(cur) > 0:
            raise Fail("compressed data element missing", comp_ref=info["comp_ref"])
        return p
    raw = f.raw(cdd) or b""
    if comp_size != len(raw):
        raise Fail("HCPgetdatasize compressed size differs from stored element", expected=len(raw),
                   observed=comp_size)
    try:
        if case["coder"] == NONE:
            dec = raw[:len(cur)]
        elif case["coder"] == RLE:
            dec = rle_decode(raw, len(cur))
        elif case["coder"] == DEFLATE:
            dec = zlib.decompress(raw)[:len(cur)] if len(cur) else b""
        else:
            dec = None
    except Exception as ex:
        raise Fail("independent decoder rejects the stored stream", error=str(ex)[:200], coder=case["coder"])
    if dec is not None and dec != cur:
        raise Fail("independent decode differs from written data", coder=case["coder"])
    for s in case["segs"]:
        if s[0] in ("run", "mix") and s[2] in (126, 127, 128, 129, 130, 131):
            labels.add("limit_run")
    labels.add("coder%d" % case["coder"])
    return p


# ------------------------------------------------------------------------------ n-bit family
def run_nbit(case, d, labels):
    path = os.path.join(d, "n.hdf")
    code, size, signed = NTS[case["nt"]]
    bits = size * 8
    vals = vals_for(case)
    fmt = {1: "B", 2: "H", 4: "I"}[size]
    data = struct.pack(">%d%s" % (len(vals), fmt), *vals)
    exp_vals = [project(v, bits, case["start"], case["len"], case["sign"], case["fill"]) for v in vals]
    exp = struct.pack(">%d%s" % (len(vals), fmt), *exp_vals)
    p = Prog()
    p.call("i", "Hopen", path, 7, 0, bind="f")
    lc = p.call("i", "HCcreate", V("f"), TAG, REF, 0, bytes(16), NBIT,
                cinfo_bytes(NBIT, 0, (code, case["sign"], case["fill"], case["start"], case["len"])), bind="a")
    pos = 0
    wl = []
    for k in case["wparts"]:
        wl.append((p.call("i", "Hwrite", V("a"), k * size, data[pos:pos + k * size]), k * size))
        pos += k * size
    le = p.call("i", "Hendaccess", V("a"))
    if case["reopen"]:
        p.call("i", "Hclose", V("f"))
        p.call("i", "Hopen", path, 3, 0, bind="f")
    ls = p.call("i", "Hstartread", V("f"), TAG, REF, bind="r")
    checks = []
    pos = 0
    sizes = set()
    for op in case["reads"]:
        if op[0] == "sk":
            tgt = min(op[1], len(vals)) * size
            checks.append((p.call("i", "Hseek", V("r"), tgt, 0), "ret0", None))
            pos = tgt
        else:
            want = op[1] * size
            rem = len(exp) - pos
            if rem <= 0:
                continue
            e = min(want, rem)
            checks.append((p.call("i", "Hread", V("r"), e, Out(e + 8)), "read", (pos, e)))
            pos += e
            sizes.add(e)
    p.call("i", "Hendaccess", V("r"))
    p.call("i", "Hclose", V("f"))
    rr = run(p, cwd=d)

    def res(ln):
        r = rr.res.get(ln)
        if r is None:
            raise Fail("crash" if rr.crashed else "no result", detail=rr.sanitizer_summary(),
                       frames=rr.crash_frames(), line=ln, text=rr.stderr[-1500:] if rr.crashed else "")
        return r

    if rr.harness_error:
        raise Fail("harness error", detail=rr.harness_error)
    if res(lc).ret == -1:
        raise Fail("HCcreate(nbit) failed", nt=case["nt"], start=case["start"], len=case["len"])
    for ln, k in wl:
        if res(ln).ret != k:
            raise Fail("Hwrite to n-bit element failed", expected=k, observed=res(ln).ret)
    if res(le).ret != 0 or res(ls).ret == -1:
        raise Fail("end/start access on n-bit element failed")
    for ln, kind, arg in checks:
        r = res(ln)
        if kind == "ret0":
            if r.ret != 0:
                raise Fail("Hseek on n-bit element failed", line=ln)
        else:
            pos, e = arg
            if r.ret != e:
                raise Fail("n-bit Hread count differs", pos=pos, expected=e, observed=r.ret)
            got = r.bufs[0][:e]
            if got != exp[pos:pos + e]:
                i = next(i for i in range(e) if got[i] != exp[pos + i])
                vi = (pos + i) // size
                raise Fail("n-bit value differs from documented projection", value_index=vi,
                           written=hex(vals[vi]), expected=hex(exp_vals[vi]),
                           observed=got[(vi * size - pos):(vi * size - pos) + size].hex(), nt=case["nt"],
                           start=case["start"], len=case["len"], sign=case["sign"], fill=case["fill"],
                           read_pos=pos, read_len=e)
    if not rr.done:
        raise Fail("crash", detail=rr.sanitizer_summary(), frames=rr.crash_frames(), text=rr.stderr[-1500:])
    if len(sizes) >= 2:
        labels.add("nbit_varsize")
    labels.add("nbit")
    return p


# ------------------------------------------------------------------------------ bit I/O family
def run_bits(case, d, labels):
    path = os.path.join(d, "b.hdf")
    widths = case["widths"]
    x = case["seed"] * 31 + 7
    vals = []
    bitstr = []
    for w in widths:
        x = (x * 1103515245 + 12345) & 0x7fffffff
        y = (x * 69069 + 1) & 0xffffffff
        v = (x ^ (y << 1)) & ((1 << w) - 1)
        vals.append(v)
        bitstr.append(format(v, "0%db" % w))
        x = y & 0x7fffffff
    bits = "".join(bitstr)
    pad = (-len(bits)) % 8
    bits_p = bits + "?" * pad      # pad bits are not part of the written sequence: never compared
    nbytes = len(bits_p) // 8
    p = Prog()
    p.call("i", "Hopen", path, 7, 0, bind="f")
    ls = p.call("i", "Hstartbitwrite", V("f"), TAG, REF, 0, bind="b")
    la = p.call("i", "Hbitappendable", V("b"))
    wl = []
    for w, v in zip(widths, vals):
        wl.append((p.call("i", "Hbitwrite", V("b"), w, v), w))
    le = p.call("i", "Hendbitaccess", V("b"), case["flush"])
    if case["reopen"]:
        p.call("i", "Hclose", V("f"))
        p.call("i", "Hopen", path, 3, 0, bind="f")
    lr = p.call("i", "Hstartbitread", V("f"), TAG, REF, bind="r")
    pos = 0
    checks = []
    seeks = 0
    rw = set()
    for op in case["reads"]:
        if op[0] == "sk":
            byte = min(op[1], nbytes)
            bit = op[2] if byte < nbytes else 0
            checks.append((p.call("i", "Hbitseek", V("r"), byte, bit), "seek", None))
            pos = byte * 8 + bit
            seeks += 1
        else:
            w = op[1]
            rem = len(bits_p) - pos
            if rem < w:
                checks.append((p.call("i", "Hbitread", V("r"), w, Out(4)), "short", rem))
                pos = len(bits_p)
                continue
            checks.append((p.call("i", "Hbitread", V("r"), w, Out(4)), "read", (pos, w)))
            pos += w
            rw.add(w)
    p.call("i", "Hendbitaccess", V("r"), 0)
    ll = p.call("i", "Hlength", V("f"), TAG, REF)
    p.call("i", "Hclose", V("f"))
    rr = run(p, cwd=d)

    def res(ln):
        r = rr.res.get(ln)
        if r is None:
            raise Fail("crash" if rr.crashed else "no result", detail=rr.sanitizer_summary(),
                       frames=rr.crash_frames(), line=ln, text=rr.stderr[-1500:] if rr.crashed else "")
        return r

    if rr.harness_error:
        raise Fail("harness error", detail=rr.harness_error)
    if res(ls).ret == -1 or res(la).ret != 0:
        raise Fail("Hstartbitwrite/Hbitappendable failed")
    for ln, w in wl:
        if res(ln).ret != w:
            raise Fail("Hbitwrite failed", width=w, observed=res(ln).ret)
    if res(le).ret != 0:
        raise Fail("Hendbitaccess failed")
    if res(lr).ret == -1:
        raise Fail("Hstartbitread failed")
    for ln, kind, arg in checks:
        r = res(ln)
        if kind == "seek":
            if r.ret != 0:
                raise Fail("Hbitseek failed", line=ln, text=p.lines[ln - 1])
        elif kind == "short":
            pass    # reading past the stored bits: outside the property (only: no crash)
        else:
            pos, w = arg
            win = bits_p[pos:pos + w]
            got = struct.unpack("=I", r.bufs[0])[0]
            if "?" in win:
                if r.ret != w:
                    raise Fail("Hbitread inside the element failed", bitpos=pos, width=w, ret=r.ret)
                k = win.index("?")
                if k == 0 or (got >> (w - k)) == int(win[:k], 2):
                    continue
                raise Fail("Hbitread differs from written bit sequence (before pad)", bitpos=pos, width=w)
            want = int(win, 2)
            if r.ret != w or got != want:
                raise Fail("Hbitread differs from written bit sequence", bitpos=pos, width=w, expected=want,
                           observed=got, ret=r.ret)
    if res(ll).ret < nbytes:
        raise Fail("bit element shorter than the bits written", expected_min=nbytes, observed=res(ll).ret)
    if not rr.done:
        raise Fail("crash", detail=rr.sanitizer_summary(), frames=rr.crash_frames(), text=rr.stderr[-1500:])
    if len(set(widths)) >= 3 and seeks >= 1 and len(rw) >= 1:
        labels.add("bits_mixed")
    labels.add("bits")
    return p


def sample_of(case):
    s = dict(case)
    for k in ("widths",):
        if k in s and len(s[k]) > 20:
            s[k] = s[k][:20] + ["..."]
    return s


def run_case(case):
    labels = set()
    with CaseDir() as d:
        try:
            if case["kind"] == "coder":
                run_coder(case, d, labels)
            elif case["kind"] == "nbit":
                run_nbit(case, d, labels)
            else:
                run_bits(case, d, labels)
        except Fail as f:
            f.info["known_keys"] = sorted(known_keys)
            return CaseResult(labels=labels, failure=f.info, sample=sample_of(case))
    return CaseResult(labels=labels, sample=sample_of(case))


def known_match(case, failure, entry):
    # only the directed probe (read_before_rewrite) can carry the tag; the generator never mixes a read into
    # a rewriting access
    return bool(case.get("read_before_rewrite")) and case.get("coder") == SKPHUFF and \
        entry["key"] in failure.get("known_keys", [])
