"""C08 — Vgroup membership, naming and hierarchy persist exactly as edited."""
import os, struct
from hypothesis import strategies as st
from h4verif.exe import Prog, V, Out, OutS, InOut, run, CaseDir, i32s, un_i32s, un_u16s
from h4verif.runner import CaseResult

PROPERTY = "C08"
LEVEL = "exploration"
NEED = ("h4x",)
RULE = ("histories (<=40 ops) over up to 5 vgroups and 3 vdatas: Vattach(-1,w), Vsetname/Vsetclass (lengths 0..300), "
        "Vaddtagref (arbitrary tag/refs, duplicates), bulk additions crossing 64/128 members, Vinsert of vgroup and "
        "vdata handles, Vdeletetagref, Vdetach, re-attach w/r, Vdelete, VSdelete, Vend/Hclose/reopen; observers "
        "Vntagrefs/Vgettagrefs/Vgettagref/Vinqtagref/Vnrefs/Vinquire/Vgetnext/Visvg/Visvs/Vgetname/Vgetclass/Vgetnamelen/Vlone/VSlone/Vgetid and "
        "VSgetid iteration/Vfind/VSfind/Vfindclass/Vgetvgroups/VSgetvdatas after every mutator and after a final "
        "reopen, against a multigraph model. Non-trivial = delete in the middle, duplicate member, >=65 members, "
        "or an edit after reopen.")
BUDGET = {"quick": {"shards": 8, "cases": 200}, "thorough": {"shards": 16, "cases": 2500}}
MIN_NT = {"quick": 500, "thorough": 8000}
ASSUMPTIONS = ["Vdelete/VSdelete only on detached objects", "no attributes (C10) in these files, so no internal "
               "vgroups/vdatas exist", "a vgroup is not inserted into itself"]
NT_LABELS = {"delete_middle", "duplicate_member", "many_members", "edit_after_reopen"}
DFTAG_VG, DFTAG_VH = 1965, 1962
NG, NV = 5, 3
UTAGS = [1000, 1001, 720]


def nontrivial(labels):
    return bool(NT_LABELS & set(labels))


class Fail(Exception):
    def __init__(self, kind, **kw):
        self.info = dict(kind=kind, **kw)


names_st = st.one_of(st.sampled_from(["", "a", "grp", "same", "same", "with space", "x" * 63, "y" * 64, "z" * 65,
                                      "q" * 300,
                                      # long names that agree in their first 64 / 128 characters (legacy buffer sizes)
                                      "p" * 64, "p" * 64 + "A", "p" * 64 + "B", "p" * 70, "r" * 128 + "x",
                                      "r" * 128 + "y"]), st.text(alphabet="abcXYZ_09", min_size=1, max_size=12))


@st.composite
def strategy_(draw, tier):
    ops = []
    ex = [False] * NG
    att = [None] * NG
    vex = [False] * NV
    for _ in range(draw(st.integers(4, 40))):
        c = draw(st.integers(0, 99))
        wr = [g for g in range(NG) if att[g] == "w"]
        free = [g for g in range(NG) if not ex[g]]
        det = [g for g in range(NG) if ex[g] and att[g] is None]
        anyatt = [g for g in range(NG) if att[g] is not None]
        if (c < 12 or not wr) and free:
            g = draw(st.sampled_from(free))
            ops.append(["vnew", g]); ex[g], att[g] = True, "w"
        elif c < 18 and wr:
            ops.append(["setname", draw(st.sampled_from(wr)), draw(names_st)])
        elif c < 23 and wr:
            ops.append(["setclass", draw(st.sampled_from(wr)), draw(names_st)])
        elif c < 43 and wr:
            ops.append(["add", draw(st.sampled_from(wr)), draw(st.sampled_from(UTAGS)), draw(st.integers(1, 5))])
        elif c < 46 and wr:
            ops.append(["addmany", draw(st.sampled_from(wr)), draw(st.sampled_from(UTAGS)),
                        draw(st.sampled_from([20, 62, 63, 64, 65, 130]))])
        elif c < 54 and wr and len(anyatt) >= 2:
            g = draw(st.sampled_from(wr))
            h = draw(st.sampled_from([x for x in anyatt if x != g]))
            ops.append(["insg", g, h])
        elif c < 59 and wr and any(vex):
            ops.append(["insv", draw(st.sampled_from(wr)), draw(st.sampled_from([v for v in range(NV) if vex[v]]))])
        elif c < 72 and wr:
            if draw(st.booleans()):
                ops.append(["deltr", draw(st.sampled_from(wr)), draw(st.sampled_from(UTAGS)), draw(st.integers(1, 5))])
            else:
                ops.append(["delpos", draw(st.sampled_from(wr)), draw(st.sampled_from([0, 0, 1, 2, 3, 5, 10, 63, 64, 70]))])
        elif c < 77 and anyatt:
            g = draw(st.sampled_from(anyatt))
            ops.append(["detach", g]); att[g] = None
        elif c < 84 and det:
            g = draw(st.sampled_from(det))
            m = draw(st.sampled_from(["w", "w", "r"]))
            ops.append(["attach", g, m]); att[g] = m
        elif c < 87 and det:
            g = draw(st.sampled_from(det))
            ops.append(["vdelete", g]); ex[g] = False
        elif c < 91:
            v = draw(st.integers(0, NV - 1))
            if not vex[v]:
                ops.append(["vsnew", v, draw(names_st)]); vex[v] = True
            else:
                ops.append(["vsdelete", v]); vex[v] = False
        elif c < 96:
            ops.append(["reopen"])
            att = [None] * NG
        else:
            ops.append(["find", draw(names_st)])
    return {"ops": ops}


def strategy(tier):
    return strategy_(tier)


class G:
    def __init__(self):
        self.ref = None
        self.members = []       # list of (tag, ref) with ref possibly ("g", i) / ("v", i)
        self.name = ""
        self.cls = ""
        self.attached = None    # None | 'w' | 'r'
        self.exists = False


def emit(case, path):
    """Static emission; observation lines carry roles; model runs at check time."""
    p = Prog()
    steps = []

    def S(role, ln, *a):
        steps.append((role, ln, a))

    S("open", p.call("i", "Hopen", path, 7, 0, bind="f"))
    S("ret0", p.call("i", "Vinitialize", V("f")), "Vstart")
    # shadow state: existence/attachment only (deterministic given the ops)
    ex = [False] * NG
    att = [None] * NG
    vex = [False] * NV
    nmem = [0] * NG

    def observe_group(g):
        S("ntagrefs", p.call("i", "Vntagrefs", V("g%d" % g)), g)
        S("gettagrefs", p.call("i", "Vgettagrefs", V("g%d" % g), Out(4 * 400), Out(4 * 400), 400), g)
        S("getname", p.call("i", "Vgetname", V("g%d" % g), OutS(400)), g)
        S("getclass", p.call("i", "Vgetclass", V("g%d" % g), OutS(400)), g)
        S("namelen", p.call("i", "Vgetnamelen", V("g%d" % g), Out(2)), g)
        for t in UTAGS + [DFTAG_VG, DFTAG_VH]:
            S("nrefs", p.call("i", "Vnrefs", V("g%d" % g), t), g, t)
        S("inq", p.call("i", "Vinqtagref", V("g%d" % g), UTAGS[0], 3), g, UTAGS[0], 3)
        S("tagref0", p.call("i", "Vgettagref", V("g%d" % g), 0, Out(4), Out(4)), g, 0)
        S("inquire", p.call("i", "Vinquire", V("g%d" % g), Out(4), OutS(400)), g)
        S("getnext", p.call("i", "Vgetnext", V("g%d" % g), -1), g)
        for h in range(NG):
            if ex[h]:
                S("isvg", p.call("i", "Visvg", V("g%d" % g), V("gr%d" % h)), g, h)
                break
        for v in range(NV):
            if vex[v]:
                S("isvs", p.call("i", "Visvs", V("g%d" % g), V("vr%d" % v)), g, v)
                break

    def observe_file():
        S("vgids", p.call("i", "hx_vgetid_all", V("f"), Out(4 * 64), 64))
        S("vsids", p.call("i", "hx_vsgetid_all", V("f"), Out(4 * 64), 64))
        S("vlone", p.call("i", "Vlone", V("f"), Out(4 * 64), 64))
        S("vslone", p.call("i", "VSlone", V("f"), Out(4 * 64), 64))
        S("getvgroups", p.call("i", "Vgetvgroups", V("f"), 0, 64, Out(2 * 64)))
        S("getvdatas", p.call("i", "VSgetvdatas", V("f"), 0, 64, Out(2 * 64)))

    for i, op in enumerate(case["ops"]):
        k = op[0]
        if k == "vnew":
            g = op[1]
            if ex[g]:
                continue
            S("vnew", p.call("i", "Vattach", V("f"), -1, "w", bind="g%d" % g), g)
            S("vref", p.call("i", "VQueryref", V("g%d" % g), bind="gr%d" % g), g)
            ex[g], att[g] = True, "w"
            observe_file()
        elif k in ("setname", "setclass"):
            g = op[1]
            if att[g] != "w":
                continue
            S(k, p.call("i", "Vsetname" if k == "setname" else "Vsetclass", V("g%d" % g), op[2]), g, op[2])
            observe_group(g)
        elif k == "add":
            g = op[1]
            if att[g] != "w":
                continue
            S("add", p.call("i", "Vaddtagref", V("g%d" % g), op[2], op[3]), g, op[2], op[3])
            observe_group(g)
        elif k == "addmany":
            g = op[1]
            if att[g] != "w":
                continue
            p.raw("!repeat %d" % op[3])
            ln = len(p.lines)
            p.call("i", "Vaddtagref", V("g%d" % g), op[2], V("i", 100))
            p.raw("!end")
            S("addmany", ln, g, op[2], op[3])
            observe_group(g)
        elif k == "insg":
            g, h = op[1], op[2]
            if att[g] != "w" or att[h] is None or g == h:
                continue
            S("insg", p.call("i", "Vinsert", V("g%d" % g), V("g%d" % h)), g, h)
            observe_group(g)
            observe_file()
        elif k == "insv":
            g, v = op[1], op[2]
            if att[g] != "w" or not vex[v]:
                continue
            # attach the vdata read-only just for the insertion
            S("nofail", p.call("i", "VSattach", V("f"), V("vr%d" % v), "r", bind="vk"), "VSattach")
            S("insv", p.call("i", "Vinsert", V("g%d" % g), V("vk")), g, v)
            S("ret0", p.call("i", "VSdetach", V("vk")), "VSdetach")
            observe_group(g)
            observe_file()
        elif k == "deltr":
            g = op[1]
            if att[g] != "w":
                continue
            S("deltr", p.call("i", "Vdeletetagref", V("g%d" % g), op[2], op[3]), g, op[2], op[3])
            observe_group(g)
        elif k == "delpos":
            g = op[1]
            if att[g] != "w":
                continue
            # look the member up, then delete it by its tag/ref (helper does both, returns -5 when out of range)
            S("delpos", p.call("i", "hx_vdelete_at", V("g%d" % g), op[2]), g, op[2])
            observe_group(g)
            observe_file()
        elif k == "detach":
            g = op[1]
            if att[g] is None:
                continue
            S("ret0", p.call("i", "Vdetach", V("g%d" % g)), "Vdetach")
            S("detached", None, g)
            att[g] = None
        elif k == "attach":
            g = op[1]
            if not ex[g] or att[g] is not None:
                continue
            S("attach", p.call("i", "Vattach", V("f"), V("gr%d" % g), op[2], bind="g%d" % g), g, op[2])
            att[g] = op[2]
            observe_group(g)
        elif k == "vdelete":
            g = op[1]
            if not ex[g] or att[g] is not None:
                continue
            S("vdelete", p.call("i", "Vdelete", V("f"), V("gr%d" % g)), g)
            ex[g] = False
            observe_file()
        elif k == "vsnew":
            v = op[1]
            if vex[v]:
                continue
            S("nofail", p.call("i", "VSattach", V("f"), -1, "w", bind="vk"), "VSattach new")
            S("ret0", p.call("i", "VSfdefine", V("vk"), "x", 24, 1), "VSfdefine")
            S("ret0", p.call("i", "VSsetfields", V("vk"), "x"), "VSsetfields")
            S("retn", p.call("i", "VSwrite", V("vk"), i32s(7 + v), 1, 0), 1, "VSwrite")
            S("ret0", p.call("i", "VSsetname", V("vk"), op[2][:60]), "VSsetname")
            S("vsref", p.call("i", "VSQueryref", V("vk"), bind="vr%d" % v), v, op[2][:60])
            S("ret0", p.call("i", "VSdetach", V("vk")), "VSdetach")
            vex[v] = True
            observe_file()
        elif k == "vsdelete":
            v = op[1]
            if not vex[v]:
                continue
            S("vsdelete", p.call("i", "VSdelete", V("f"), V("vr%d" % v)), v)
            vex[v] = False
            observe_file()
        elif k == "find":
            S("vfind", p.call("i", "Vfind", V("f"), op[1]), op[1])
            S("vsfind", p.call("i", "VSfind", V("f"), op[1][:60]), op[1][:60])
            S("vfindclass", p.call("i", "Vfindclass", V("f"), op[1]), op[1])
        elif k == "reopen":
            for g in range(NG):
                if att[g] is not None:
                    S("ret0", p.call("i", "Vdetach", V("g%d" % g)), "Vdetach")
                    S("detached", None, g)
                    att[g] = None
            S("ret0", p.call("i", "Vfinish", V("f")), "Vend")
            S("ret0", p.call("i", "Hclose", V("f")), "Hclose")
            S("reopen", p.call("i", "Hopen", path, 3, 0, bind="f"))
            S("ret0", p.call("i", "Vinitialize", V("f")), "Vstart")
            observe_file()
    # epilogue: detach all, reopen read-only, observe everything
    for g in range(NG):
        if att[g] is not None:
            S("ret0", p.call("i", "Vdetach", V("g%d" % g)), "Vdetach")
            S("detached", None, g)
            att[g] = None
    S("ret0", p.call("i", "Vfinish", V("f")), "Vend")
    S("ret0", p.call("i", "Hclose", V("f")), "Hclose")
    S("reopen", p.call("i", "Hopen", path, 1, 0, bind="f"))
    S("ret0", p.call("i", "Vinitialize", V("f")), "Vstart")
    observe_file()
    for g in range(NG):
        if ex[g]:
            S("attach", p.call("i", "Vattach", V("f"), V("gr%d" % g), "r", bind="g%d" % g), g, "r")
            observe_group(g)
            S("ret0", p.call("i", "Vdetach", V("g%d" % g)), "Vdetach")
    S("ret0", p.call("i", "Vfinish", V("f")), "Vend")
    S("ret0", p.call("i", "Hclose", V("f")), "Hclose")
    return p, steps


def check(case, rr, prog, steps, labels):
    gs = [G() for _ in range(NG)]
    vs = {}          # vdata slot -> (ref, name)
    reopened = False

    def res(ln):
        r = rr.res.get(ln)
        if r is None:
            raise Fail("crash" if rr.crashed else "no result", detail=rr.sanitizer_summary(),
                       frames=rr.crash_frames(), call=prog.lines[ln - 1][:100],
                       text=rr.stderr[-1500:] if rr.crashed else "")
        return r

    def resolve(m):
        t, r = m
        if isinstance(r, tuple):
            kind, i = r
            return (t, gs[i].ref if kind == "g" else vs_ref[i])
        return (t, r)

    vs_ref = {}

    def members(g):
        return [resolve(m) for m in gs[g].members]

    def all_groups():
        return {g.ref: g for g in gs if g.exists}

    def lone_groups():
        ex = all_groups()
        inside = set()
        for g in gs:
            if g.exists:
                for (t, r) in [resolve(m) for m in g.members]:
                    if t == DFTAG_VG:
                        inside.add(r)
        return sorted(r for r in ex if r not in inside)

    def lone_vdatas():
        inside = set()
        for g in gs:
            if g.exists:
                for (t, r) in [resolve(m) for m in g.members]:
                    if t == DFTAG_VH:
                        inside.add(r)
        return sorted(r for r in vs_ref.values() if r not in inside)

    for role, ln, a in steps:
        if role == "detached":
            gs[a[0]].attached = None
            continue
        r = res(ln)
        what = prog.lines[ln - 1][:90]
        if role in ("open", "reopen"):
            if r.ret == -1:
                raise Fail("Hopen failed")
            if role == "reopen":
                reopened = True
        elif role == "ret0":
            if r.ret != 0:
                raise Fail("%s failed" % a[0], call=what)
        elif role == "retn":
            if r.ret != a[0]:
                raise Fail("%s returned %s" % (a[1], r.ret))
        elif role == "nofail":
            if r.ret == -1:
                raise Fail("%s failed" % a[0], call=what)
        elif role == "vnew":
            if r.ret == -1:
                raise Fail("Vattach(-1) failed")
            g = gs[a[0]]
            g.__init__()
            g.exists, g.attached = True, "w"
        elif role == "vref":
            g = gs[a[0]]
            if r.ret <= 0:
                raise Fail("VQueryref failed")
            if r.ret in [x.ref for x in gs if x.exists and x is not g]:
                raise Fail("new vgroup got the reference of an existing vgroup", ref=r.ret)
            g.ref = r.ret
        elif role == "vsref":
            if r.ret <= 0:
                raise Fail("VSQueryref failed")
            vs_ref[a[0]] = r.ret
            vs[a[0]] = a[1]
        elif role in ("setname", "setclass"):
            if r.ret != 0:
                raise Fail("%s failed" % role, value_len=len(a[1]))
            if role == "setname":
                gs[a[0]].name = a[1]
            else:
                gs[a[0]].cls = a[1]
            if reopened:
                labels.add("edit_after_reopen")
        elif role == "add":
            g, t, rf = a
            if r.ret == -1:
                raise Fail("Vaddtagref failed", call=what)
            if (t, rf) in members(g):
                labels.add("duplicate_member")
            gs[g].members.append((t, rf))
            if reopened:
                labels.add("edit_after_reopen")
        elif role == "addmany":
            g, t, n = a
            if r.kind != "P" or r.ret["nfail"] != 0:
                raise Fail("bulk Vaddtagref failed", summary=str(r.ret))
            for i in range(n):
                gs[g].members.append((t, 100 + i))
            if len(gs[g].members) >= 65:
                labels.add("many_members")
        elif role == "insg":
            g, h = a
            if (DFTAG_VG, gs[h].ref) in members(g):
                if r.ret != -1:
                    raise Fail("Vinsert of an already contained vgroup succeeded")
            else:
                if r.ret == -1:
                    raise Fail("Vinsert(vgroup) failed")
                gs[g].members.append((DFTAG_VG, gs[h].ref))
                labels.add("nested")
        elif role == "insv":
            g, v = a
            if (DFTAG_VH, vs_ref[v]) in members(g):
                if r.ret != -1:
                    raise Fail("Vinsert of an already contained vdata succeeded")
            else:
                if r.ret == -1:
                    raise Fail("Vinsert(vdata) failed")
                gs[g].members.append((DFTAG_VH, vs_ref[v]))
        elif role == "deltr":
            g, t, rf = a
            ms = members(g)
            if (t, rf) in ms:
                if r.ret != 0:
                    raise Fail("Vdeletetagref failed for a member")
                i = ms.index((t, rf))
                if i < len(ms) - 1:
                    labels.add("delete_middle")
                del gs[g].members[i]
            elif r.ret != -1:
                raise Fail("Vdeletetagref succeeded for a non-member")
        elif role == "delpos":
            g, pos_ = a
            ms = members(g)
            if pos_ >= len(ms):
                if r.ret != -5:
                    raise Fail("Vgettagref beyond the member count succeeded", pos=pos_, count=len(ms))
            else:
                if r.ret != 0:
                    raise Fail("deleting member by position failed", ret=r.ret)
                # Vdeletetagref removes the first occurrence of that tag/ref
                i = ms.index(ms[pos_])
                if i < len(ms) - 1:
                    labels.add("delete_middle")
                del gs[g].members[i]
        elif role == "attach":
            g, mode = a
            if r.ret == -1:
                raise Fail("Vattach of an existing vgroup failed", mode=mode)
            gs[g].attached = mode
        elif role == "vdelete":
            if r.ret != 0:
                raise Fail("Vdelete failed")
            gs[a[0]].exists = False
        elif role == "vsdelete":
            if r.ret != 0:
                raise Fail("VSdelete failed")
            vs_ref.pop(a[0], None)
            vs.pop(a[0], None)
        # ---------------- observers
        elif role == "ntagrefs":
            if r.ret != len(gs[a[0]].members):
                raise Fail("Vntagrefs differs from model", expected=len(gs[a[0]].members), observed=r.ret)
        elif role == "gettagrefs":
            ms = members(a[0])
            n = min(len(ms), 400)
            if r.ret != n:
                raise Fail("Vgettagrefs count differs", expected=n, observed=r.ret)
            tags = un_i32s(r.bufs[0])[:n]
            refs = un_i32s(r.bufs[1])[:n]
            got = list(zip(tags, refs))
            if got != ms[:n]:
                i = next(i for i in range(n) if got[i] != ms[i])
                raise Fail("Vgettagrefs member list differs from model", position=i, expected=list(ms[i]),
                           observed=list(got[i]), count=n)
        elif role == "getname":
            if r.ret != 0 or r.bufs[0] != gs[a[0]].name.encode():
                raise Fail("Vgetname differs", expected=gs[a[0]].name[:80], observed=str(r.bufs[0])[:80])
        elif role == "getclass":
            if r.ret != 0 or r.bufs[0] != gs[a[0]].cls.encode():
                raise Fail("Vgetclass differs", expected=gs[a[0]].cls[:80], observed=str(r.bufs[0])[:80])
        elif role == "namelen":
            n = struct.unpack("=H", r.bufs[0])[0]
            if r.ret != 0 or n != len(gs[a[0]].name):
                raise Fail("Vgetnamelen differs", expected=len(gs[a[0]].name), observed=n)
        elif role == "nrefs":
            g, t = a
            want = sum(1 for m in members(g) if m[0] == t)
            if r.ret != want:
                raise Fail("Vnrefs differs", tag=t, expected=want, observed=r.ret)
        elif role == "inq":
            g, t, rf = a
            want = 1 if (t, rf) in members(g) else 0
            if r.ret != want:
                raise Fail("Vinqtagref differs", expected=want, observed=r.ret)
        elif role == "inquire":
            g = a[0]
            n = struct.unpack("=i", r.bufs[0])[0]
            if r.ret != 0 or n != len(gs[g].members) or r.bufs[1] != gs[g].name.encode():
                raise Fail("Vinquire differs from model", expected=[len(gs[g].members), repr(gs[g].name)[:60]],
                           observed=[n, repr(r.bufs[1])[:60]], ret=r.ret)
        elif role == "getnext":
            ms = members(a[0])
            if ms and ms[0][0] in (DFTAG_VG, DFTAG_VH):
                if r.ret != ms[0][1]:
                    raise Fail("Vgetnext(-1) does not return the first member (a vgroup/vdata)", expected=ms[0][1], observed=r.ret)
            elif r.ret != -1 and not any(m[0] in (DFTAG_VG, DFTAG_VH) and m[1] == r.ret for m in ms):
                raise Fail("Vgetnext(-1) returns a ref that is not a vgroup/vdata member", observed=r.ret, members=[list(m) for m in ms][:20])
        elif role in ("isvg", "isvs"):
            g, h = a
            ref = gs[h].ref if role == "isvg" else vs_ref[h]
            want = 1 if ((DFTAG_VG if role == "isvg" else DFTAG_VH), ref) in members(g) else 0
            if r.ret != want:
                raise Fail("%s differs from model" % ("Visvg" if role == "isvg" else "Visvs"), expected=want,
                           observed=r.ret, ref=ref)
        elif role == "tagref0":
            ms = members(a[0])
            if not ms:
                if r.ret != -1:
                    raise Fail("Vgettagref on empty vgroup succeeded")
            else:
                got = (struct.unpack("=i", r.bufs[0])[0], struct.unpack("=i", r.bufs[1])[0])
                if r.ret != 0 or got != ms[0]:
                    raise Fail("Vgettagref(0) differs", expected=list(ms[0]), observed=list(got))
        elif role in ("vgids", "getvgroups"):
            want = sorted(all_groups())
            n = r.ret
            if role == "vgids":
                got = un_i32s(r.bufs[0])[:max(n, 0)]
            else:
                got = un_u16s(r.bufs[0])[:max(n, 0)]
            if n != len(want) or sorted(got) != want:
                raise Fail("%s: set of vgroups differs from model" % role, expected=want, observed=sorted(got), n=n)
            if len(set(got)) != len(got):
                raise Fail("%s visits a vgroup twice" % role, observed=got)
        elif role in ("vsids", "getvdatas"):
            want = sorted(vs_ref.values())
            n = r.ret
            got = (un_i32s(r.bufs[0]) if role == "vsids" else un_u16s(r.bufs[0]))[:max(n, 0)]
            if n != len(want) or sorted(got) != want:
                raise Fail("%s: set of vdatas differs from model" % role, expected=want, observed=sorted(got), n=n)
        elif role == "vlone":
            want = lone_groups()
            got = sorted(un_i32s(r.bufs[0])[:max(r.ret, 0)])
            if r.ret != len(want) or got != want:
                raise Fail("Vlone differs from model", expected=want, observed=got, n=r.ret)
        elif role == "vslone":
            want = lone_vdatas()
            got = sorted(un_i32s(r.bufs[0])[:max(r.ret, 0)])
            if r.ret != len(want) or got != want:
                raise Fail("VSlone differs from model", expected=want, observed=got, n=r.ret)
        elif role in ("vfind", "vfindclass", "vsfind") and a[0] == "":
            pass    # looking up the empty name is not meaningful (unnamed objects have no name at all)
        elif role == "vfind":
            cands = [g.ref for g in gs if g.exists and g.name == a[0]]
            if (r.ret == 0) != (not cands) or (cands and r.ret not in cands):
                raise Fail("Vfind differs", name=a[0][:40], candidates=cands, observed=r.ret)
        elif role == "vfindclass":
            cands = [g.ref for g in gs if g.exists and g.cls == a[0]]
            if (r.ret == 0) != (not cands) or (cands and r.ret not in cands):
                raise Fail("Vfindclass differs", cls=a[0][:40], candidates=cands, observed=r.ret)
        elif role == "vsfind":
            cands = [vs_ref[i] for i in vs_ref if vs.get(i) == a[0]]
            if (r.ret == 0) != (not cands) or (cands and r.ret not in cands):
                raise Fail("VSfind differs", name=a[0][:40], candidates=cands, observed=r.ret)


def run_case(case):
    labels = set()
    with CaseDir() as d:
        path = os.path.join(d, "g.hdf")
        prog, steps = emit(case, path)
        rr = run(prog, cwd=d)
        try:
            if rr.harness_error:
                raise Fail("harness error", detail=rr.harness_error)
            check(case, rr, prog, steps, labels)
            if not rr.done:
                raise Fail("crash", detail=rr.sanitizer_summary(), frames=rr.crash_frames(), text=rr.stderr[-1500:])
        except Fail as f:
            info = f.info
            info["program"] = prog.text()[:6000]
            return CaseResult(labels=labels, failure=info, sample=sample_of(case))
    return CaseResult(labels=labels, sample=sample_of(case))


def sample_of(case):
    return {"ops": [str(o)[:60] for o in case["ops"][:30]]}


def known_match(case, failure, entry):
    return False
