"""C20 — format limits are enforced cleanly: no wrap-around, no over-long objects."""
import os, struct
from hypothesis import strategies as st
from h4verif.exe import Prog, V, Out, OutS, run, CaseDir, i32s, un_i32s
from h4verif.runner import CaseResult
from h4verif import h4fmt

PROPERTY = "C20"
LEVEL = "exploration"
NEED = ("h4x",)
RULE = ("families of requests placed around each format limit, each followed by valid follow-up calls, a close, an "
        "independent structural validation of the file and a re-read in a fresh process: eof (sparse reserved "
        "elements summing to 2^31-1 +/- delta, then puts/appends/linked blocks/SD/Vdata writes), refs (a tag with "
        "65535-k references, then Htagnewref/Hnewref/object creation in every interface), members (Vaddtagref "
        "around 65535), fields (orders/sizes around 65535, 255..300 fields), names (lengths around 64/128/256/"
        "65535 in every name-taking call), dims (rank around 32, dimension products around 2^31/2^32), openfiles "
        "(more opens than the descriptor limit). Oracle: a request beyond the limit returns the failure value; "
        "every stored offset/length/count is in range (independent reader); data written before and after the "
        "refused request reads back; sanitizers. Non-trivial = at least one request at or beyond a limit was issued "
        "and at least one follow-up call was checked.")
BUDGET = {"quick": {"shards": 8, "cases": 160}, "thorough": {"shards": 16, "cases": 1200}}
MIN_NT = {"quick": 400, "thorough": 4000}
ASSUMPTIONS = ["2^31-1 is approached with reserved, never-written elements (sparse files on tmpfs)",
               "a request that fits is not required to succeed unless it is a small follow-up with >=1 MiB headroom",
               "getter buffers are always larger than the name that was set (the caller's side of the contract)"]
I32MAX = 2 ** 31 - 1
FAMILIES = ["eof", "members", "refs", "fields", "names", "dims", "openfiles", "chunks", "boundary"]


class Fail(Exception):
    def __init__(self, kind, **info):
        self.info = dict(kind=kind, **info)


def nontrivial(labels):
    return "over_limit" in labels and "follow_up_checked" in labels


def pat(n, salt):
    return bytes((salt * 31 + i * 7 + (i >> 8)) & 0xff for i in range(n))


# ====================================================================== eof family
DELTAS = [-70000, -5000, -100, -5, -2, -1, 0, 1, 2, 5, 100, 5000, 70000, 1 << 20]


@st.composite
def eof_case(draw):
    ops = []
    est = 4 + 6 + 12 * 16            # generator-side estimate of the end-of-file offset
    n = draw(st.integers(3, 14))
    for _ in range(n):
        remaining = I32MAX - est
        c = draw(st.integers(0, 99))
        if c < 35:
            how = draw(st.integers(0, 3))
            if how == 0:
                L = draw(st.sampled_from([1 << 30, (1 << 30) - 1, 1 << 29, 3 << 28, 1 << 24]))
            elif how == 1:
                L = remaining - draw(st.sampled_from(DELTAS)) - draw(st.sampled_from([0, 0, 12, 198, 210]))
            elif how == 2:
                L = draw(st.integers(1, I32MAX))
            else:
                L = remaining // draw(st.integers(2, 5))
            L = max(1, min(L, I32MAX))
            ops.append(["reserve", L])
            if L <= remaining:
                est += L
        elif c < 55:
            k = draw(st.integers(1, 3000))
            ops.append(["put", k])
            if k <= remaining:
                est += k
        elif c < 65:
            k = draw(st.integers(1, 3000))
            ops.append(["newwrite", k])
            if k <= remaining:
                est += k
        elif c < 78:
            k = draw(st.integers(1, 3000))
            ops.append(["append", draw(st.integers(0, 30)), k])
            est += min(k, max(remaining, 0))
        elif c < 86:
            bl = draw(st.sampled_from([16, 1000, 1 << 20, 1 << 28, 1 << 30, I32MAX, max(1, remaining - 100),
                                       max(1, remaining + 100)]))
            k = draw(st.integers(1, 3000))
            ops.append(["linked", bl, draw(st.integers(1, 4)), k])
            est += min(bl, max(remaining, 0))
        elif c < 91:
            ops.append(["sd", draw(st.integers(1, 2000))])
        elif c < 96:
            ops.append(["vs", draw(st.integers(1, 500))])
        else:
            ops.append(["reopen"])
    return {"family": "eof", "cache": draw(st.booleans()), "ndds": draw(st.sampled_from([0, 0, 1, 4, 200])),
            "ops": ops}


def run_eof(case, d, labels, excluded, known_keys):
    """Executes the ops one program per segment (segments split at sd/vs/reopen) against a running model."""
    elems = []     # dict(tag, ref, len, data or None, certain)
    lb = 4         # lower bound of the end-of-file offset: nothing is ever placed below it again
    slack = 4096 + 12 * 300
    refused = False
    nref = [0]
    sds = []       # (name, data)
    vss = []       # (name, nrec)
    p = Prog()
    checks = []    # (lineno, kind, payload)

    def newref():
        nref[0] += 1
        return nref[0]

    def open_h():
        p.call("i", "Hopen", "big.hdf", 3 if os.path.exists(os.path.join(d, "big.hdf")) or opened[0] else 4,
               case["ndds"], bind="f")
        opened[0] = True
        p.call("i", "Hcache", V("f"), 1 if case["cache"] else 0)

    opened = [False]
    hopen = [False]

    def need_h():
        if not hopen[0]:
            open_h()
            hopen[0] = True

    def close_h():
        if hopen[0]:
            checks.append((p.call("i", "Hclose", V("f")), "ret0", "Hclose"))
            hopen[0] = False

    pending = []   # deferred model updates: (lineno(s), fn(results))

    for op in case["ops"]:
        k = op[0]
        if k == "reserve":
            need_h()
            L = op[1]
            ref = newref()
            l1 = p.call("i", "Hstartwrite", V("f"), 100, ref, L, bind="a")
            l2 = p.call("i", "Hendaccess", V("a"))
            pending.append(("reserve", l1, L, ref))
        elif k == "put":
            need_h()
            n = op[1]
            ref = newref()
            data = pat(n, ref)
            l1 = p.call("i", "Hputelement", V("f"), 101, ref, data, n)
            pending.append(("put", l1, n, ref, data))
        elif k == "newwrite":
            need_h()
            n = op[1]
            ref = newref()
            data = pat(n, ref)
            l0 = p.call("i", "Hstartaccess", V("f"), 102, ref, 2, bind="a")      # DFACC_WRITE, new element
            l1 = p.call("i", "Hwrite", V("a"), n, data)
            p.call("i", "Hendaccess", V("a"))
            pending.append(("newwrite", l1, n, ref, data, l0))
        elif k == "append":
            need_h()
            pending.append(("append_pick", op[1], op[2], len(p.lines)))
            # the element to append to is only known once earlier results are: emitted as a late-bound block
            # using the executor's own variables is not possible, so append targets are chosen among elements
            # whose creation is certain to have succeeded on any correct library: small puts made while
            # lb + slack < 2^31 - 1 MiB
            cands = [e for e in elems if e["kind"] in ("put", "newwrite") and e["sure"]]
            pending.pop()
            if not cands:
                continue
            e = cands[op[1] % len(cands)]
            n = op[2]
            data = pat(n, e["ref"] + 100 + e["appends"])
            l0 = p.call("i", "Hstartaccess", V("f"), e["tag"], e["ref"], 2, bind="a")
            p.call("i", "Happendable", V("a"))
            variant = op[1] % 2
            e["intended"] = e["intended"] + data
            if variant == 0:
                # rewrite from the start with the whole intended content: the element grows through Hwrite
                buf = e["intended"]
                l1 = p.call("i", "Hwrite", V("a"), len(buf), buf)
                p.call("i", "Hendaccess", V("a"))
                pending.append(("append_rw", l1, n, e, buf, l0))
            else:
                ls = p.call("i", "Hseek", V("a"), 0, 2)          # DF_END
                l1 = p.call("i", "Hwrite", V("a"), n, data)
                p.call("i", "Hendaccess", V("a"))
                pending.append(("append", l1, n, e, data, l0, ls))
            e["appends"] += 1
        elif k == "linked":
            need_h()
            bl, nb, n = op[1], op[2], op[3]
            ref = newref()
            data = pat(n, ref)
            l0 = p.call("i", "HLcreate", V("f"), 103, ref, bl, nb, bind="a")
            l1 = p.call("i", "Hwrite", V("a"), n, data)
            p.call("i", "Hendaccess", V("a"))
            pending.append(("linked", l1, n, ref, data, l0, bl))
        elif k == "sd":
            # SDend reports success even when its metadata could not be written (known finding shared with C16):
            # SD sessions are only generated while >= 2 MiB of offset range is certainly left
            if refused_possible(lb_gen(case, op, elems)):
                known_keys.add("C20-sdend-swallows-errors-at-limit")
                if not case.get("no_exclude"):
                    excluded.append("C20-sdend-swallows-errors-at-limit")
                    continue
            close_h()
            n = op[1]
            name = "sd%d" % len(sds)
            data = pat(n, 200 + len(sds))
            l0 = p.call("i", "SDstart", "big.hdf", 3 if opened[0] else 4, bind="sd")
            opened[0] = True
            p.call("i", "SDsetfillmode", V("sd"), 0x100)
            l1 = p.call("i", "SDcreate", V("sd"), name, 20, 1, i32s(n), bind="s")
            l2 = p.call("i", "SDwritedata", V("s"), i32s(0), None, i32s(n), data)
            p.call("i", "SDendaccess", V("s"))
            l3 = p.call("i", "SDend", V("sd"))
            pending.append(("sd", (l0, l1, l2, l3), n, name, data))
            sds.append(None)
        elif k == "vs":
            close_h()
            n = op[1]
            name = "vs%d" % len(vss)
            data = pat(n * 4, 300 + len(vss))
            p.call("i", "Hopen", "big.hdf", 3 if opened[0] else 4, case["ndds"], bind="f")
            opened[0] = True
            p.call("i", "Vinitialize", V("f"))
            l0 = p.call("i", "VSattach", V("f"), -1, "w", bind="v")
            p.call("i", "VSsetname", V("v"), name)
            p.call("i", "VSfdefine", V("v"), "x", 24, 1)
            p.call("i", "VSsetfields", V("v"), "x")
            l1 = p.call("i", "VSwrite", V("v"), data, n, 0)
            l2 = p.call("i", "VSdetach", V("v"))
            p.call("i", "Vfinish", V("f"))
            l3 = p.call("i", "Hclose", V("f"))
            pending.append(("vs", (l0, l1, l2, l3), n, name, data))
            vss.append(None)
        elif k == "reopen":
            close_h()
        # generation-time bookkeeping of "sure" elements (decided without looking at results)
        if k in ("put", "newwrite"):
            sure = (not refused_possible(lb_gen(case, op, elems)))
            elems.append(dict(kind=k, tag=101 if k == "put" else 102, ref=nref[0], len=op[1], data=None, sure=sure,
                              appends=0, ok=None, intended=pat(op[1], nref[0])))
        elif k == "reserve":
            elems.append(dict(kind=k, tag=100, ref=nref[0], len=op[1], data=None, sure=False, appends=0, ok=None))
        elif k == "linked":
            elems.append(dict(kind=k, tag=103, ref=nref[0], len=op[3], data=None, sure=False, appends=0, ok=None))
    close_h()
    rr = run(p, cwd=d, timeout=120)
    if not rr.done:
        raise Fail("crash", detail=rr.sanitizer_summary(), frames=rr.crash_frames(), text=rr.stderr[-1500:],
                   last_call=p.lines[rr.last_line][:100] if rr.last_line < len(p.lines) else "", program=p.text()[:5000])
    # ---- judge results against the bounds model, in program order
    byref = {(e["tag"], e["ref"]): e for e in elems}
    ub = lb + 6 + 12 * max(case["ndds"], 16)

    def r(ln):
        return rr.res[ln].ret

    for pe in pending:
        kind = pe[0]
        if kind == "reserve":
            _, l1, L, ref = pe
            e = byref[(100, ref)]
            ok = r(l1) != -1
            if lb + L > I32MAX:
                labels.add("over_limit")
                if ok:
                    raise Fail("a reservation that must end beyond 2^31-1 was accepted", call=p.lines[l1 - 1][:90],
                               lower_bound_of_eof=lb, length=L, program=p.text()[:5000])
            if ok:
                e["ok"], lb, ub = True, lb + L, ub + L + slack
            else:
                e["ok"] = False
                refused = True
                labels.add("refused")
        elif kind in ("put", "newwrite"):
            l1, n, ref, data = pe[1], pe[2], pe[3], pe[4]
            e = byref[(101 if kind == "put" else 102, ref)]
            ok = r(l1) == n and (kind == "put" or r(pe[5]) != -1)
            if lb + n > I32MAX:
                labels.add("over_limit")
                if ok:
                    raise Fail("a write that must end beyond 2^31-1 was accepted", call=p.lines[l1 - 1][:60],
                               lower_bound_of_eof=lb, length=n, program=p.text()[:5000])
            if not ok and ub + n + (1 << 20) <= I32MAX:
                raise Fail("a small follow-up element was refused although >= 1 MiB of offset range is left",
                           call=p.lines[l1 - 1][:60], ret=r(l1), upper_bound_of_eof=ub, after_refusal=refused,
                           program=p.text()[:5000])
            if ok:
                e["ok"], e["data"], lb, ub = True, data, lb + n, ub + n + slack
                if refused:
                    labels.add("follow_up_checked")
            else:
                e["ok"] = False
                refused = True
        elif kind == "append_rw":
            _, l1, n, e, buf, l0 = pe
            if not e["ok"]:
                raise Fail("harness: append target was not created", program=p.text()[:5000])
            grow = len(buf) - len(e["data"])
            ok = r(l1) == len(buf) and r(l0) != -1
            if lb + grow > I32MAX:
                labels.add("over_limit")
                if ok:
                    raise Fail("a growing rewrite that must end beyond 2^31-1 was accepted", call=p.lines[l1 - 1][:60],
                               lower_bound_of_eof=lb, growth=grow, program=p.text()[:5000])
            if ok:
                e["data"] = buf
                lb += grow
                ub += len(buf) + slack + 64
                labels.add("append_ok")
                if refused:
                    labels.add("follow_up_checked")
            else:
                refused = True
                labels.add("refused")
        elif kind == "append":
            _, l1, n, e, data, l0, ls = pe
            if not e["ok"]:
                raise Fail("harness: append target was not created", program=p.text()[:5000])
            if r(ls) == -1:
                # the seek to the end was refused: the write went to position 0 instead
                labels.add("refused")
                refused = True
                if r(l1) == n and n <= len(e["data"]):
                    e["data"] = data + e["data"][n:]
                elif r(l1) == n:
                    lb += n - len(e["data"])
                    e["data"] = data
                else:
                    e["uncertain"] = True
                continue
            ok = r(l1) == n and r(l0) != -1
            if lb + n > I32MAX:
                labels.add("over_limit")
                if ok:
                    raise Fail("an append that must end beyond 2^31-1 was accepted", call=p.lines[l1 - 1][:60],
                               lower_bound_of_eof=lb, length=n, program=p.text()[:5000])
            if ok:
                e["data"] = e["data"] + data
                lb += n
                ub += len(e["data"]) + n + slack + 64      # promotion to linked blocks may relocate nothing but adds blocks
                labels.add("append_ok")
                if refused:
                    labels.add("follow_up_checked")
            else:
                e["prefix_only"] = True
                refused = True
        elif kind == "linked":
            _, l1, n, ref, data, l0, bl = pe
            e = byref[(103, ref)]
            ok = r(l0) != -1 and r(l1) == n
            if lb + n > I32MAX:
                labels.add("over_limit")
                if ok:
                    raise Fail("a linked-block write that must end beyond 2^31-1 was accepted",
                               call=p.lines[l1 - 1][:60], lower_bound_of_eof=lb, program=p.text()[:5000])
            if bl > I32MAX - lb:
                labels.add("over_limit")
            if ok:
                e["ok"], e["data"] = True, data
                nblk = (n + bl - 1) // bl
                lb += n
                ub += nblk * bl + 2000 + slack
                if refused:
                    labels.add("follow_up_checked")
            else:
                e["ok"] = False
                refused = True
        elif kind == "sd":
            _, (l0, l1, l2, l3), n, name, data = pe
            ok = all(r(x) != -1 for x in (l0, l1, l2, l3))
            idx = int(name[2:])
            if ok:
                sds[idx] = (name, data)
                lb += n
                ub += n + 8000
                if refused:
                    labels.add("follow_up_checked")
            else:
                refused = True
                ub += n + 8000
                if r(l0) == -1:
                    raise Fail("SDstart failed on the file", program=p.text()[:5000])
        elif kind == "vs":
            _, (l0, l1, l2, l3), n, name, data = pe
            ok = r(l0) != -1 and r(l1) == n and r(l2) != -1 and r(l3) != -1
            idx = int(name[2:])
            if ok:
                vss[idx] = (name, n, data)
                lb += 4 * n
                ub += 4 * n + 4000
                if refused:
                    labels.add("follow_up_checked")
            else:
                refused = True
                ub += 4 * n + 4000
    for ln, ck, pay in checks:
        if ck == "ret0" and r(ln) != 0:
            raise Fail("%s failed" % pay, ret=r(ln), program=p.text()[:5000])
    # ---- independent structural validation
    path = os.path.join(d, "big.hdf")
    if not os.path.exists(path):
        return          # the program contained no file operation
    size = os.path.getsize(path)
    if size > I32MAX:
        raise Fail("the file is longer than 2^31-1 bytes", size=size, program=p.text()[:5000])
    f = h4fmt.parse_file_mmap(path)
    try:
        if f.violations:
            raise Fail("file is not well-formed after requests around the 2^31-1 limit", violations=f.violations[:5],
                       program=p.text()[:5000])
        for dd in f.dds:
            if dd.off >= 0 and dd.len >= 0 and dd.off + dd.len > I32MAX:
                raise Fail("a descriptor ends beyond 2^31-1", dd=repr(dd), program=p.text()[:5000])
        for e in elems:
            if not e["ok"]:
                continue
            dd = f.find(e["tag"], e["ref"])
            if dd is None:
                raise Fail("an element whose creation succeeded is missing from the file", tag=e["tag"], ref=e["ref"],
                           program=p.text()[:5000])
            if e["kind"] == "reserve":
                if dd.len != e["len"]:
                    raise Fail("reserved element has a different length in the file", want=e["len"], got=dd.len,
                               program=p.text()[:5000])
            elif e["data"] is not None and not h4fmt.is_special(dd.tag) and not e.get("uncertain"):
                got = bytes(f.data[dd.off:dd.off + dd.len])
                if e.get("prefix_only"):
                    if got[:len(e["data"])] != e["data"]:
                        raise Fail("element content damaged by a refused append", tag=e["tag"], ref=e["ref"],
                                   program=p.text()[:5000])
                elif got != e["data"]:
                    raise Fail("element content differs in the file", tag=e["tag"], ref=e["ref"], want_len=len(e["data"]),
                               got_len=len(got), program=p.text()[:5000])
    finally:
        f.data.close()
    # ---- library re-read in a fresh process
    q = Prog()
    q.call("i", "Hopen", "big.hdf", 1, 0, bind="f")
    rchecks = []
    for e in elems:
        if e["ok"] and e["kind"] == "reserve":
            rchecks.append((q.call("i", "Hlength", V("f"), e["tag"], e["ref"]), "eq", e["len"]))
        elif e["ok"] and e["data"] is not None and not e.get("uncertain"):
            ln = q.call("i", "Hgetelement", V("f"), e["tag"], e["ref"], Out(len(e["data"]) + 8 + 3000 * e["appends"]))
            rchecks.append((ln, "data", (e["data"], bool(e.get("prefix_only")))))
    vsl = [x for x in vss if x]
    if vsl:
        q.call("i", "Vinitialize", V("f"))
        for (name, n, data) in vsl:
            q.call("i", "VSfind", V("f"), name, bind="vr")
            q.call("i", "VSattach", V("f"), V("vr"), "r", bind="v")
            q.call("i", "VSsetfields", V("v"), "x")
            rchecks.append((q.call("i", "VSread", V("v"), Out(4 * n), n, 0), "vs", (n, data)))
            q.call("i", "VSdetach", V("v"))
        q.call("i", "Vfinish", V("f"))
    rchecks.append((q.call("i", "Hclose", V("f")), "eq", 0))
    sdl = [x for x in sds if x]
    if sdl:
        q.call("i", "SDstart", "big.hdf", 1, bind="sd")
        for (name, data) in sdl:
            q.call("i", "SDnametoindex", V("sd"), name, bind="ix")
            q.call("i", "SDselect", V("sd"), V("ix"), bind="s")
            rchecks.append((q.call("i", "SDreaddata", V("s"), i32s(0), None, i32s(len(data)), Out(len(data))), "sd", data))
            q.call("i", "SDendaccess", V("s"))
        q.call("i", "SDend", V("sd"))
    qq = run(q, cwd=d, timeout=120)
    if not qq.done:
        raise Fail("crash while re-reading the file", detail=qq.sanitizer_summary(), frames=qq.crash_frames(),
                   program=p.text()[:4000], reader=q.text()[:2000])
    for ln, ck, pay in rchecks:
        x = qq.res[ln]
        if ck == "eq" and x.ret != pay:
            raise Fail("re-read: %s returned %r, expected %r" % (q.lines[ln - 1][:50], x.ret, pay), program=p.text()[:5000])
        if ck == "data":
            data, prefix = pay
            if (x.ret != len(data) and not prefix) or x.bufs[0][:len(data)] != data:
                raise Fail("re-read: element content differs", call=q.lines[ln - 1][:50], ret=x.ret, want=len(data),
                           program=p.text()[:5000])
        if ck == "vs" and (x.ret != pay[0] or x.bufs[0] != pay[1]):
            raise Fail("re-read: vdata content differs", ret=x.ret, program=p.text()[:5000])
        if ck == "sd" and (x.ret != 0 or x.bufs[0] != pay):
            raise Fail("re-read: dataset content differs", ret=x.ret, program=p.text()[:5000])
    if any(e["ok"] for e in elems):
        labels.add("reread_ok")


def lb_gen(case, op, elems):
    """Generation-time upper estimate of the end of file before `op`: sum of every earlier request plus slack."""
    tot = 4 + 6 + 12 * 200
    for e in elems:
        tot += e["len"] + 3000 * e["appends"] + 300
    tot += sum(o[1] for o in case["ops"] if o[0] in ("sd",)) + 4 * sum(o[1] for o in case["ops"] if o[0] == "vs")
    tot += 20000 * sum(1 for o in case["ops"] if o[0] in ("sd", "vs", "linked"))
    tot += sum(min(o[1], I32MAX) * ((o[3] + o[1] - 1) // o[1] + 1) for o in case["ops"] if o[0] == "linked")
    return tot + op[1]


def refused_possible(est):
    return est + (2 << 20) > I32MAX


# ====================================================================== members family
@st.composite
def members_case(draw):
    return {"family": "members", "pre": draw(st.sampled_from([65530, 65533, 65534, 65535, 65536, 65537, 65540, 70000,
                                                               131072, 131073])),
            "extra": draw(st.integers(0, 5)), "named": draw(st.booleans()), "reattach": draw(st.booleans())}


def run_members(case, d, labels, excluded, known_keys):
    n, extra = case["pre"], case["extra"]
    p = Prog()
    p.call("i", "Hopen", "mem.hdf", 4, 0, bind="f")
    p.call("i", "Vinitialize", V("f"))
    p.call("i", "Vattach", V("f"), -1, "w", bind="g")
    p.call("i", "Vsetname", V("g"), "big")
    if case["named"]:
        p.call("i", "Vsetclass", V("g"), "cls")
    lrep = p.raw("!repeat %d" % n)
    p.raw("i Vaddtagref $g 1962 $i+1")
    p.raw("!end")
    ex = [p.call("i", "Vaddtagref", V("g"), 720, 7 + j) for j in range(extra)]
    lnt = p.call("i", "Vntagrefs", V("g"))
    if case["reattach"]:
        p.call("i", "Vdetach", V("g"))
        p.call("i", "Vfind", V("f"), "big", bind="r")
        p.call("i", "Vattach", V("f"), V("r"), "w", bind="g")
        ex += [p.call("i", "Vaddtagref", V("g"), 721, 9)]
        extra += 1
    ldet = p.call("i", "Vdetach", V("g"))
    # a second, ordinary vgroup created afterwards must work
    p.call("i", "Vattach", V("f"), -1, "w", bind="g2")
    p.call("i", "Vsetname", V("g2"), "small")
    l2 = p.call("i", "Vaddtagref", V("g2"), 1962, 3)
    l3 = p.call("i", "Vdetach", V("g2"))
    p.call("i", "Vfinish", V("f"))
    lcl = p.call("i", "Hclose", V("f"))
    p.call("i", "Hopen", "mem.hdf", 1, 0, bind="f")
    p.call("i", "Vinitialize", V("f"))
    p.call("i", "Vfind", V("f"), "big", bind="r")
    p.call("i", "Vattach", V("f"), V("r"), "r", bind="g")
    lnt2 = p.call("i", "Vntagrefs", V("g"))
    lfirst = p.call("i", "Vgettagref", V("g"), 0, Out(4), Out(4))
    want = min(n + extra, 65535)
    llast = p.call("i", "Vgettagref", V("g"), want - 1, Out(4), Out(4))
    lover = p.call("i", "Vgettagref", V("g"), want, Out(4), Out(4))
    p.call("i", "Vdetach", V("g"))
    p.call("i", "Vfind", V("f"), "small", bind="r2")
    p.call("i", "Vattach", V("f"), V("r2"), "r", bind="g2")
    lsm = p.call("i", "Vntagrefs", V("g2"))
    p.call("i", "Vdetach", V("g2"))
    p.call("i", "Vfinish", V("f"))
    p.call("i", "Hclose", V("f"))
    rr = run(p, cwd=d, timeout=120)
    if not rr.done:
        raise Fail("crash", detail=rr.sanitizer_summary(), frames=rr.crash_frames(), text=rr.stderr[-1500:],
                   program=p.text()[:3000])
    rep = rr.res[lrep].ret
    total = n + extra
    if total > 65535:
        labels.add("over_limit")
    succ = (n - rep["nfail"]) + sum(1 for l in ex if rr.res[l].ret != -1)
    info = dict(requested=total, successes=succ, first_refused=rep["firstfail"], program=p.text()[:3000])
    if succ > 65535:
        raise Fail("more than 65535 insertions into one vgroup were accepted", **info)
    if succ != want:
        raise Fail("insertions below the 65535-member limit were refused", **info)
    if not case["reattach"] and rr.res[lnt].ret != min(n + case["extra"], 65535):
        raise Fail("Vntagrefs does not equal the number of accepted insertions", got=rr.res[lnt].ret, **info)
    for l, what in ((ldet, "Vdetach of the full vgroup"), (l3, "Vdetach of a later vgroup"), (lcl, "Hclose")):
        if rr.res[l].ret != 0:
            raise Fail("%s failed" % what, **info)
    if rr.res[l2].ret == -1 or rr.res[lsm].ret != 1:
        raise Fail("a vgroup created after the refused insertions is not intact", **info)
    if rr.res[lnt2].ret != want:
        raise Fail("after reopen the vgroup has a different member count", got=rr.res[lnt2].ret, want=want, **info)
    if rr.res[lfirst].ret != 0 or un_i32s(rr.res[lfirst].bufs[0] + rr.res[lfirst].bufs[1]) != [1962, 1]:
        raise Fail("first member differs after reopen", **info)
    if rr.res[llast].ret != 0:
        raise Fail("last member not readable after reopen", **info)
    if rr.res[lover].ret != -1:
        raise Fail("member index beyond the count accepted", **info)
    labels.add("follow_up_checked")
    f = h4fmt.parse_file(os.path.join(d, "mem.hdf"))
    if f.violations:
        raise Fail("file not well-formed", violations=f.violations[:5], **info)
    seen = 0
    for dd in f.dds:
        if dd.tag == 1965:
            try:
                g = h4fmt.parse_vg(f.raw(dd))
            except h4fmt.RecordError as e:
                raise Fail("vgroup record inconsistent: %s" % e, ref=dd.ref, **info)
            if g["name"] == b"big":
                seen += 1
                if g["nvelt"] != want:
                    raise Fail("stored member count differs from accepted insertions", stored=g["nvelt"], **info)
    if seen != 1:
        raise Fail("expected exactly one stored record of the large vgroup", seen=seen, **info)


# ====================================================================== refs family
_TEMPLATE = {}


def refs_template():
    """A file whose tag 8100 holds all 65535 reference numbers (built once per worker process, ~12 s)."""
    from h4verif.exe import scratch_root
    key = os.getpid()
    if key in _TEMPLATE and os.path.exists(_TEMPLATE[key]):
        return _TEMPLATE[key]
    root = scratch_root()
    path = os.path.join(root, "refs_template.hdf")
    p = Prog()
    p.call("i", "Hopen", "refs_template.hdf", 4, 1024, bind="f")
    l = p.raw("!repeat 65535")
    p.raw("i Hputelement $f 8100 $i+1 x:07 1")
    p.raw("!end")
    lc = p.call("i", "Hclose", V("f"))
    rr = run(p, cwd=root, timeout=300)
    if not rr.done or rr.res[l].ret["nfail"] != 0 or rr.res[lc].ret != 0:
        raise RuntimeError("cannot build the refs template: " + rr.sanitizer_summary())
    _TEMPLATE[key] = path
    return path


@st.composite
def refs_case(draw):
    holes = draw(st.lists(st.sampled_from([1, 2, 777, 32768, 65534, 65535, 40000]), unique=True, max_size=4))
    ops = []
    for _ in range(draw(st.integers(2, 8))):
        k = draw(st.sampled_from(["tagnewref", "tagnewref", "newref", "newref", "put", "put", "vgroup", "vdata",
                                  "gr", "an"]))
        if k == "tagnewref":
            ops.append([k, draw(st.sampled_from([8100, 8100, 8101, 1965]))])
        elif k == "put":
            ops.append([k, draw(st.sampled_from([8100, 8100, 8101])), draw(st.integers(1, 40))])
        else:
            ops.append([k])
    return {"family": "refs", "holes": holes, "ops": ops, "sd": draw(st.integers(0, 4)) == 0}


def run_refs(case, d, labels, excluded, known_keys):
    import shutil
    shutil.copy(refs_template(), os.path.join(d, "refs.hdf"))
    p = Prog()
    p.call("i", "Hopen", "refs.hdf", 3, 0, bind="f")
    for h in case["holes"]:
        p.call("i", "Hdeldd", V("f"), 8100, h)
    p.call("i", "Vinitialize", V("f"))
    steps = []
    nobj = 0
    for op in case["ops"]:
        k = op[0]
        if k == "tagnewref":
            steps.append((k, op[1], p.call("u", "Htagnewref", V("f"), op[1])))
        elif k == "newref":
            steps.append((k, p.call("u", "Hnewref", V("f"))))
        elif k == "put":
            tag, n = op[1], op[2]
            data = pat(n, nobj + 50)
            nobj += 1
            l0 = p.call("u", "Htagnewref", V("f"), tag, bind="r")
            l1 = p.call("i", "hx_put_if_ref", V("f"), tag, V("r"), data, n)
            steps.append((k, tag, l0, l1, data))
        elif k == "vgroup":
            name = "vg%d" % nobj
            nobj += 1
            l0 = p.call("i", "Vattach", V("f"), -1, "w", bind="g")
            p.call("i", "Vsetname", V("g"), name)
            p.call("i", "Vaddtagref", V("g"), 8100, 5)
            l1 = p.call("i", "VQueryref", V("g"))
            l2 = p.call("i", "Vdetach", V("g"))
            steps.append((k, name, l0, l1, l2))
        elif k == "vdata":
            name = "vs%d" % nobj
            nobj += 1
            data = pat(8, nobj)
            l0 = p.call("i", "VSattach", V("f"), -1, "w", bind="v")
            p.call("i", "VSsetname", V("v"), name)
            p.call("i", "VSfdefine", V("v"), "x", 24, 1)
            p.call("i", "VSsetfields", V("v"), "x")
            lw = p.call("i", "VSwrite", V("v"), data, 2, 0)
            l1 = p.call("i", "VSQueryref", V("v"))
            l2 = p.call("i", "VSdetach", V("v"))
            steps.append((k, name, l0, l1, l2, lw, data))
        elif k == "gr":
            name = "img%d" % nobj
            nobj += 1
            data = pat(4, nobj)
            l0 = p.call("i", "GRstart", V("f"), bind="gr")
            l1 = p.call("i", "GRcreate", V("gr"), name, 1, 21, 0, i32s(2, 2), bind="ri")
            l2 = p.call("i", "GRwriteimage", V("ri"), i32s(0, 0), None, i32s(2, 2), data)
            l3 = p.call("i", "GRendaccess", V("ri"))
            l4 = p.call("i", "GRend", V("gr"))
            steps.append((k, name, (l0, l1, l2, l3, l4), data))
        elif k == "an":
            text = ("label%d" % nobj).encode()
            nobj += 1
            l0 = p.call("i", "ANstart", V("f"), bind="an")
            l1 = p.call("i", "ANcreatef", V("an"), 2, bind="ann")
            l2 = p.call("i", "ANwriteann", V("ann"), text, len(text))
            l3 = p.call("i", "ANendaccess", V("ann"))
            l4 = p.call("i", "ANend", V("an"))
            steps.append((k, text, (l0, l1, l2, l3, l4)))
    lvf = p.call("i", "Vfinish", V("f"))
    lcl = p.call("i", "Hclose", V("f"))
    rr = run(p, cwd=d, timeout=200)
    prog = p.text()[:5000]
    if not rr.done:
        raise Fail("crash", detail=rr.sanitizer_summary(), frames=rr.crash_frames(), text=rr.stderr[-1500:],
                   last_call=p.lines[rr.last_line][:100] if rr.last_line < len(p.lines) else "", program=prog)

    def r(ln):
        return rr.res[ln].ret
    used = {8100: set(range(1, 65536)) - set(case["holes"]), 30: {1}}     # 30/1: the library version element
    exact = True       # whether `used` is known exactly (GR/AN creation takes refs the model does not see)
    puts, vgs, vss, imgs, anns = [], [], [], [], []

    def all_used():
        s = set()
        for v in used.values():
            s |= v
        return s

    def judge_new(ref, tag, what, call):
        """ref returned for (tag): 0 only if no reference is free; otherwise not already in use for that tag."""
        tu = used.get(tag, set()) if tag is not None else all_used()
        full = len(tu) >= 65535
        if full:
            labels.add("over_limit")
        if ref == 0:
            if not full and exact:
                raise Fail("%s returned 0 although references are free" % what, call=call, in_use=len(tu), program=prog)
            return False
        if full and exact:
            raise Fail("%s returned a reference although all 65535 are in use" % what, call=call, ref=ref, program=prog)
        if ref in tu:
            raise Fail("%s returned a reference that is already in use (wrap-around)" % what, call=call, ref=ref,
                       program=prog)
        return True

    for s_ in steps:
        k = s_[0]
        if k == "tagnewref":
            judge_new(r(s_[2]), s_[1], "Htagnewref", p.lines[s_[2] - 1])
        elif k == "newref":
            judge_new(r(s_[1]), None, "Hnewref", p.lines[s_[1] - 1])
        elif k == "put":
            _, tag, l0, l1, data = s_
            if judge_new(r(l0), tag, "Htagnewref", p.lines[l0 - 1]):
                if r(l1) != len(data):
                    raise Fail("Hputelement at a free reference failed", call=p.lines[l1 - 1][:80], ret=r(l1), program=prog)
                used.setdefault(tag, set()).add(r(l0))
                puts.append((tag, r(l0), data))
                labels.add("follow_up_checked")
        elif k == "vgroup":
            _, name, l0, l1, l2 = s_
            free = 65535 - len(all_used())
            if free == 0:
                labels.add("over_limit")
            if r(l0) == -1:
                if free > 0 and exact:
                    raise Fail("creating a vgroup failed although references are free", free=free, program=prog)
                continue
            ref = r(l1)
            if free == 0 and exact:
                raise Fail("a vgroup was created although every reference is in use", ref=ref, program=prog)
            if ref <= 0 or ref in all_used():
                raise Fail("a new vgroup got a reference that is already in use", ref=ref, program=prog)
            if r(l2) != 0:
                raise Fail("Vdetach of a new vgroup failed", program=prog)
            used.setdefault(1965, set()).add(ref)
            vgs.append(name)
            labels.add("follow_up_checked")
        elif k == "vdata":
            _, name, l0, l1, l2, lw, data = s_
            free = 65535 - len(all_used())
            if free == 0:
                labels.add("over_limit")
            if r(l0) == -1:
                if free > 0 and exact:
                    raise Fail("creating a vdata failed although references are free", free=free, program=prog)
                continue
            ref = r(l1)
            if free == 0 and exact:
                raise Fail("a vdata was created although every reference is in use", ref=ref, program=prog)
            if ref <= 0 or ref in all_used():
                raise Fail("a new vdata got a reference that is already in use", ref=ref, program=prog)
            if r(lw) != 2 or r(l2) != 0:
                raise Fail("writing/detaching a new vdata failed", program=prog)
            used.setdefault(1962, set()).add(ref)
            vss.append((name, data))
            labels.add("follow_up_checked")
        elif k == "gr":
            _, name, ls, data = s_
            if 65535 - len(all_used()) == 0:
                labels.add("over_limit")
            exact = False
            if all(r(x) != -1 for x in ls):
                imgs.append((name, data))
        elif k == "an":
            _, text, ls = s_
            if 65535 - len(all_used()) == 0:
                labels.add("over_limit")
            exact = False
            if all(r(x) != -1 for x in ls):
                anns.append(text)
    if r(lvf) != 0 or r(lcl) != 0:
        raise Fail("Vfinish/Hclose failed after reference exhaustion", vfinish=r(lvf), hclose=r(lcl), program=prog)
    # independent validation
    f = h4fmt.parse_file(os.path.join(d, "refs.hdf"))
    if f.violations:
        raise Fail("file not well-formed after reference exhaustion", violations=f.violations[:5], program=prog)
    n100 = sum(1 for dd in f.dds if dd.tag == 8100)
    if n100 != len(used[8100]):
        raise Fail("number of stored elements differs from the model", stored=n100, model=len(used[8100]), program=prog)
    for (tag, ref, data) in puts:
        dd = f.find(tag, ref)
        if dd is None or f.raw(dd) != data:
            raise Fail("an element stored at a fresh reference is not in the file", tag=tag, ref=ref, program=prog)
    # fresh-process re-read
    q = Prog()
    q.call("i", "Hopen", "refs.hdf", 1, 0, bind="f")
    rc = [(q.call("i", "Hnumber", V("f"), 8100), "eq", len(used[8100]))]
    rc.append((q.call("i", "Hgetelement", V("f"), 8100, 5, Out(4)), "eq", 1 if 5 in used[8100] else -1))
    q.call("i", "Vinitialize", V("f"))
    for name in vgs:
        q.call("i", "Vfind", V("f"), name, bind="vr")
        q.call("i", "Vattach", V("f"), V("vr"), "r", bind="g")
        rc.append((q.call("i", "Vntagrefs", V("g")), "eq", 1))
        q.call("i", "Vdetach", V("g"))
    for name, data in vss:
        q.call("i", "VSfind", V("f"), name, bind="vr")
        q.call("i", "VSattach", V("f"), V("vr"), "r", bind="v")
        q.call("i", "VSsetfields", V("v"), "x")
        rc.append((q.call("i", "VSread", V("v"), Out(8), 2, 0), "buf", (2, data)))
        q.call("i", "VSdetach", V("v"))
    q.call("i", "Vfinish", V("f"))
    if imgs:
        q.call("i", "GRstart", V("f"), bind="gr")
        for name, data in imgs:
            q.call("i", "GRnametoindex", V("gr"), name, bind="ix")
            q.call("i", "GRselect", V("gr"), V("ix"), bind="ri")
            rc.append((q.call("i", "GRreadimage", V("ri"), i32s(0, 0), None, i32s(2, 2), Out(4)), "buf", (0, data)))
            q.call("i", "GRendaccess", V("ri"))
        q.call("i", "GRend", V("gr"))
    rc.append((q.call("i", "Hclose", V("f")), "eq", 0))
    qq = run(q, cwd=d, timeout=200)
    if not qq.done:
        raise Fail("crash while re-reading the file", detail=qq.sanitizer_summary(), frames=qq.crash_frames(),
                   program=prog, reader=q.text()[:2000])
    for ln, ck, pay in rc:
        x = qq.res[ln]
        if ck == "eq" and x.ret != pay:
            raise Fail("re-read: %s returned %r, expected %r" % (q.lines[ln - 1][:50], x.ret, pay), program=prog)
        if ck == "buf" and (x.ret != pay[0] or x.bufs[0] != pay[1]):
            raise Fail("re-read: %s returned different data" % q.lines[ln - 1][:50], ret=x.ret, program=prog)


# ====================================================================== fields family
NTSZ = {20: 1, 22: 2, 24: 4, 6: 8, 4: 1}
ORDERS = [1, 1, 2, 3, 100, 8191, 8192, 16383, 16384, 32767, 32768, 65534, 65535, 65536, 65537, 100000, 0, -1,
          I32MAX, 1 << 16, (1 << 16) + 1, 1 << 24]


def fdef_valid(nt, order):
    return 1 <= order <= 65535 and NTSZ[nt] * order <= 65535


@st.composite
def fields_case(draw):
    shape = draw(st.sampled_from(["few", "few", "many"]))
    defs = []
    if shape == "few":
        for _ in range(draw(st.integers(1, 6))):
            defs.append([draw(st.sampled_from(sorted(NTSZ))), draw(st.sampled_from(ORDERS))])
    else:
        n = draw(st.sampled_from([254, 255, 256, 257, 258, 300]))
        defs = [[20, 1]] * n
    valid = [i for i, (t, o) in enumerate(defs) if fdef_valid(t, o)]
    k = draw(st.sampled_from([1, 2, 3, len(valid), len(valid), max(1, len(valid) - 1)]))
    k = max(1, min(k, max(1, len(valid))))
    pick = valid[:k] if draw(st.booleans()) else valid[-k:]
    return {"family": "fields", "defs": defs, "set": pick, "nrec": draw(st.sampled_from([1, 2, 5])),
            "bigwrite": draw(st.sampled_from([0, 0, (1 << 30) + 1, I32MAX, (1 << 31) // 3 + 7]))}


def run_fields(case, d, labels, excluded, known_keys):
    defs, pick, nrec = case["defs"], case["set"], case["nrec"]
    p = Prog()
    p.call("i", "Hopen", "fld.hdf", 4, 0, bind="f")
    p.call("i", "Vinitialize", V("f"))
    p.call("i", "VSattach", V("f"), -1, "w", bind="v")
    p.call("i", "VSsetname", V("v"), "lim")
    ldef = []
    for i, (t, o) in enumerate(defs):
        ldef.append(p.call("i", "VSfdefine", V("v"), "f%d" % i, t, o))
    recsize = sum(NTSZ[defs[i][0]] * defs[i][1] for i in pick)
    set_valid = bool(pick) and len(pick) <= 256 and recsize <= 65535
    lset = lwr = lbig = None
    data = b""
    if pick:
        lset = p.call("i", "VSsetfields", V("v"), ",".join("f%d" % i for i in pick))
        if set_valid:
            if nrec * recsize > 400000:
                nrec = max(1, 400000 // recsize)
            data = pat(nrec * recsize, 9)
            lwr = p.call("i", "VSwrite", V("v"), data, nrec, 0)
            if case["bigwrite"] and case["bigwrite"] * recsize > I32MAX:
                lbig = p.raw("i VSwrite $v z:64 %d 0" % case["bigwrite"])
    ldet = p.call("i", "VSdetach", V("v"))
    good = pat(12, 77)
    p.call("i", "VSattach", V("f"), -1, "w", bind="w")
    p.call("i", "VSsetname", V("w"), "good")
    lg1 = p.call("i", "VSfdefine", V("w"), "a", 24, 1)
    lg2 = p.call("i", "VSsetfields", V("w"), "a")
    lg3 = p.call("i", "VSwrite", V("w"), good, 3, 0)
    lg4 = p.call("i", "VSdetach", V("w"))
    lvf = p.call("i", "Vfinish", V("f"))
    lcl = p.call("i", "Hclose", V("f"))
    # fresh read in the same program (new handles)
    p.call("i", "Hopen", "fld.hdf", 1, 0, bind="f")
    p.call("i", "Vinitialize", V("f"))
    p.call("i", "VSfind", V("f"), "good", bind="r")
    p.call("i", "VSattach", V("f"), V("r"), "r", bind="w")
    p.call("i", "VSsetfields", V("w"), "a")
    lrg = p.call("i", "VSread", V("w"), Out(12), 3, 0)
    p.call("i", "VSdetach", V("w"))
    lrl = lrn = None
    if set_valid:
        p.call("i", "VSfind", V("f"), "lim", bind="r2")
        p.call("i", "VSattach", V("f"), V("r2"), "r", bind="v")
        lrn = p.call("i", "VSelts", V("v"))
        p.call("i", "VSsetfields", V("v"), ",".join("f%d" % i for i in pick))
        lrl = p.call("i", "VSread", V("v"), Out(len(data)), nrec, 0)
        p.call("i", "VSdetach", V("v"))
    p.call("i", "Vfinish", V("f"))
    p.call("i", "Hclose", V("f"))
    rr = run(p, cwd=d, timeout=120)
    prog = p.text()[:4000]
    if not rr.done:
        raise Fail("crash", detail=rr.sanitizer_summary(), frames=rr.crash_frames(), text=rr.stderr[-1500:],
                   last_call=p.lines[rr.last_line][:100] if rr.last_line < len(p.lines) else "", program=prog)

    def r(ln):
        return rr.res[ln].ret
    for i, (t, o) in enumerate(defs):
        ok = r(ldef[i]) != -1
        if not fdef_valid(t, o):
            labels.add("over_limit")
            if ok:
                raise Fail("a field definition beyond the 16-bit order/size limits was accepted", type=t, order=o,
                           program=prog)
        elif not ok and i < 256:
            raise Fail("a valid field definition was refused", type=t, order=o, index=i, program=prog)
    if lset is not None:
        ok = r(lset) != -1
        if not set_valid:
            labels.add("over_limit")
            if ok:
                raise Fail("VSsetfields accepted more than 256 fields or a record longer than 65535 bytes",
                           nfields=len(pick), record_size=recsize, program=prog)
        elif not ok:
            raise Fail("a valid VSsetfields was refused", nfields=len(pick), record_size=recsize, program=prog)
        if len(pick) >= 255 or recsize >= 65000:
            labels.add("over_limit")      # at the limit
    if lwr is not None and r(lwr) != nrec:
        raise Fail("VSwrite of a record at the size limit failed", ret=r(lwr), record_size=recsize, program=prog)
    if lbig is not None:
        labels.add("over_limit")
        if r(lbig) != -1:
            raise Fail("VSwrite accepted a record count whose byte total exceeds 2^31-1", ret=r(lbig),
                       count=case["bigwrite"], record_size=recsize, program=prog)
    for l, what in ((lg1, "VSfdefine"), (lg2, "VSsetfields"), (lg4, "VSdetach"), (lvf, "Vfinish"), (lcl, "Hclose")):
        if r(l) != 0:
            raise Fail("%s of an ordinary vdata failed after the limit requests" % what, ret=r(l), program=prog)
    if set_valid and r(ldet) != 0:
        raise Fail("VSdetach of the vdata at the limit failed", ret=r(ldet), program=prog)
    if r(lg3) != 3 or r(lrg) != 3 or rr.res[lrg].bufs[0] != good:
        raise Fail("an ordinary vdata written after the limit requests does not read back", program=prog)
    labels.add("follow_up_checked")
    if set_valid:
        if r(lrn) != nrec or r(lrl) != nrec or rr.res[lrl].bufs[0] != data:
            raise Fail("the vdata at the limit does not read back", elts=r(lrn), read=r(lrl), want=nrec,
                       record_size=recsize, program=prog)
    f = h4fmt.parse_file(os.path.join(d, "fld.hdf"))
    if f.violations:
        raise Fail("file not well-formed", violations=f.violations[:5], program=prog)
    for dd in f.dds:
        if dd.tag != 1962:
            continue
        try:
            vh = h4fmt.parse_vh(f.raw(dd))
        except h4fmt.RecordError as e:
            raise Fail("vdata header inconsistent: %s" % e, ref=dd.ref, program=prog)
        if vh["nfields"] > 256:
            raise Fail("stored vdata header has more than 256 fields", program=prog)
        off = 0
        for i in range(vh["nfields"]):
            if vh["off"][i] != off:
                raise Fail("stored field offsets are not cumulative (16-bit wrap)", field=i, stored=vh["off"][i],
                           want=off, program=prog)
            off += vh["isize"][i]
        if off != vh["ivsize"]:
            raise Fail("stored record size differs from the sum of field sizes (16-bit wrap)", stored=vh["ivsize"],
                       want=off, program=prog)
        vs = f.find(1963, dd.ref)
        have = vs.len if vs is not None and vs.len >= 0 and not h4fmt.is_special(vs.tag) else None
        if have is not None and have != vh["nvert"] * vh["ivsize"]:
            raise Fail("stored record count x record size differs from the data length", nvert=vh["nvert"],
                       ivsize=vh["ivsize"], data_length=have, name=vh["name"].decode("latin-1"), program=prog)
        if vh["name"] == b"lim" and set_valid and (vh["nvert"] != nrec or vh["ivsize"] != recsize):
            raise Fail("stored header of the vdata at the limit differs from the request", nvert=vh["nvert"],
                       ivsize=vh["ivsize"], program=prog)


# ====================================================================== names family
NAME_LENS = [1, 63, 64, 65, 66, 127, 128, 129, 130, 255, 256, 257, 258, 300, 1000, 5000, 65535, 65536, 70000]
# kind -> length up to which the name must come back unchanged (documented limit of that name)
NAME_KINDS = {"vgname": 65535, "vgclass": 65535, "vsname": 64, "vsclass": 64, "field": 128, "sdname": 256,
              "dimname": 256, "sdattr": 256, "grname": 256, "grattr": 256, "vsattr": 64, "vgattr": 64, "path": 1024}


TRUNC_KNOWN = {"sdattr": 64, "grattr": 128}     # stored as a vdata name / a vdata field name


def mkname(L, salt):
    alpha = "abcdefghijklmnopqrstuvwxyz0123456789ABCDEFGHIJKLMNOPQRSTUVWXYZ"
    base = "%s%d_" % (alpha[salt % 26], L)        # first character distinguishes the items of one case
    s = base + "".join(alpha[(i * 7 + salt) % len(alpha)] for i in range(max(0, L - len(base))))
    return s[:L]


@st.composite
def names_case(draw):
    items = []
    for i in range(draw(st.integers(1, 3))):
        items.append([draw(st.sampled_from(sorted(NAME_KINDS))), draw(st.sampled_from(NAME_LENS)), i])
    return {"family": "names", "items": items}


def run_names(case, d, labels, excluded, known_keys):
    """One file per interface group; every item sets a name, reads it back, and reads it again after reopen."""
    items = case["items"]
    p = Prog()
    checks = []      # (kind, L, name, dict of line numbers)
    h_items = [it for it in items if it[0] in ("vgname", "vgclass", "vsname", "vsclass", "field", "vsattr", "vgattr",
                                                 "grname", "grattr")]
    sd_items = [it for it in items if it[0] in ("sdname", "dimname", "sdattr")]
    path_items = [it for it in items if it[0] == "path"]
    B = lambda L: OutS(L + 400)
    if h_items:
        p.call("i", "Hopen", "nm.hdf", 4, 0, bind="f")
        p.call("i", "Vinitialize", V("f"))
        p.call("i", "GRstart", V("f"), bind="gr")
        for kind, L, salt in h_items:
            name = mkname(L, salt)
            ln = {}
            if kind in ("vgname", "vgclass", "vgattr"):
                p.call("i", "Vattach", V("f"), -1, "w", bind="g")
                if kind != "vgname":
                    p.call("i", "Vsetname", V("g"), "host%d" % salt)
                if kind == "vgname":
                    ln["set"] = p.call("i", "Vsetname", V("g"), name)
                    ln["len"] = p.call("i", "Vgetnamelen", V("g"), Out(2))
                    ln["get"] = p.call("i", "Vgetname", V("g"), B(L))
                elif kind == "vgclass":
                    ln["set"] = p.call("i", "Vsetclass", V("g"), name)
                    ln["len"] = p.call("i", "Vgetclassnamelen", V("g"), Out(2))
                    ln["get"] = p.call("i", "Vgetclass", V("g"), B(L))
                else:
                    ln["set"] = p.call("i", "Vsetattr", V("g"), name, 24, 1, i32s(7))
                    ln["get"] = p.call("i", "Vattrinfo", V("g"), 0, B(L), Out(4), Out(4), Out(4))
                ln["ref"] = p.call("i", "VQueryref", V("g"))
                ln["end"] = p.call("i", "Vdetach", V("g"))
            elif kind in ("vsname", "vsclass", "field", "vsattr"):
                p.call("i", "VSattach", V("f"), -1, "w", bind="v")
                if kind != "vsname":
                    p.call("i", "VSsetname", V("v"), "host%d" % salt)
                fname = name if kind == "field" else "x"
                if kind == "vsname":
                    ln["set"] = p.call("i", "VSsetname", V("v"), name)
                    ln["get"] = p.call("i", "VSgetname", V("v"), B(L))
                elif kind == "vsclass":
                    ln["set"] = p.call("i", "VSsetclass", V("v"), name)
                    ln["get"] = p.call("i", "VSgetclass", V("v"), B(L))
                if kind == "field":
                    ln["set"] = p.call("i", "VSfdefine", V("v"), fname, 24, 1)
                    ln["set2"] = p.call("i", "VSsetfields", V("v"), fname)
                    ln["wr"] = p.call("i", "VSwrite", V("v"), i32s(11, 12), 2, 0)
                    ln["get"] = p.call("i", "VSgetfields", V("v"), B(L))
                else:
                    p.call("i", "VSfdefine", V("v"), "x", 24, 1)
                    p.call("i", "VSsetfields", V("v"), "x")
                    p.call("i", "VSwrite", V("v"), i32s(11, 12), 2, 0)
                if kind == "vsattr":
                    ln["set"] = p.call("i", "VSsetattr", V("v"), -1, name, 24, 1, i32s(7))
                    ln["get"] = p.call("i", "VSattrinfo", V("v"), -1, 0, B(L), Out(4), Out(4), Out(4))
                ln["ref"] = p.call("i", "VSQueryref", V("v"))
                ln["end"] = p.call("i", "VSdetach", V("v"))
            elif kind in ("grname", "grattr"):
                nm = name if kind == "grname" else "host%d" % salt
                ln["set"] = p.call("i", "GRcreate", V("gr"), nm, 1, 21, 0, i32s(2, 2), bind="ri")
                p.call("i", "GRwriteimage", V("ri"), i32s(0, 0), None, i32s(2, 2), b"\x01\x02\x03\x04")
                if kind == "grname":
                    ln["get"] = p.call("i", "GRgetiminfo", V("ri"), B(L), Out(4), Out(4), Out(4), Out(8), Out(4))
                else:
                    ln["set"] = p.call("i", "GRsetattr", V("ri"), name, 24, 1, i32s(7))
                    ln["get"] = p.call("i", "GRattrinfo", V("ri"), 0, B(L), Out(4), Out(4))
                ln["ref"] = p.call("u", "GRidtoref", V("ri"))
                ln["end"] = p.call("i", "GRendaccess", V("ri"))
            checks.append((kind, L, salt, name, ln))
        lgre = p.call("i", "GRend", V("gr"))
        lvf = p.call("i", "Vfinish", V("f"))
        lhc = p.call("i", "Hclose", V("f"))
        checks.append(("_close", 0, 0, "", dict(gr=lgre, vf=lvf, hc=lhc)))
    if sd_items:
        p.call("i", "SDstart", "nmsd.hdf", 4, bind="sd")
        for kind, L, salt in sd_items:
            name = mkname(L, salt)
            ln = {}
            nm = name if kind == "sdname" else "host%d" % salt
            ln["create"] = p.call("i", "SDcreate", V("sd"), nm, 24, 1, i32s(3), bind="s")
            p.call("i", "SDwritedata", V("s"), i32s(0), None, i32s(3), i32s(1, 2, 3))
            if kind == "sdname":
                ln["set"] = ln["create"]
                ln["get"] = p.call("i", "SDgetinfo", V("s"), B(L), Out(4), Out(128), Out(4), Out(4))
            elif kind == "dimname":
                p.call("i", "SDgetdimid", V("s"), 0, bind="dm")
                ln["set"] = p.call("i", "SDsetdimname", V("dm"), name)
                ln["get"] = p.call("i", "SDdiminfo", V("dm"), B(L), Out(4), Out(4), Out(4))
            else:
                ln["set"] = p.call("i", "SDsetattr", V("s"), name, 24, 1, i32s(7))
                ln["get"] = p.call("i", "SDattrinfo", V("s"), 0, B(L), Out(4), Out(4))
            ln["ref"] = p.call("i", "SDidtoref", V("s"))
            ln["end"] = p.call("i", "SDendaccess", V("s"))
            checks.append((kind, L, salt, name, ln))
        lse = p.call("i", "SDend", V("sd"))
        checks.append(("_sdclose", 0, 0, "", dict(se=lse)))
    for kind, L, salt in path_items:
        # a path of length L made of directory components that exist (created below) plus a file name
        comps = []
        left = L - 2
        while left > 200:
            comps.append("d" * 199)
            left -= 200
        comps.append("f" * max(1, left))
        rel = "./" + "/".join(comps)
        try:
            os.makedirs(os.path.join(d, *comps[:-1]), exist_ok=True) if len(comps) > 1 else None
        except OSError:
            pass
        ln = dict(set=p.call("i", "Hopen", rel, 4, 0, bind="pf"))
        ln["put"] = p.call("i", "Hputelement", V("pf"), 8000, 1, b"abc", 3)
        ln["end"] = p.call("i", "Hclose", V("pf"))
        ln["sd"] = p.call("i", "SDstart", rel, 1, bind="psd")
        ln["sde"] = p.call("i", "SDend", V("psd"))
        ln["is"] = p.call("i", "Hishdf", rel)
        checks.append((kind, L, salt, rel, ln))
    rr = run(p, cwd=d, timeout=120)
    prog = p.text()[:3000] if len(p.text()) < 200000 else p.text()[:1500]
    prog = "\n".join(l[:200] for l in prog.split("\n"))
    if not rr.done:
        raise Fail("crash", detail=rr.sanitizer_summary(), frames=rr.crash_frames(), text=rr.stderr[-1500:],
                   last_call=p.lines[rr.last_line][:100] if rr.last_line < len(p.lines) else "", program=prog,
                   items=[it[:2] for it in items])

    def r(ln):
        return rr.res[ln].ret

    def got_name(ln):
        for b in rr.res[ln].bufs:
            if isinstance(b, tuple):
                raise Fail("a getter filled the whole buffer without a terminating NUL", program=prog)
            if isinstance(b, bytes):
                return b.decode("latin-1")
        return None
    first = {}
    refs = {}
    for kind, L, salt, name, ln in checks:
        if kind == "_close":
            if r(ln["gr"]) != 0 or r(ln["vf"]) != 0 or r(ln["hc"]) != 0:
                raise Fail("GRend/Vfinish/Hclose failed after name requests", rets=[r(ln["gr"]), r(ln["vf"]), r(ln["hc"])],
                           items=[it[:2] for it in items], program=prog)
            continue
        if kind == "_sdclose":
            if r(ln["se"]) != 0:
                raise Fail("SDend failed after name requests", items=[it[:2] for it in items], program=prog)
            continue
        lim = NAME_KINDS[kind]
        if L > lim:
            labels.add("over_limit")
        elif L == lim:
            labels.add("over_limit")      # exactly at the limit counts as a limit request
        ok = r(ln["set"]) != -1
        if kind == "path":
            if ok:
                if r(ln["put"]) != 3 or r(ln["end"]) != 0 or r(ln["sd"]) == -1 or r(ln["is"]) != 1:
                    raise Fail("a file opened through a long path is not usable", length=L,
                               rets=[r(ln[k]) for k in ("put", "end", "sd", "is")], program=prog)
            elif L <= 200:
                raise Fail("a short path was refused", length=L, program=prog)
            first[(kind, salt)] = None
            continue
        if not ok:
            if L <= lim and L >= 1:
                raise Fail("a name within the documented limit was refused", what=kind, length=L, limit=lim, program=prog)
            first[(kind, salt)] = None
            continue
        if kind == "field" and (r(ln["set2"]) == -1 or r(ln["wr"]) != 2):
            raise Fail("a field whose definition was accepted cannot be set/written", length=L, program=prog)
        g1 = got_name(ln["get"])
        if r(ln["get"]) == -1 or g1 is None:
            raise Fail("the name just set cannot be read back", what=kind, length=L, program=prog)
        if "len" in ln:
            nl = struct.unpack("=H", rr.res[ln["len"]].bufs[0])[0]
            if r(ln["len"]) != 0 or nl != len(g1):
                raise Fail("reported name length differs from the name returned", what=kind, reported=nl,
                           returned=len(g1), length=L, program=prog)
        if not name.startswith(g1) or len(g1) == 0:
            raise Fail("the name read back is not a prefix of the name set", what=kind, length=L, got=g1[:80], program=prog)
        if L <= lim and g1 != name:
            raise Fail("a name within the documented limit came back truncated", what=kind, length=L, limit=lim,
                       got_length=len(g1), program=prog)
        if r(ln["end"]) != 0:
            raise Fail("releasing the object after setting its name failed", what=kind, length=L, program=prog)
        first[(kind, salt)] = g1
        refs[(kind, salt)] = r(ln["ref"])
    # ---- second process: attach every object by reference and read its name again; third process: look the
    # object up by the name the library reports after reopen
    live = [(k, L, s, n) for (k, L, s, n, _ln) in checks if not k.startswith("_") and first.get((k, s))]
    HK = ("vgname", "vgclass", "vsname", "vsclass", "field", "vsattr", "vgattr", "grname", "grattr")
    hl = [x for x in live if x[0] in HK]
    sl = [x for x in live if x[0] in ("sdname", "dimname", "sdattr")]

    def reader(second):
        """second=None: fetch names by reference. second=dict((kind,salt)->name after reopen): look up by name."""
        q = Prog()
        rc = []
        if hl:
            q.call("i", "Hopen", "nm.hdf", 1, 0, bind="f")
            q.call("i", "Vinitialize", V("f"))
            q.call("i", "GRstart", V("f"), bind="gr")
            for kind, L, salt, name in hl:
                ref = refs[(kind, salt)]
                g2 = second.get((kind, salt)) if second is not None else None
                if kind in ("vgname", "vgclass", "vgattr"):
                    q.call("i", "Vattach", V("f"), ref, "r", bind="g")
                    if second is None:
                        if kind == "vgname":
                            lg = q.call("i", "Vgetname", V("g"), B(L))
                        elif kind == "vgclass":
                            lg = q.call("i", "Vgetclass", V("g"), B(L))
                        else:
                            lg = q.call("i", "Vattrinfo", V("g"), 0, B(L), Out(4), Out(4), Out(4))
                        rc.append((lg, "name", (kind, name, salt), L))
                    elif kind == "vgname":
                        rc.append((q.call("i", "Vfind", V("f"), g2), "ref", ref, L))
                    elif kind == "vgclass":
                        rc.append((q.call("i", "Vfindclass", V("f"), g2), "ref", ref, L))
                    else:
                        rc.append((q.call("i", "Vfindattr", V("g"), g2), "found", kind, L))
                    q.call("i", "Vdetach", V("g"))
                elif kind in ("vsname", "vsclass", "field", "vsattr"):
                    q.call("i", "VSattach", V("f"), ref, "r", bind="v")
                    if second is None:
                        if kind == "vsname":
                            lg = q.call("i", "VSgetname", V("v"), B(L))
                        elif kind == "vsclass":
                            lg = q.call("i", "VSgetclass", V("v"), B(L))
                        elif kind == "field":
                            lg = q.call("i", "VSgetfields", V("v"), B(L))
                        else:
                            lg = q.call("i", "VSattrinfo", V("v"), -1, 0, B(L), Out(4), Out(4), Out(4))
                        rc.append((lg, "name", (kind, name, salt), L))
                    elif kind == "vsname":
                        rc.append((q.call("i", "VSfind", V("f"), g2), "ref", ref, L))
                    elif kind == "vsclass":
                        rc.append((q.call("i", "VSfindclass", V("f"), g2), "ref", ref, L))
                    elif kind == "field":
                        rc.append((q.call("i", "VSsetfields", V("v"), g2), "found", kind, L))
                        rc.append((q.call("i", "VSread", V("v"), Out(8), 2, 0), "data", i32s(11, 12), L))
                    else:
                        rc.append((q.call("i", "VSfindattr", V("v"), -1, g2), "found", kind, L))
                    q.call("i", "VSdetach", V("v"))
                else:
                    q.call("i", "GRreftoindex", V("gr"), ref, bind="ix")
                    q.call("i", "GRselect", V("gr"), V("ix"), bind="ri")
                    if second is None:
                        if kind == "grname":
                            lg = q.call("i", "GRgetiminfo", V("ri"), B(L), Out(4), Out(4), Out(4), Out(8), Out(4))
                        else:
                            lg = q.call("i", "GRattrinfo", V("ri"), 0, B(L), Out(4), Out(4))
                        rc.append((lg, "name", (kind, name, salt), L))
                    elif kind == "grname":
                        rc.append((q.call("i", "GRnametoindex", V("gr"), g2), "eqvar", "ix", L))
                    else:
                        rc.append((q.call("i", "GRfindattr", V("ri"), g2), "found", kind, L))
                    q.call("i", "GRendaccess", V("ri"))
            q.call("i", "GRend", V("gr"))
            q.call("i", "Vfinish", V("f"))
            q.call("i", "Hclose", V("f"))
        if sl:
            q.call("i", "SDstart", "nmsd.hdf", 1, bind="sd")
            for kind, L, salt, name in sl:
                ref = refs[(kind, salt)]
                g2 = second.get((kind, salt)) if second is not None else None
                lix = q.call("i", "SDreftoindex", V("sd"), ref, bind="ix")
                q.call("i", "SDselect", V("sd"), V("ix"), bind="s")
                if second is None:
                    if kind == "sdname":
                        lg = q.call("i", "SDgetinfo", V("s"), B(L), Out(4), Out(128), Out(4), Out(4))
                    elif kind == "dimname":
                        q.call("i", "SDgetdimid", V("s"), 0, bind="dm")
                        lg = q.call("i", "SDdiminfo", V("dm"), B(L), Out(4), Out(4), Out(4))
                    else:
                        lg = q.call("i", "SDattrinfo", V("s"), 0, B(L), Out(4), Out(4))
                    rc.append((lg, "name", (kind, name, salt), L))
                    rc.append((q.call("i", "SDreaddata", V("s"), i32s(0), None, i32s(3), Out(12)), "data0",
                               i32s(1, 2, 3), L))
                elif kind == "sdname":
                    rc.append((q.call("i", "SDnametoindex", V("sd"), g2), "eqline", lix, L))
                elif kind == "sdattr":
                    rc.append((q.call("i", "SDfindattr", V("s"), g2), "found", kind, L))
                q.call("i", "SDendaccess", V("s"))
            q.call("i", "SDend", V("sd"))
        return q, rc

    second = None
    for phase in (0, 1):
        q, rc = reader(second)
        if not q.lines:
            break
        qq = run(q, cwd=d, timeout=120)
        rdr = "\n".join(l[:200] for l in q.text()[:3000].split("\n"))
        if not qq.done:
            raise Fail("crash while re-reading names", detail=qq.sanitizer_summary(), frames=qq.crash_frames(),
                       text=qq.stderr[-1200:], items=[it[:2] for it in items], reader=rdr, program=prog)
        names2 = {}
        for ln, ck, pay, L in rc:
            x = qq.res[ln]
            if ck == "found" and x.ret == -1:
                raise Fail("after reopen the attribute/field cannot be found by the name the library reports",
                           what=pay, length=L, call=q.lines[ln - 1][:100], reader=rdr, program=prog)
            if ck == "ref" and x.ret != pay:
                raise Fail("after reopen a lookup by the name the library reports does not find the object",
                           length=L, call=q.lines[ln - 1][:100], got=x.ret, want=pay, reader=rdr, program=prog)
            if ck == "eqline" and (x.ret == -1 or x.ret != qq.res[pay].ret):
                raise Fail("after reopen a lookup by the name the library reports does not find the dataset",
                           length=L, call=q.lines[ln - 1][:100], got=x.ret, want=qq.res[pay].ret, reader=rdr, program=prog)
            if ck == "eqvar" and x.ret == -1:
                raise Fail("after reopen a lookup by the name the library reports does not find the image",
                           length=L, call=q.lines[ln - 1][:100], reader=rdr, program=prog)
            if ck in ("data", "data0") and (x.ret != (2 if ck == "data" else 0) or x.bufs[0] != pay):
                raise Fail("after reopen the data of the named object does not read back", length=L, reader=rdr,
                           program=prog)
            if ck == "name":
                kind, name, salt = pay
                g2 = None
                for b in x.bufs:
                    if isinstance(b, tuple):
                        raise Fail("a getter filled the whole buffer without a terminating NUL", reader=rdr, program=prog)
                    if isinstance(b, bytes):
                        g2 = b.decode("latin-1")
                        break
                if x.ret == -1 or not g2 or not name.startswith(g2):
                    raise Fail("after reopen the stored name is not a prefix of the name set", what=kind, length=L,
                               got=(g2 or "")[:80], reader=rdr, program=prog)
                if kind in TRUNC_KNOWN and TRUNC_KNOWN[kind] < L <= NAME_KINDS[kind] and g2 != name:
                    # truncated to the vdata name / field name length on reopen (known finding)
                    known_keys.add("C20-attr-name-truncated-to-64-on-reopen")
                    if not case.get("no_exclude"):
                        excluded.append("C20-attr-name-truncated-to-64-on-reopen")
                        names2[(kind, salt)] = g2
                        continue
                if L <= NAME_KINDS[kind] and g2 != name:
                    raise Fail("after reopen a name within the documented limit is truncated", what=kind, length=L,
                               limit=NAME_KINDS[kind], got_length=len(g2), reader=rdr, program=prog)
                if g2 != first[(kind, salt)]:
                    labels.add("truncated_on_reopen")
                names2[(kind, salt)] = g2
        second = names2
        labels.add("follow_up_checked")
    if path_items:
        labels.add("follow_up_checked")
    for fn in ("nm.hdf", "nmsd.hdf"):
        pth = os.path.join(d, fn)
        if os.path.exists(pth):
            f = h4fmt.parse_file(pth)
            if f.violations:
                raise Fail("file not well-formed after long names", violations=f.violations[:5], program=prog)
            for dd in f.dds:
                try:
                    if dd.tag == 1965:
                        h4fmt.parse_vg(f.raw(dd))
                    elif dd.tag == 1962:
                        h4fmt.parse_vh(f.raw(dd))
                except h4fmt.RecordError as e:
                    raise Fail("stored record inconsistent after long names: %s" % e, tag=dd.tag, ref=dd.ref,
                               items=[it[:2] for it in items], program=prog)


# ====================================================================== dims family
BIG_SHAPES = [([65536, 65536], 20), ([46341, 46341], 20), ([46340, 46340], 20), ([I32MAX], 20), ([I32MAX - 1], 20),
              ([1 << 30], 24), ([(1 << 29) + 1], 24), ([(1 << 29) - 1], 24), ([32768, 32768, 4], 20),
              ([I32MAX], 24), ([1 << 16, 1 << 15], 20), ([1 << 16, 1 << 15], 22), ([3, 1 << 30], 20),
              ([1 << 28], 6), ([(1 << 28) - 1], 6)]


@st.composite
def dims_case(draw):
    if draw(st.booleans()):
        return {"family": "dims", "rank": draw(st.sampled_from([1, 2, 31, 32, 32, 33, 33, 34, 64, 100, 5000, -1])),
                "two": draw(st.booleans())}
    shp, nt = draw(st.sampled_from(BIG_SHAPES))
    return {"family": "dims", "shape": shp, "nt": nt, "where": draw(st.sampled_from(["last", "first", "both", "mid"]))}


def run_dims(case, d, labels, excluded, known_keys):
    p = Prog()
    p.call("i", "SDstart", "dims.hdf", 4, bind="sd")
    p.call("i", "SDsetfillmode", V("sd"), 0x100)
    writes = []
    if "rank" in case:
        rank = case["rank"]
        n = max(rank, 1)
        dims = [1] * n
        if case["two"]:
            dims[0] = 2
        lc = p.call("i", "SDcreate", V("sd"), "r", 24, rank, i32s(*dims), bind="s")
        lw = p.call("i", "SDwritedata", V("s"), i32s(*([0] * n)), None, i32s(*([1] * n)), i32s(4242))
        li = p.call("i", "SDgetinfo", V("s"), OutS(64), Out(4), Out(4 * n + 8), Out(4), Out(4))
        le = p.call("i", "SDendaccess", V("s"))
        valid = 1 <= rank <= 32
    else:
        shp, nt = case["shape"], case["nt"]
        sz = {20: 1, 22: 2, 24: 4, 6: 8}[nt]
        total = sz
        for x in shp:
            total *= x
        lc = p.call("i", "SDcreate", V("sd"), "big", nt, len(shp), i32s(*shp), bind="s")
        pts = []
        if case["where"] in ("last", "both"):
            pts.append([x - 1 for x in shp])
        if case["where"] in ("first", "both"):
            pts.append([0] * len(shp))
        if case["where"] == "mid":
            pts.append([x // 2 for x in shp])
        for k, pt in enumerate(pts):
            lin = 0
            for x, i in zip(shp, pt):
                lin = lin * x + i
            data = pat(sz, 40 + k)
            lw = p.call("i", "SDwritedata", V("s"), i32s(*pt), None, i32s(*([1] * len(shp))), data)
            writes.append((lw, pt, data, (lin + 1) * sz))
        le = p.call("i", "SDendaccess", V("s"))
    good = i32s(5, 6, 7)
    p.call("i", "SDcreate", V("sd"), "after", 24, 1, i32s(3), bind="a")
    lg = p.call("i", "SDwritedata", V("a"), i32s(0), None, i32s(3), good)
    p.call("i", "SDendaccess", V("a"))
    lend = p.call("i", "SDend", V("sd"))
    rr = run(p, cwd=d, timeout=120)
    prog = "\n".join(l[:300] for l in p.text()[:6000].split("\n"))
    if not rr.done:
        raise Fail("crash", detail=rr.sanitizer_summary(), frames=rr.crash_frames(), text=rr.stderr[-1500:],
                   last_call=p.lines[rr.last_line][:100] if rr.last_line < len(p.lines) else "", program=prog)

    def r(ln):
        return rr.res[ln].ret
    created = r(lc) != -1
    kept = []
    if "rank" in case:
        if not valid:
            labels.add("over_limit")
            if created:
                raise Fail("SDcreate accepted a rank outside 1..32", rank=rank, program=prog)
        else:
            if rank == 32:
                labels.add("over_limit")
            if not created:
                raise Fail("SDcreate refused a rank within the limit", rank=rank, program=prog)
            if r(lw) != 0 or r(li) != 0 or un_i32s(rr.res[li].bufs[1])[0] != rank or r(le) != 0:
                raise Fail("a dataset of maximal rank cannot be written/inquired", rank=rank,
                           rets=[r(lw), r(li), r(le)], program=prog)
    else:
        if total > I32MAX:
            labels.add("over_limit")
        for lw, pt, data, endoff in writes:
            ok = created and r(lw) == 0
            if endoff > I32MAX:
                labels.add("over_limit")
                if ok:
                    raise Fail("a write whose element offset lies beyond 2^31-1 was accepted", start=pt,
                               end_offset=endoff, program=prog)
            if ok:
                kept.append((pt, data))
    if r(lg) != 0 or r(lend) != 0:
        raise Fail("an ordinary dataset / SDend failed after the limit requests", rets=[r(lg), r(lend)], program=prog)
    path = os.path.join(d, "dims.hdf")
    if os.path.getsize(path) > I32MAX:
        raise Fail("the file is longer than 2^31-1 bytes", size=os.path.getsize(path), program=prog)
    f = h4fmt.parse_file_mmap(path)
    try:
        if f.violations:
            raise Fail("file not well-formed after dimension-limit requests", violations=f.violations[:5], program=prog)
    finally:
        f.data.close()
    q = Prog()
    q.call("i", "SDstart", "dims.hdf", 1, bind="sd")
    lix = q.call("i", "SDnametoindex", V("sd"), "after", bind="ix")
    q.call("i", "SDselect", V("sd"), V("ix"), bind="a")
    la = q.call("i", "SDreaddata", V("a"), i32s(0), None, i32s(3), Out(12))
    rc = []
    if "rank" in case and created:
        n = max(case["rank"], 1)
        q.call("i", "SDnametoindex", V("sd"), "r", bind="ir")
        q.call("i", "SDselect", V("sd"), V("ir"), bind="s")
        rc.append((q.call("i", "SDgetinfo", V("s"), OutS(64), Out(4), Out(4 * n + 8), Out(4), Out(4)), "rank", case["rank"]))
        rc.append((q.call("i", "SDreaddata", V("s"), i32s(*([0] * n)), None, i32s(*([1] * n)), Out(4)), "buf", i32s(4242)))
    elif kept:
        q.call("i", "SDnametoindex", V("sd"), "big", bind="ir")
        q.call("i", "SDselect", V("sd"), V("ir"), bind="s")
        for pt, data in kept:
            rc.append((q.call("i", "SDreaddata", V("s"), i32s(*pt), None, i32s(*([1] * len(pt))), Out(len(data))),
                       "buf", data))
    q.call("i", "SDend", V("sd"))
    qq = run(q, cwd=d, timeout=120)
    if not qq.done:
        raise Fail("crash while re-reading", detail=qq.sanitizer_summary(), frames=qq.crash_frames(),
                   text=qq.stderr[-1200:], program=prog)
    if qq.res[lix].ret == -1 or qq.res[la].ret != 0 or qq.res[la].bufs[0] != good:
        raise Fail("an ordinary dataset written after the limit requests does not read back", program=prog)
    for ln, ck, pay in rc:
        x = qq.res[ln]
        if ck == "rank" and (x.ret != 0 or un_i32s(x.bufs[1])[0] != pay):
            raise Fail("rank differs after reopen", program=prog)
        if ck == "buf" and (x.ret != 0 or x.bufs[0] != pay):
            raise Fail("an accepted write near the size limit does not read back", call=q.lines[ln - 1][:120],
                       ret=x.ret, program=prog)
    labels.add("follow_up_checked")


# ====================================================================== openfiles family
@st.composite
def openfiles_case(draw):
    return {"family": "openfiles", "limit": draw(st.integers(20, 60)), "api": draw(st.sampled_from(["sd", "h", "mix"])),
            "extra": draw(st.integers(1, 12)), "reset": draw(st.sampled_from([None, None, 0, 10, 25, 100, 20000, 20001,
                                                                               I32MAX]))}


def run_openfiles(case, d, labels, excluded, known_keys):
    lim, extra = case["limit"], case["extra"]
    n = lim + extra
    p = Prog()
    p.raw("!rlimit nofile %d" % lim)
    lreset = None
    if case["reset"] is not None:
        lreset = p.call("i", "SDreset_maxopenfiles", case["reset"])
    opens = []
    for i in range(n):
        api = case["api"] if case["api"] != "mix" else ("sd" if i % 2 else "h")
        if api == "sd":
            opens.append(("sd", p.call("i", "SDstart", "o%d.hdf" % i, 4, bind="id%d" % i)))
        else:
            opens.append(("h", p.call("i", "Hopen", "o%d.hdf" % i, 4, 0, bind="id%d" % i)))
    # every id obtained must still work; the ones refused must have been refused cleanly
    uses = []
    for i, (api, ln) in enumerate(opens):
        if api == "sd":
            uses.append(p.call("i", "SDfileinfo", V("id%d" % i), Out(4), Out(4)))
        else:
            uses.append(p.call("i", "Hnumber", V("id%d" % i), 0))
    # release the first, then one more open must succeed
    api0 = opens[0][0]
    lrel = p.call("i", "SDend" if api0 == "sd" else "Hclose", V("id0"))
    lagain = p.call("i", "SDstart", "again.hdf", 4, bind="again")
    lput = p.call("i", "SDcreate", V("again"), "x", 24, 1, i32s(2), bind="s")
    lw = p.call("i", "SDwritedata", V("s"), i32s(0), None, i32s(2), i32s(8, 9))
    p.call("i", "SDendaccess", V("s"))
    lae = p.call("i", "SDend", V("again"))
    closes = []
    for i, (api, ln) in enumerate(opens[1:], 1):
        closes.append(p.call("i", "SDend" if api == "sd" else "Hclose", V("id%d" % i)))
    p.call("i", "SDstart", "again.hdf", 1, bind="again")
    p.call("i", "SDselect", V("again"), 0, bind="s")
    lrd = p.call("i", "SDreaddata", V("s"), i32s(0), None, i32s(2), Out(8))
    p.call("i", "SDend", V("again"))
    rr = run(p, cwd=d, timeout=120)
    prog = p.text()[:200] + " ... (%d opens)" % n
    if not rr.done:
        raise Fail("crash", detail=rr.sanitizer_summary(), frames=rr.crash_frames(), text=rr.stderr[-1500:],
                   last_call=p.lines[rr.last_line][:100] if rr.last_line < len(p.lines) else "", program=prog,
                   limit=lim, api=case["api"])

    def r(ln):
        return rr.res[ln].ret
    okc = sum(1 for (_a, ln) in opens if r(ln) != -1)
    labels.add("over_limit")
    if okc >= lim:
        raise Fail("more files are open than the process may have descriptors", opened=okc, limit=lim, program=prog)
    if okc < lim - 12:
        raise Fail("opens were refused well below the descriptor limit", opened=okc, limit=lim, program=prog)
    seen_fail = False
    for i, (api, ln) in enumerate(opens):
        if r(ln) == -1:
            seen_fail = True
            if r(uses[i]) != -1:
                raise Fail("a call on the id of a refused open succeeded", index=i, program=prog)
        else:
            if r(uses[i]) == -1:
                raise Fail("an id obtained before/after a refused open is not usable", index=i, api=api, program=prog)
    if r(opens[0][1]) != -1:
        if r(lrel) != 0:
            raise Fail("closing a file failed after refused opens", program=prog)
        if r(lagain) == -1 or r(lput) == -1 or r(lw) != 0 or r(lae) != 0:
            raise Fail("after releasing one file a new open/create/write failed", rets=[r(lagain), r(lput), r(lw), r(lae)],
                       program=prog)
        if r(lrd) != 0 or rr.res[lrd].bufs[0] != i32s(8, 9):
            raise Fail("a file written after refused opens does not read back", program=prog)
    for i, ln in enumerate(closes, 1):
        if r(opens[i][1]) != -1 and r(ln) != 0:
            raise Fail("closing file %d failed" % i, program=prog)
    if lreset is not None:
        v = r(lreset)
        if case["reset"] > 20000 and v != -1 and v > 20000:
            raise Fail("SDreset_maxopenfiles returned more than H4_MAX_NC_OPEN", ret=v, program=prog)
    if seen_fail:
        labels.add("follow_up_checked")


# ====================================================================== chunks family (one reference per chunk)
@st.composite
def chunks_case(draw):
    return {"family": "chunks", "first": draw(st.sampled_from([65000, 65500, 65530, 65534, 65535])),
            "second": draw(st.integers(1, 40)), "pre_meta": draw(st.booleans())}


def run_chunks(case, d, labels, excluded, known_keys):
    import struct as _s
    n1, n2 = case["first"], case["second"]
    total = 70000
    p = Prog()
    p.call("i", "SDstart", "ch.hdf", 4, bind="sd")
    if case["pre_meta"]:
        # an ordinary dataset written and flushed first: its metadata already owns references
        p.call("i", "SDcreate", V("sd"), "pre", 24, 1, i32s(3), bind="a")
        p.call("i", "SDwritedata", V("a"), i32s(0), None, i32s(3), i32s(5, 6, 7))
        p.call("i", "SDendaccess", V("a"))
        p.call("i", "SDend", V("sd"))
        p.call("i", "SDstart", "ch.hdf", 3, bind="sd")
    p.call("i", "SDcreate", V("sd"), "c", 20, 1, i32s(total), bind="s")
    cdef = _s.pack("=32i", *([1] + [0] * 31)) + b"\0" * (176 - 128)
    lsc = p.call("i", "hx_SDsetchunk", V("s"), cdef, 1)
    d1 = pat(n1, 3)
    l1 = p.call("i", "SDwritedata", V("s"), i32s(0), None, i32s(n1), d1)
    d2 = pat(n2, 4)
    l2 = p.call("i", "SDwritedata", V("s"), i32s(n1), None, i32s(n2), d2)
    l3 = p.call("i", "SDwritedata", V("s"), i32s(n1 + n2), None, i32s(5), pat(5, 5))
    lr = p.call("i", "SDreaddata", V("s"), i32s(0), None, i32s(n1), Out(n1))
    p.call("i", "SDendaccess", V("s"))
    lend = p.call("i", "SDend", V("sd"))
    rr = run(p, cwd=d, timeout=300)
    prog = "\n".join(l[:160] for l in p.text().split("\n"))[:3000]
    if not rr.done:
        raise Fail("crash", detail=rr.sanitizer_summary(), frames=rr.crash_frames(), text=rr.stderr[-1500:],
                   last_call=p.lines[rr.last_line][:100] if rr.last_line < len(p.lines) else "", program=prog)

    def r(ln):
        return rr.res[ln].ret
    if r(lsc) != 0 or r(l1) != 0:
        raise Fail("writing fewer than 65535 chunks failed", chunks=n1, rets=[r(lsc), r(l1)], program=prog)
    # chunk data goes through a write-back cache: the write that needs the 65536th reference reports success and
    # the failure surfaces in later calls (known finding C20-chunk-ref-exhaustion-deferred). Without no_exclude
    # only "no silent loss" is required: SDend must fail, or everything accepted must read back after reopen.
    strict = bool(case.get("no_exclude"))
    over = n1 + n2 + 5 > 65535
    if over:
        labels.add("over_limit")
        known_keys.add("C20-chunk-ref-exhaustion-deferred")
        if not strict:
            excluded.append("C20-chunk-ref-exhaustion-deferred")
    if strict:
        if n1 + n2 > 65535 and r(l2) != -1:
            raise Fail("a write needing more than 65535 chunk references was accepted", chunks=n1 + n2, program=prog)
        if over and r(l3) != -1:
            raise Fail("a write needing more than 65535 chunk references was accepted", chunks=n1 + n2 + 5, program=prog)
    if (strict or not over) and (r(lr) != 0 or rr.res[lr].bufs[0] != d1):
        raise Fail("chunks written before the reference limit do not read back", program=prog)
    labels.add("follow_up_checked")
    f = h4fmt.parse_file(os.path.join(d, "ch.hdf"))
    if f.violations:
        raise Fail("file not well-formed after chunk reference exhaustion", violations=f.violations[:5], program=prog)
    nchunk = sum(1 for dd in f.dds if dd.tag == 61)
    if nchunk > 65535:
        raise Fail("more than 65535 chunk descriptors stored", stored=nchunk, program=prog)
    q = Prog()
    q.call("i", "SDstart", "ch.hdf", 1, bind="sd")
    lq = lq2 = lq3 = lp = None
    if r(lend) == 0:
        q.call("i", "SDnametoindex", V("sd"), "c", bind="ix")
        q.call("i", "SDselect", V("sd"), V("ix"), bind="s")
        lq = q.call("i", "SDreaddata", V("s"), i32s(0), None, i32s(n1), Out(n1))
        if r(l2) == 0:
            lq2 = q.call("i", "SDreaddata", V("s"), i32s(n1), None, i32s(n2), Out(n2))
        if r(l3) == 0:
            lq3 = q.call("i", "SDreaddata", V("s"), i32s(n1 + n2), None, i32s(5), Out(5))
    else:
        labels.add("sdend_refused")
    if case["pre_meta"]:
        q.call("i", "SDnametoindex", V("sd"), "pre", bind="ip")
        q.call("i", "SDselect", V("sd"), V("ip"), bind="a")
        lp = q.call("i", "SDreaddata", V("a"), i32s(0), None, i32s(3), Out(12))
    q.call("i", "SDend", V("sd"))
    if lq is not None or lp is not None:
        qq = run(q, cwd=d, timeout=300)
        if not qq.done:
            raise Fail("crash while re-reading", detail=qq.sanitizer_summary(), frames=qq.crash_frames(), program=prog)
        for ln, want, what in ((lq, d1, "first"), (lq2, d2, "second"), (lq3, pat(5, 5), "third")):
            if ln is not None and (qq.res[ln].ret != 0 or qq.res[ln].bufs[0] != want):
                raise Fail("SDend reported success but an accepted chunked write does not read back after reopen",
                           which=what, chunks=n1 + n2 + 5, program=prog)
        if lp is not None and (qq.res[lp].ret != 0 or qq.res[lp].bufs[0] != i32s(5, 6, 7)):
            raise Fail("a dataset stored before the chunk reference exhaustion no longer reads back", program=prog)


# ====================================================================== dispatcher
@st.composite
def boundary_case(draw):
    """an element reserved so that it ends exactly at, just below or just above file offset 2^31"""
    return {"family": "boundary", "delta": draw(st.sampled_from([-2, -1, -1, 0, 0, 1])), "ndds": draw(st.sampled_from([0, 16, 200])),      # a free descriptor slot is certain: no block is added in between
            "pre": draw(st.integers(0, 3)), "cache": draw(st.booleans())}


def run_boundary(case, d, labels, excluded, known_keys):
    p = Prog()
    p.call("i", "Hopen", "big.hdf", 4, case["ndds"], bind="f")
    if not case["cache"]:
        p.call("i", "Hcache", V("f"), 0)
    for i in range(case["pre"]):
        p.call("i", "Hputelement", V("f"), 101, 10 + i, pat(7 * (i + 1), i), 7 * (i + 1))
    lr = p.call("i", "hx_reserve_to_boundary", V("f"), 100, 1, case["delta"])
    lp = p.call("i", "Hputelement", V("f"), 101, 50, b"after", 5)
    lc = p.call("i", "Hclose", V("f"))
    p.call("i", "Hopen", "big.hdf", 1, 0, bind="f")
    ll = p.call("i", "Hlength", V("f"), 100, 1)
    for i in range(case["pre"]):
        p.call("i", "Hgetelement", V("f"), 101, 10 + i, Out(7 * (i + 1) + 4))
    p.call("i", "Hclose", V("f"))
    rr = run(p, cwd=d, timeout=120)
    if not rr.done:
        raise Fail("crash", detail=rr.sanitizer_summary(), frames=rr.crash_frames(), program=p.text())
    acc = rr.res[lr].ret
    if acc < 0:
        raise Fail("harness: boundary helper failed", code=acc)
    labels.add("over_limit" if case["delta"] >= 0 else "at_limit")
    labels.add("follow_up_checked")
    if case["delta"] >= 0 and acc == 1:
        raise Fail("an element ending beyond file offset 2^31-1 was accepted", end=(1 << 31) + case["delta"],
                   later_put=rr.res[lp].ret, close=rr.res[lc].ret, program=p.text())
    if case["delta"] < 0:
        if acc != 1:
            raise Fail("an element ending at or below file offset 2^31-1 was refused", end=(1 << 31) + case["delta"],
                       program=p.text())
        labels.add("append_ok")
    else:
        labels.add("refused")
        # a refused reservation must not disturb the session: a small element still fits
        if rr.res[lp].ret != 5 or rr.res[lc].ret != 0:
            raise Fail("after a refused reservation a small element could not be stored / the file not closed",
                       put=rr.res[lp].ret, close=rr.res[lc].ret, program=p.text())
    if rr.res[lc].ret == 0:
        f = h4fmt.parse_file_mmap(os.path.join(d, "big.hdf"))
        try:
            if f.violations:
                raise Fail("file is not well-formed after a reservation at the offset limit", violations=f.violations[:4],
                           program=p.text())
        finally:
            f.data.close()


STRATS = {"eof": eof_case, "members": members_case, "refs": refs_case, "fields": fields_case, "names": names_case,
          "dims": dims_case, "openfiles": openfiles_case, "chunks": chunks_case, "boundary": boundary_case}
RUNNERS = {"eof": run_eof, "members": run_members, "refs": run_refs, "fields": run_fields, "names": run_names,
           "dims": run_dims, "openfiles": run_openfiles, "chunks": run_chunks, "boundary": run_boundary}
WEIGHTS = {"eof": 12, "members": 2, "refs": 1, "fields": 8, "names": 12, "dims": 8, "openfiles": 4, "chunks": 1,
           "boundary": 3}


@st.composite
def any_case(draw, tier):
    bag = []
    for k, w in WEIGHTS.items():
        bag += [k] * w
    fam = draw(st.sampled_from(bag))
    return draw(STRATS[fam]())


def strategy(tier):
    return any_case(tier)


def run_case(case):
    labels = set(["family_" + case["family"]])
    sample = dict(family=case["family"], case=str({k: v for k, v in case.items() if k != "family"})[:300])
    excluded, known_keys = [], set()
    with CaseDir() as d:
        try:
            RUNNERS[case["family"]](case, d, labels, excluded, known_keys)
        except Fail as f:
            info = f.info
            info["family"] = case["family"]
            info["known_keys"] = sorted(known_keys)
            return CaseResult(labels=labels, failure=info, sample=sample, excluded=excluded)
    return CaseResult(labels=labels, sample=sample, excluded=excluded)


def known_match(case, failure, entry):
    if not case.get("no_exclude") or entry["key"] not in failure.get("known_keys", []):
        return False
    if entry["key"] == "C20-chunk-ref-exhaustion-deferred":
        return failure.get("kind") in ("a write needing more than 65535 chunk references was accepted",
                                       "chunks written before the reference limit do not read back")
    if entry["key"] == "C20-attr-name-truncated-to-64-on-reopen":
        return failure.get("kind") == "after reopen a name within the documented limit is truncated"
    if entry["key"] == "C20-sdend-swallows-errors-at-limit":
        return failure.get("kind", "") in ("re-read: dataset content differs", "crash while re-reading the file") or \
            "SDstart" in str(failure.get("kind", "")) or "re-read" in failure.get("kind", "")
    return False
