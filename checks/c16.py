"""C16 — I/O failures are reported, never silently swallowed, never corrupt memory (fault enumeration)."""
import os, json, shutil, hashlib
import concurrent.futures as cf
from hypothesis import strategies as st
from h4verif.exe import Prog, run_text, CaseDir, scratch_root
from h4verif.runner import CaseResult, write_replay, case_hash
from h4verif import workloads as wl

PROPERTY = "C16"
LEVEL = "fault_enumeration"
NEED = ("h4x",)
RULE = ("workload library of 12 write workloads (H elements with the descriptor cache off, SD dimension metadata incl. a backward-compatible dimension, an old-style RLE raster rewritten through GR, H elements with linked/external growth and new DD blocks, SD basic, "
        "SD chunked+deflate and compressed, SD unlimited, Vdata/Vgroup with attributes, GR image+palette+compressed "
        "image, annotations, SD reopen with metadata rewrite) and 3 read-only scans; the fault-free run counts the N "
        "stdio calls (fopen/fread/fwrite/fseek/ftell/fflush/fclose) the library makes on its files; then for every "
        "ordinal k < N (both tiers; thorough doubles the runs with the other errno) x {single, sticky} x {nothing transferred, strict prefix transferred} the workload is re-run in a fresh "
        "sanitized process with the k-th call failing (EIO/ENOSPC; a failing fclose discards pending buffered output). "
        "Oracle: no sanitizer report/signal/hang; and if no API call of the run returned its failure value although "
        "the fault was delivered, every returned buffer and every produced file must be byte-identical to the "
        "fault-free run. Non-trivial = the fault lands inside a close/detach/end/sync-time call.")
BUDGET = {"quick": {"shards": 2, "cases": 60}, "thorough": {"shards": 4, "cases": 300}}
MIN_NT = {"quick": 800, "thorough": 1500}
ASSUMPTIONS = ["faults are injected at the stdio call boundary of the harness-linked library (link-time --wrap)",
               "a hang is judged by a 60 s in-process alarm, confirmed by re-running the case alone"]
CLOSERS = ("Hclose", "SDend", "GRend", "Vfinish", "ANend", "VSdetach", "Vdetach", "SDendaccess", "GRendaccess",
           "Hendaccess", "ANendaccess", "Hsync")

NW = len(wl.WORKLOADS)
SCANS = ["sd", "v", "h"]
NALL = NW + len(SCANS) + len(wl.WORKLOADS2)


def wname(w):
    if w < NW:
        return wl.WORKLOADS[w][0]
    if w < NW + len(SCANS):
        return "scan_" + SCANS[w - NW]
    return wl.WORKLOADS2[w - NW - len(SCANS)][0]


def nontrivial(labels):
    return "close_time" in labels


def file_digest(paths):
    h = hashlib.sha1()
    for p in paths:
        h.update(p.split("/")[-1].encode())
        try:
            with open(p, "rb") as f:
                h.update(f.read())
        except FileNotFoundError:
            h.update(b"<missing>")
    return h.hexdigest()


def build(widx, d):
    """returns (program text with marks, produced paths, prelude program text or None)"""
    # file names are relative (the run's cwd is the case directory): absolute scratch paths must not end up in
    # file contents (external-element headers store the name), or no two runs would be byte-comparable
    if widx < NW:
        p, paths = wl.WORKLOADS[widx][1]("")
        prelude = None
    elif widx >= NW + len(SCANS):
        p, paths = wl.WORKLOADS2[widx - NW - len(SCANS)][1]("")
        prelude = None
    else:
        kind = SCANS[widx - NW]
        src = {"sd": 3, "v": 5, "h": 0}[kind]
        pp, paths = wl.WORKLOADS[src][1]("")
        prelude = pp.text()
        p = wl.read_scan_program("", kind)
    paths = [os.path.join(d, x) for x in paths]
    lines = []
    for i, l in enumerate(p.lines):
        lines.append("!mark %d" % i)
        lines.append(l)
    lines.append("!counts")
    return "\n".join(lines) + "\n", paths, prelude, p


_BASE = {}


def baseline(widx):
    """fault-free transcript, digest, number of stdio calls and ordinal->op map (cached per process)"""
    if widx in _BASE:
        return _BASE[widx]
    with CaseDir() as d:
        text, paths, prelude, p = build(widx, d)
        if prelude:
            r0 = run_text(prelude, cwd=d)
            if not r0.done:
                raise RuntimeError("prelude failed: " + r0.sanitizer_summary())
        trace = os.path.join(d, "trace")
        rr = run_text(text, cwd=d, trace=trace)
        if not rr.done:
            raise RuntimeError("fault-free workload %d does not complete: %s" % (widx, rr.sanitizer_summary()))
        total = [r for r in rr.res.values() if r.kind == "C"][-1].ret["total"]
        transcript = {ln: (r.ret, [bytes(b) if not isinstance(b, tuple) else b[1] for b in r.bufs])
                      for ln, r in rr.res.items() if r.kind == "R"}
        # every fault-free call must succeed (ret != -1), otherwise "visible failure" is meaningless
        bad = [ln for ln, (ret, _b) in transcript.items() if ret == -1]
        if bad:
            raise RuntimeError("fault-free workload %d has failing calls at lines %s" % (widx, bad[:5]))
        omap = {}
        kmap = {}
        cur = -1
        with open(trace) as f:
            for l in f:
                if l.startswith("M "):
                    cur = int(l.split()[1])
                else:
                    omap[int(l.split()[0])] = cur
                    kmap[int(l.split()[0])] = l.split()[1]
        dig = file_digest(paths)
        fnames = [os.path.basename(x) for x in paths]
    _BASE[widx] = dict(total=total, transcript=transcript, digest=dig, omap=omap, kmap=kmap, lines=p.lines,
                       fnames=fnames)
    return _BASE[widx]


def run_fault(widx, k, sticky, mode, err):
    """returns (outcome, detail) outcome in ok | visible | swallowed | crash | hang | not_delivered"""
    b = baseline(widx)
    with CaseDir() as d:
        text, paths, prelude, p = build(widx, d)
        if prelude:
            run_text(prelude, cwd=d)
        rr = run_text(text, cwd=d, fault="%d:%d:%d:%d" % (k, sticky, err, mode))
        if rr.timeout:
            return "hang", dict(summary="watchdog expired")
        if not rr.done:
            # a sanitizer report or signal; exit code 3 would be a harness error
            if rr.harness_error:
                return "harness", dict(error=rr.harness_error)
            return "crash", dict(summary=rr.sanitizer_summary(), frames=rr.crash_frames(),
                                 text=rr.stderr[-1200:], last_call=p.lines[max(0, (rr.last_line // 2) - 1)][:80])
        cnt = [r for r in rr.res.values() if r.kind == "C"][-1].ret
        if cnt["faults"] == 0:
            return "not_delivered", {}
        visible = None
        for ln, r in sorted(rr.res.items()):
            if r.kind == "R" and r.ret == -1:
                visible = ln
                break
        if visible is not None:
            return "visible", dict(line=visible)
        # nothing failed visibly: outputs and files must be identical to the fault-free run
        for ln, (ret, bufs) in b["transcript"].items():
            r = rr.res.get(ln)
            got = (r.ret, [bytes(x) if not isinstance(x, tuple) else x[1] for x in r.bufs]) if r else None
            if got != (ret, bufs):
                call = p.lines[(ln // 2) - 1][:80] if ln >= 2 else ""
                # ids/refs legitimately differ only if allocation order changed; none of the workloads depends on it
                return "swallowed", dict(what="a call returned different data although no call failed", line=ln,
                                         call=call, expected_ret=ret, observed_ret=(r.ret if r else None))
        if file_digest(paths) != b["digest"]:
            return "swallowed", dict(what="every call succeeded but the files differ from the fault-free run",
                                     op_of_fault=b["omap"].get(k), call_of_fault=p.lines[b["omap"].get(k, 0)][:80]
                                     if b["omap"].get(k, -1) >= 0 else "?")
        return "ok", {}


def fault_site(widx, k, sticky, mode, err):
    """library functions on the stack of the stdio call that is made to fail (innermost first), obtained by
    re-running the case with the stack dump switched on; harness/libc frames removed"""
    with CaseDir() as d:
        text, paths, prelude, p = build(widx, d)
        if prelude:
            run_text(prelude, cwd=d)
        rr = run_text(text, cwd=d, fault="%d:%d:%d:%d" % (k, sticky, err, mode), fault_stack=True)
    fr = rr.fault_stack()
    drop = ("tick", "__wrap_", "exec_call", "main", "__libc", "_start", "__sanitizer")
    return [f for f in fr if not f.startswith(drop)]


def api_of(line):
    t = line.split()
    if t and t[0].startswith("="):
        t = t[1:]
    return t[1] if len(t) > 1 else None


def is_close_time(widx, k):
    b = baseline(widx)
    op = b["omap"].get(k, -1)
    if op < 0:
        return False
    return any(c in b["lines"][op] for c in CLOSERS)


# ------------------------------------------------------------------------------ Hypothesis part: random faults
@st.composite
def strategy_(draw, tier):
    return {"w": draw(st.integers(0, NALL - 1)), "kfrac": draw(st.integers(0, 9999)),
            "sticky": draw(st.integers(0, 1)), "mode": draw(st.integers(0, 1)), "err": draw(st.sampled_from([5, 28]))}


def strategy(tier):
    return strategy_(tier)


def run_case(case):
    w = case["w"]
    b = baseline(w)
    k = case.get("k", (case["kfrac"] * b["total"]) // 10000)
    labels = set()
    if is_close_time(w, k):
        labels.add("close_time")
    out, det = run_fault(w, k, case["sticky"], case["mode"], case["err"])
    labels.add(out)
    name = wname(w)
    sample = dict(workload=name, k=k, of=b["total"], sticky=case["sticky"], mode=case["mode"], outcome=out)
    if out in ("crash", "hang", "swallowed", "harness"):
        det = dict(det)
        det.update(kind="%s under injected I/O fault" % out, workload=name, k=k, total=b["total"],
                   sticky=case["sticky"], mode=case["mode"], errno=case["err"], stdio_call=b["kmap"].get(k),
                   api=api_of(b["lines"][b["omap"][k]]) if b["omap"].get(k, -1) >= 0 else None,
                   op_of_fault=b["omap"].get(k), call_of_fault=(b["lines"][b["omap"][k]][:80]
                                                                 if b["omap"].get(k, -1) >= 0 else None))
        if out == "swallowed":
            det["fault_site"] = fault_site(w, k, case["sticky"], case["mode"], case["err"])
        return CaseResult(labels=labels, failure=det, sample=sample)
    return CaseResult(labels=labels, sample=sample)


def _one(args):
    w, k, sticky, mode = args[:4]
    err = args[4] if len(args) > 4 else (5 if mode == 0 else 28)
    case = {"w": w, "k": k, "kfrac": 0, "sticky": sticky, "mode": mode, "err": err}
    res = run_case(case)
    return case, res.labels, res.failure, res.sample


def known_match(case, failure, entry):
    m = entry.get("match", {})
    if not m:
        return False
    name = failure.get("workload")
    if m.get("kind") and not failure.get("kind", "").startswith(m["kind"]):
        return False
    if m.get("api") and failure.get("api") != m["api"]:
        return False
    if m.get("stdio_call") and failure.get("stdio_call") not in m["stdio_call"]:
        return False
    if m.get("site_contains"):
        # identified by call site: these functions, in this order (innermost first), are on the stack of the
        # stdio call that failed
        site = failure.get("fault_site") or []
        pos = -1
        for fn in m["site_contains"]:
            if fn not in site[pos + 1:]:
                return False
            pos = site.index(fn, pos + 1)
    if m.get("mode") is not None and failure.get("mode") != m["mode"]:
        return False
    if m.get("call_contains") and m["call_contains"] not in (failure.get("call_of_fault") or ""):
        return False
    if m.get("what_contains") and m["what_contains"] not in (failure.get("what") or ""):
        return False
    if m.get("frame") and m["frame"] not in (failure.get("frames") or []):
        return False
    return True


def _pool_init():
    import atexit, shutil
    from h4verif import exe
    root = exe.scratch_root()
    import multiprocessing.util as mu
    mu.Finalize(None, shutil.rmtree, args=(root, True), exitpriority=1)


def extra(tier, seed, ctx):
    from h4verif.runner import apply_known
    import sys
    mod = sys.modules[__name__]
    jobs = []
    for w in range(NALL):
        n = baseline(w)["total"]
        for k in range(n):          # every stdio call of the fault-free run, in both tiers
            for sticky in (0, 1):
                for mode in (0, 1):
                    jobs.append((w, k, sticky, mode, 5 if mode == 0 else 28))
                    if tier == "thorough":
                        jobs.append((w, k, sticky, mode, 28 if mode == 0 else 5))
    viol, outcomes, nth, samples, suppressed = [], {}, set(), [], {}
    known = ctx.get("known", [])
    seen_fail = set()
    with cf.ProcessPoolExecutor(16, initializer=_pool_init) as ex:
        for case, labels, failure, sample in ex.map(_one, jobs, chunksize=16):
            for l in labels:
                outcomes[l] = outcomes.get(l, 0) + 1
            if "close_time" in labels:
                nth.add(case_hash(case))
                if len(samples) < 4:
                    samples.append(sample)
            if failure is not None:
                class R:
                    pass
                r = R()
                r.failure = failure
                key = apply_known(mod, case, r, known)
                if key:
                    suppressed[key] = suppressed.get(key, 0) + 1
                    continue
                sig = (failure.get("kind"), failure.get("workload"), failure.get("call_of_fault"),
                       failure.get("what"), tuple(failure.get("frames") or [])[:3])
                if sig in seen_fail:
                    continue
                seen_fail.add(sig)
                if len(viol) < 12:
                    viol.append((write_replay(PROPERTY, case, failure), failure))
    known_lines = []
    for k in suppressed:
        e = next(e for e in known if e["key"] == k)
        known_lines.append("KNOWN-FINDING: property=%s %s" % (PROPERTY, e["text"]))
    return dict(violations=viol, evaluations=len(jobs), nt_hashes=sorted(nth), samples=samples,
                fault_outcomes=outcomes, known_lines=known_lines, suppressed_in_enumeration=suppressed,
                stdio_calls_per_workload={wname(w): baseline(w)["total"] for w in range(NALL)},
                exhaustive=True)


RULE += (" " + 'Workload sd_recompress: a dataset stored uncompressed in one session is given a compression in the next one and rewritten.')
