"""C10 — attributes and descriptive metadata are returned exactly as last set."""
import os, struct
import numpy as np
from hypothesis import strategies as st
from h4verif.exe import Prog, V, Out, OutS, InOut, run, CaseDir, i32s, un_i32s
from h4verif.runner import CaseResult
from h4verif import sdmodel as sm

PROPERTY = "C10"
LEVEL = "exploration"
NEED = ("h4x",)
RULE = ("histories (<=30 ops) over 10 attributable objects (SD file, 2 SDS, 2 dimensions, GR file, raster image, "
        "Vdata, Vdata field, Vgroup): set attribute (all number types, counts 1..2000 and counts that put the size at 2048/4096 bytes +-1 element, names incl. long and "
        "shared-prefix ones), re-set with same/different type or count, predefined SD metadata (dimension names incl. "
        "shared, scales, dimension/data strings, calibration, range, fill value), reopen read-only or read-write "
        "followed by creating another object; after each mutator and after the final reopen every attribute is "
        "looked up by name, its index must be stable, type/count/values must equal the dict model; predefined "
        "getters must return what was set; SDnametoindex/SDidtoref/SDreftoindex must be consistent. Non-trivial = "
        "replacement of an existing attribute, >=10 attributes on one object, a shared dimension name, or "
        "reopen-then-add-objects.")
BUDGET = {"quick": {"shards": 8, "cases": 150}, "thorough": {"shards": 16, "cases": 2000}}
MIN_NT = {"quick": 300, "thorough": 4000}
ASSUMPTIONS = ["Vdata/Vgroup attribute names <= 64 characters (longer belongs to C20)",
               "re-setting with a different type/count may be refused (then the old value must remain)"]
NT_LABELS = {"replace", "many_attrs", "shared_dim", "reopen_add"}
OBJS = ["sdfile", "sds0", "sds1", "dim0", "dim1", "grfile", "ri", "vs", "vsf", "vg"]
SDK = {"sdfile", "sds0", "sds1", "dim0", "dim1"}


NCCLASS = {"int8": "b", "uint8": "b", "char8": "c", "int16": "s", "uint16": "s", "int32": "l", "uint32": "l",
           "float32": "f", "float64": "d"}


def nontrivial(labels):
    return bool(NT_LABELS & set(labels))


class Fail(Exception):
    def __init__(self, kind, **kw):
        self.info = dict(kind=kind, **kw)


names_st = st.one_of(st.sampled_from(["a", "attr", "attr1", "attr12", "valid", "units2", "Long_Name", "x" * 60]),
                     st.text(alphabet="abcdefXYZ_0123", min_size=1, max_size=20))


@st.composite
def strategy_(draw, tier):
    ops = []
    sets = []
    for _ in range(draw(st.integers(3, 30))):
        c = draw(st.integers(0, 99))
        if c < 12 and sets:
            # re-set an existing attribute with the same type and count (new values)
            o_ = draw(st.sampled_from(sets))
            ops.append(["set", o_[0], o_[1], o_[2], o_[3], draw(st.integers(0, 99))])
        elif c < 55:
            obj = draw(st.sampled_from(OBJS))
            nt = draw(st.sampled_from(sorted(sm.NT)))
            k_ = draw(st.integers(0, 11))
            if k_ == 0:
                cnt = draw(st.sampled_from([100, 2000]))
            elif k_ == 1:
                # sizes around the interfaces' caching thresholds (GR keeps attributes of up to 2048 bytes in memory)
                isz_ = np.dtype(sm.NT[nt][1]).itemsize
                cnt = max(1, draw(st.sampled_from([2048, 2048, 4096])) // isz_ + draw(st.sampled_from([-1, 0, 0, 1])))
            else:
                cnt = draw(st.integers(1, 12))
            name = draw(names_st)
            if draw(st.integers(0, 19)) == 0:
                # attribute names are stored as Vdata names (64 bytes): longer ones are truncated on reopen,
                # which is limit handling (C20), not attribute round-tripping
                name = "L" * draw(st.sampled_from([62, 63, 64]))
            ops.append(["set", obj, name, nt, cnt, draw(st.integers(0, 99))])
            sets.append((obj, name, nt, cnt))
        elif c < 60:
            obj = draw(st.sampled_from(OBJS))
            ops.append(["setmany", obj, draw(st.integers(10, 14)), draw(st.sampled_from(["int16", "char8", "float64"]))])
        elif c < 65:
            ops.append(["dimname", draw(st.integers(0, 1)), draw(st.sampled_from(["dx", "dy", "shared", "shared", "latitude", "lat", "la"]))])   # incl. names that are prefixes of one another
            rel = {"latitude": ["lat", "la"], "lat": ["la", "latitude"], "la": ["lat", "latitude"]}
            if ops[-1][2] in rel and draw(st.booleans()):
                # the other dimension gets a name related by prefix (shorter or longer)
                ops.append(["dimname", 1 - ops[-1][1], draw(st.sampled_from(rel[ops[-1][2]]))])
        elif c < 70:
            ops.append(["dimscale", draw(st.integers(0, 1)), draw(st.sampled_from(["int32", "float32", "uint8", "uint32", "int8", "int16", "uint16"])),
                        draw(st.integers(0, 99))])
            twin = {"int32": "uint32", "uint32": "int32", "int16": "uint16", "uint16": "int16", "int8": "uint8", "uint8": "int8"}
            if ops[-1][2] in twin and draw(st.integers(0, 2)) == 0:
                # the same scale re-set with the other signedness of the same width
                ops.append(["dimscale", ops[-1][1], twin[ops[-1][2]], draw(st.integers(0, 99))])
        elif c < 74:
            ops.append(["dimstrs", draw(st.integers(0, 1)), draw(st.integers(0, 99))])
        elif c < 79:
            ops.append(["datastrs", draw(st.integers(0, 1)), draw(st.integers(0, 99))])
        elif c < 83:
            ops.append(["cal", draw(st.integers(0, 1)), draw(st.integers(0, 99))])
        elif c < 87:
            ops.append([draw(st.sampled_from(["range", "range", "prange"])), draw(st.integers(0, 1)), draw(st.integers(0, 99))])
        elif c < 93:
            ops.append(["reopen", draw(st.sampled_from(["ro", "rw", "rw_add"]))])
        else:
            ops.append(["lookups"])
    return {"ops": ops}


def strategy(tier):
    return strategy_(tier)


def values(nt, cnt, seed):
    return sm.gen_values(nt, seed, cnt)


def sstr(seed, k):
    return "s%d_%d_%s" % (seed, k, "z" * (seed % 7))


# per object kind: how to call
def idvar(obj):
    return {"sdfile": "sd", "sds0": "s0", "sds1": "s1", "dim0": "d0", "dim1": "d1", "grfile": "gr", "ri": "ri",
            "vs": "vs", "vsf": "vs", "vg": "vg"}[obj]


def call_set(p, obj, name, ntc, cnt, data):
    i = V(idvar(obj))
    if obj in SDK:
        return p.call("i", "SDsetattr", i, name, ntc, cnt, data)
    if obj in ("grfile", "ri"):
        return p.call("i", "GRsetattr", i, name, ntc, cnt, data)
    if obj == "vs":
        return p.call("i", "VSsetattr", i, -1, name, ntc, cnt, data)
    if obj == "vsf":
        return p.call("i", "VSsetattr", i, 0, name, ntc, cnt, data)
    return p.call("i", "Vsetattr", i, name, ntc, cnt, data)


def call_find(p, obj, name):
    i = V(idvar(obj))
    if obj in SDK:
        return p.call("i", "SDfindattr", i, name, bind="ix")
    if obj in ("grfile", "ri"):
        return p.call("i", "GRfindattr", i, name, bind="ix")
    if obj == "vs":
        return p.call("i", "VSfindattr", i, -1, name, bind="ix")
    if obj == "vsf":
        return p.call("i", "VSfindattr", i, 0, name, bind="ix")
    return p.call("i", "Vfindattr", i, name, bind="ix")


def call_info(p, obj):
    i = V(idvar(obj))
    if obj in SDK:
        return p.call("i", "SDattrinfo", i, V("ix"), OutS(400), Out(4), Out(4))
    if obj in ("grfile", "ri"):
        return p.call("i", "GRattrinfo", i, V("ix"), OutS(400), Out(4), Out(4))
    if obj == "vs":
        return p.call("i", "VSattrinfo", i, -1, V("ix"), OutS(400), Out(4), Out(4), Out(4))
    if obj == "vsf":
        return p.call("i", "VSattrinfo", i, 0, V("ix"), OutS(400), Out(4), Out(4), Out(4))
    return p.call("i", "Vattrinfo", i, V("ix"), OutS(400), Out(4), Out(4), Out(4))


def call_read(p, obj, size):
    i = V(idvar(obj))
    if obj in SDK:
        return p.call("i", "SDreadattr", i, V("ix"), Out(size))
    if obj in ("grfile", "ri"):
        return p.call("i", "GRgetattr", i, V("ix"), Out(size))
    if obj == "vs":
        return p.call("i", "VSgetattr", i, -1, V("ix"), Out(size))
    if obj == "vsf":
        return p.call("i", "VSgetattr", i, 0, V("ix"), Out(size))
    return p.call("i", "Vgetattr", i, V("ix"), Out(size))


def run_case(case):
    labels = set()
    with CaseDir() as d:
        psd = os.path.join(d, "sd.hdf")
        phv = os.path.join(d, "hv.hdf")
        p = Prog()
        steps = []

        def S(role, ln, *a):
            steps.append((role, ln, a))

        # ---- setup
        S("nofail", p.call("i", "SDstart", psd, 7, bind="sd"), "SDstart")
        S("nofail", p.call("i", "SDcreate", V("sd"), "alpha", 24, 2, i32s(3, 4), bind="s0"), "SDcreate")
        S("nofail", p.call("i", "SDcreate", V("sd"), "beta", 5, 1, i32s(4), bind="s1"), "SDcreate")
        S("nofail", p.call("i", "SDgetdimid", V("s0"), 1, bind="d0"), "SDgetdimid")
        S("nofail", p.call("i", "SDgetdimid", V("s1"), 0, bind="d1"), "SDgetdimid")
        S("nofail", p.call("i", "Hopen", phv, 7, 0, bind="f"), "Hopen")
        S("nofail", p.call("i", "GRstart", V("f"), bind="gr"), "GRstart")
        S("nofail", p.call("i", "GRcreate", V("gr"), "img", 1, 21, 0, i32s(2, 2), bind="ri"), "GRcreate")
        S("ret0", p.call("i", "GRwriteimage", V("ri"), i32s(0, 0), None, i32s(2, 2), bytes(4)), "GRwriteimage")
        S("ret0", p.call("i", "Vinitialize", V("f")), "Vstart")
        S("nofail", p.call("i", "VSattach", V("f"), -1, "w", bind="vs"), "VSattach")
        S("ret0", p.call("i", "VSfdefine", V("vs"), "fa", 24, 1), "VSfdefine")
        S("ret0", p.call("i", "VSfdefine", V("vs"), "fb", 5, 2), "VSfdefine")
        S("ret0", p.call("i", "VSsetfields", V("vs"), "fa,fb"), "VSsetfields")
        S("retn", p.call("i", "VSwrite", V("vs"), bytes(12), 1, 0), 1, "VSwrite")
        S("nofail", p.call("i", "VSQueryref", V("vs"), bind="vsref"), "VSQueryref")
        S("nofail", p.call("i", "Vattach", V("f"), -1, "w", bind="vg"), "Vattach")
        S("ret0", p.call("i", "Vsetname", V("vg"), "grp"), "Vsetname")
        S("nofail", p.call("i", "VQueryref", V("vg"), bind="vgref"), "VQueryref")
        writable = True
        known_names = {o: [] for o in OBJS}     # names set so far (static: all sets are emitted)
        dimnames = {0: None, 1: None}
        dim_touched = {0: False, 1: False}
        scale_nt = {}
        gr_shape = {}
        excluded = []
        known_keys = set()
        nadd = 0

        def check_attr(obj, name):
            S("find", call_find(p, obj, name), obj, name)
            S("info", call_info(p, obj), obj, name)
            S("read", call_read(p, obj, 2000 * 8 + 16), obj, name)

        def check_object(obj):
            for nm in known_names[obj]:
                check_attr(obj, nm)

        def close_all():
            S("ret0", p.call("i", "SDendaccess", V("s0")), "SDendaccess")
            S("ret0", p.call("i", "SDendaccess", V("s1")), "SDendaccess")
            S("ret0", p.call("i", "SDend", V("sd")), "SDend")
            S("ret0", p.call("i", "VSdetach", V("vs")), "VSdetach")
            S("ret0", p.call("i", "Vdetach", V("vg")), "Vdetach")
            S("ret0", p.call("i", "Vfinish", V("f")), "Vend")
            S("ret0", p.call("i", "GRendaccess", V("ri")), "GRendaccess")
            S("ret0", p.call("i", "GRend", V("gr")), "GRend")
            S("ret0", p.call("i", "Hclose", V("f")), "Hclose")

        def open_all(rw):
            S("nofail", p.call("i", "SDstart", psd, 3 if rw else 1, bind="sd"), "SDstart")
            S("sdidx", p.call("i", "SDnametoindex", V("sd"), "alpha", bind="i0"), "alpha")
            S("sdidx", p.call("i", "SDnametoindex", V("sd"), "beta", bind="i1"), "beta")
            S("nofail", p.call("i", "SDselect", V("sd"), V("i0"), bind="s0"), "SDselect")
            S("nofail", p.call("i", "SDselect", V("sd"), V("i1"), bind="s1"), "SDselect")
            S("nofail", p.call("i", "SDgetdimid", V("s0"), 1, bind="d0"), "SDgetdimid")
            S("nofail", p.call("i", "SDgetdimid", V("s1"), 0, bind="d1"), "SDgetdimid")
            S("nofail", p.call("i", "Hopen", phv, 3 if rw else 1, 0, bind="f"), "Hopen")
            S("nofail", p.call("i", "GRstart", V("f"), bind="gr"), "GRstart")
            S("nofail", p.call("i", "GRselect", V("gr"), 0, bind="ri"), "GRselect")
            S("ret0", p.call("i", "Vinitialize", V("f")), "Vstart")
            S("nofail", p.call("i", "VSattach", V("f"), V("vsref"), "w" if rw else "r", bind="vs"), "VSattach")
            S("nofail", p.call("i", "Vattach", V("f"), V("vgref"), "w" if rw else "r", bind="vg"), "Vattach")

        def recheck_dims():
            # after a reopen every named dimension must still carry its name, and every scale its values
            for di_ in (0, 1):
                if dimnames[di_] is not None:
                    S("diminfo", p.call("i", "SDdiminfo", V("d%d" % di_), OutS(300), Out(4), Out(4), Out(4)), di_)
                S("getscale", p.call("i", "SDgetdimscale", V("d%d" % di_), Out(4 * 8)), di_)

        for op in case["ops"]:
            k = op[0]
            if k == "set":
                _, obj, name, nt, cnt, seed = op
                if not writable:
                    continue
                name = name[:64]
                if obj in ("grfile", "ri"):
                    prev = gr_shape.get((obj, name))
                    if prev is not None and prev != (nt, cnt) and prev[0] == nt:
                        # known finding C10-gr-attr-recount: GRsetattr accepts another count for an existing
                        # attribute but the stored Vdata keeps its old record count
                        if not case.get("no_exclude"):
                            excluded.append("C10-gr-attr-recount")
                            cnt = prev[1]
                        else:
                            known_keys.add("C10-gr-attr-recount")
                    gr_shape.setdefault((obj, name), (nt, cnt))
                data = values(nt, cnt, seed)
                if obj in ("dim0", "dim1"):
                    dim_touched[int(obj[3])] = True
                S("set", call_set(p, obj, name, sm.NT[nt][0], cnt, data.tobytes()), obj, name, nt, cnt, data.tobytes())
                if name not in known_names[obj]:
                    known_names[obj].append(name)
                check_object(obj)
            elif k == "setmany":
                _, obj, n, nt = op
                if not writable:
                    continue
                if obj in ("dim0", "dim1"):
                    dim_touched[int(obj[3])] = True
                for j in range(n):
                    name = "m%02d" % j
                    data = values(nt, 2, j)
                    S("set", call_set(p, obj, name, sm.NT[nt][0], 2, data.tobytes()), obj, name, nt, 2, data.tobytes())
                    if name not in known_names[obj]:
                        known_names[obj].append(name)
                check_object(obj)
            elif k == "dimname":
                _, di, nm = op
                if not writable:
                    continue
                # the SD interface expects a dimension to be named before scales/strings/attributes are attached
                # to it (they are kept with a coordinate variable of the dimension's name): only then generated
                if dim_touched[0] or dim_touched[1] or dimnames[di] is not None:
                    continue
                # dims 0 and 1 have sizes 4 and 4: sharing a name is legal
                S("dimname", p.call("i", "SDsetdimname", V("d%d" % di), nm), di, nm)
                dimnames[di] = nm
                S("diminfo", p.call("i", "SDdiminfo", V("d%d" % di), OutS(300), Out(4), Out(4), Out(4)), di)
                other = 1 - di
                if dimnames[other] == nm:
                    labels.add("shared_dim")
                    S("share", None)
                # after sharing, both ids must be re-fetched (same dimension object)
                S("nofail", p.call("i", "SDgetdimid", V("s0"), 1, bind="d0"), "SDgetdimid")
                S("nofail", p.call("i", "SDgetdimid", V("s1"), 0, bind="d1"), "SDgetdimid")
            elif k == "dimscale":
                _, di, nt, seed = op
                if not writable:
                    continue
                eff = 0 if (dimnames[0] is not None and dimnames[0] == dimnames[1]) else di
                if scale_nt.get(eff, nt) != nt and NCCLASS[scale_nt[eff]] == NCCLASS[nt]:
                    # same width, other signedness: the coordinate variable keeps its netCDF type, the re-set is
                    # accepted and the scale must then be reported with the new number type
                    scale_nt[eff] = nt
                    labels.add("scale_retype_same_width")
                if scale_nt.get(eff, nt) != nt:
                    # known finding C10-dimscale-retype: changing the number type of an existing scale fails
                    # AND damages the old scale; excluded by construction (probed from the corpus)
                    if not case.get("no_exclude"):
                        excluded.append("C10-dimscale-retype")
                        nt = scale_nt[eff]
                    else:
                        known_keys.add("C10-dimscale-retype")
                scale_nt.setdefault(eff, nt)
                data = values(nt, 4, seed)
                dim_touched[di] = True
                S("dimscale", p.call("i", "SDsetdimscale", V("d%d" % di), 4, sm.NT[nt][0], data.tobytes()), di, nt,
                  data.tobytes())
                S("getscale", p.call("i", "SDgetdimscale", V("d%d" % di), Out(4 * 8)), di)
                S("scalent", p.call("i", "SDdiminfo", V("d%d" % di), OutS(300), Out(4), Out(4), Out(4)), di)
            elif k == "dimstrs":
                _, di, seed = op
                if not writable:
                    continue
                ss = [sstr(seed, j) for j in range(3)]
                dim_touched[di] = True
                S("dimstrs", p.call("i", "SDsetdimstrs", V("d%d" % di), ss[0], ss[1], ss[2]), di, ss)
                S("getdimstrs", p.call("i", "SDgetdimstrs", V("d%d" % di), OutS(200), OutS(200), OutS(200), 200), di)
            elif k == "datastrs":
                _, si, seed = op
                if not writable:
                    continue
                ss = [sstr(seed, j) for j in range(4)]
                S("datastrs", p.call("i", "SDsetdatastrs", V("s%d" % si), ss[0], ss[1], ss[2], ss[3]), si, ss)
                S("getdatastrs", p.call("i", "SDgetdatastrs", V("s%d" % si), OutS(200), OutS(200), OutS(200),
                                        OutS(200), 200), si)
                check_object("sds%d" % si)
            elif k == "cal":
                _, si, seed = op
                if not writable:
                    continue
                cal = [seed + 0.5, seed * 0.25, float(seed * 3), 0.125]
                S("cal", p.call("i", "SDsetcal", V("s%d" % si), cal[0], cal[1], cal[2], cal[3], 22), si, cal)
                S("getcal", p.call("i", "SDgetcal", V("s%d" % si), Out(8), Out(8), Out(8), Out(8), Out(4)), si)
                check_object("sds%d" % si)
            elif k == "range":
                _, si, seed = op
                if not writable:
                    continue
                dt = np.int32 if si == 0 else np.float32
                mx = np.array([seed + 10]).astype(dt).tobytes()
                mn = np.array([-seed]).astype(dt).tobytes()
                S("range", p.call("i", "SDsetrange", V("s%d" % si), mx, mn), si, mx, mn)
                S("getrange", p.call("i", "SDgetrange", V("s%d" % si), Out(len(mx)), Out(len(mn))), si)
                check_object("sds%d" % si)
            elif k == "prange":
                # the netCDF convention: a valid_max/valid_min pair of attributes instead of valid_range
                _, si, seed = op
                if not writable:
                    continue
                nt = "int32" if si == 0 else "float32"
                dt = np.int32 if si == 0 else np.float32
                mx = np.array([seed + 20]).astype(dt).tobytes()
                mn = np.array([-seed - 3]).astype(dt).tobytes()
                obj = "sds%d" % si
                for name, data in (("valid_max", mx), ("valid_min", mn)):
                    S("set", call_set(p, obj, name, sm.NT[nt][0], 1, data), obj, name, nt, 1, data)
                    if name not in known_names[obj]:
                        known_names[obj].append(name)
                S("prange", None, si, mx, mn)
                S("getrange", p.call("i", "SDgetrange", V("s%d" % si), Out(len(mx)), Out(len(mn))), si)
                check_object(obj)
                labels.add("range_as_attribute_pair")
            elif k == "reopen":
                close_all()
                mode = op[1]
                open_all(mode != "ro")
                writable = mode != "ro"
                S("reopened", None)
                recheck_dims()
                if mode == "rw_add":
                    nadd += 1
                    S("nofail", p.call("i", "SDcreate", V("sd"), "extra%d" % nadd, 22, 1, i32s(2), bind="sx"),
                      "SDcreate extra")
                    S("ret0", p.call("i", "SDwritedata", V("sx"), i32s(0), None, i32s(2), bytes(4)), "SDwritedata")
                    S("ret0", p.call("i", "SDendaccess", V("sx")), "SDendaccess")
                    S("nofail", p.call("i", "Vattach", V("f"), -1, "w", bind="vx"), "Vattach extra")
                    S("ret0", p.call("i", "Vdetach", V("vx")), "Vdetach")
                    labels.add("reopen_add")
                for o in OBJS:
                    check_object(o)
            else:
                S("idtoref", p.call("i", "SDidtoref", V("s0"), bind="r0"), 0)
                S("reftoindex", p.call("i", "SDreftoindex", V("sd"), V("r0")), 0)
                S("idtoref", p.call("i", "SDidtoref", V("s1"), bind="r1"), 1)
                S("reftoindex", p.call("i", "SDreftoindex", V("sd"), V("r1")), 1)
                S("nametoindex", p.call("i", "SDnametoindex", V("sd"), "alpha"), 0)
                S("nametoindex", p.call("i", "SDnametoindex", V("sd"), "beta"), 1)
                S("nametoindex_missing", p.call("i", "SDnametoindex", V("sd"), "nosuch"))
                for di_, nm_ in ((0, "alpha"), (1, "beta")):
                    S("numvars", p.call("i", "SDgetnumvars_byname", V("sd"), nm_, Out(4)), di_)
                    S("nametoindices", p.call("i", "SDnametoindices", V("sd"), nm_, Out(8)), di_)
        close_all()
        open_all(False)
        S("reopened", None)
        recheck_dims()
        for o in OBJS:
            check_object(o)
        close_all()
        rr = run(p, cwd=d)
        # ------------------------------------------------------------------ sequential check
        model = {o: {} for o in OBJS}     # obj -> name -> (nt, cnt, bytes)
        index = {o: {} for o in OBJS}     # obj -> name -> first observed index
        cur = {}
        pre = {}
        sds_index = {}
        shared = False
        try:
            if rr.harness_error:
                raise Fail("harness error", detail=rr.harness_error)
            for role, ln, a in steps:
                if role == "reopened":
                    continue
                if role == "prange":
                    # SDgetrange prefers valid_range; the pair only counts while SDsetrange was never called
                    if not pre.get(("range_set", a[0])):
                        pre[("range", a[0])] = (a[1], a[2])
                    continue
                if role == "share":
                    # both ids now designate one dimension: one attribute set
                    model["dim1"] = model["dim0"]
                    index["dim1"] = index["dim0"]
                    shared = True
                    continue
                r = rr.res.get(ln)
                if r is None:
                    raise Fail("crash" if rr.crashed else "no result", detail=rr.sanitizer_summary(),
                               frames=rr.crash_frames(), call=p.lines[ln - 1][:100],
                               text=rr.stderr[-1500:] if rr.crashed else "")
                what = p.lines[ln - 1][:90]
                if role == "nofail":
                    if r.ret == -1:
                        raise Fail("%s failed" % a[0])
                elif role == "ret0":
                    if r.ret != 0:
                        raise Fail("%s failed" % a[0], ret=r.ret)
                elif role == "retn":
                    if r.ret != a[0]:
                        raise Fail("%s returned %s" % (a[1], r.ret))
                elif role == "sdidx":
                    if r.ret < 0:
                        raise Fail("SDnametoindex failed after reopen", name=a[0])
                elif role == "set":
                    obj, name, nt, cnt, data = a
                    old = model[obj].get(name)
                    # predefined attributes share the namespace: a user attribute with such a name interacts with
                    # the predefined setter; not generated (names are chosen not to collide)
                    if old is None:
                        if r.ret != 0:
                            raise Fail("setting a new attribute failed", obj=obj, name=name[:40], nt=nt, count=cnt)
                        model[obj][name] = (nt, cnt, data)
                        if len(model[obj]) >= 10:
                            labels.add("many_attrs")
                    else:
                        same_shape = (old[0] == nt and old[1] == cnt)
                        if r.ret == 0:
                            model[obj][name] = (nt, cnt, data)
                            labels.add("replace")
                        elif same_shape:
                            raise Fail("re-setting an attribute with the same type and count failed", obj=obj,
                                       name=name[:40])
                        else:
                            labels.add("refused_retype")
                elif role == "find":
                    obj, name = a
                    cur = dict(obj=obj, name=name, idx=r.ret)
                    if name not in model[obj]:
                        if r.ret != -1:
                            pass     # e.g. a refused first set cannot happen; predefined names are not generated
                        cur["skip"] = True
                        continue
                    cur["skip"] = False
                    if r.ret < 0:
                        raise Fail("attribute not found by name", obj=obj, name=name[:40])
                    first = index[obj].setdefault(name, r.ret)
                    if first != r.ret:
                        raise Fail("attribute index changed", obj=obj, name=name[:40], first=first, now=r.ret)
                elif role == "info":
                    if cur.get("skip"):
                        continue
                    obj, name = a
                    nt, cnt, data = model[obj][name]
                    gname = r.bufs[0]
                    gnt = struct.unpack("=i", r.bufs[1])[0]
                    gcnt = struct.unpack("=i", r.bufs[2])[0]
                    if r.ret != 0 or gname != name.encode() or (gnt & 0xff) != sm.NT[nt][0] or gcnt != cnt:
                        raise Fail("attribute info differs", obj=obj, name=name[:40], expected=[sm.NT[nt][0], cnt],
                                   observed=[str(gname)[:40], gnt, gcnt], ret=r.ret)
                elif role == "read":
                    if cur.get("skip"):
                        continue
                    obj, name = a
                    nt, cnt, data = model[obj][name]
                    if r.ret != 0 or r.bufs[0][:len(data)] != data:
                        raise Fail("attribute values differ", obj=obj, name=name[:40], nt=nt, count=cnt,
                                   expected=data[:16].hex(), observed=r.bufs[0][:16].hex(), ret=r.ret)
                    if any(b != 0xA5 for b in r.bufs[0][len(data):]):
                        raise Fail("attribute read wrote beyond its size", obj=obj, name=name[:40])
                elif role == "dimname":
                    if r.ret != 0:
                        raise Fail("SDsetdimname failed", dim=a[0], name=a[1])
                    pre[("dimname", a[0])] = a[1]
                elif role == "diminfo":
                    want = pre.get(("dimname", a[0]))
                    size = struct.unpack("=i", r.bufs[1])[0]
                    if r.ret != 0 or r.bufs[0] != want.encode() or size != 4:
                        raise Fail("SDdiminfo differs", expected=[want, 4], observed=[str(r.bufs[0]), size])
                elif role == "dimscale":
                    key = ("scale", 0 if shared else a[0])
                    if r.ret != 0:
                        if key in pre and pre[("scalent",) + key[1:]] != a[1]:
                            labels.add("refused_retype")     # type of an existing scale may not change
                            continue
                        raise Fail("SDsetdimscale failed")
                    pre[key] = a[2]
                    pre[("scalent",) + key[1:]] = a[1]
                elif role == "scalent":
                    key = ("scalent", 0 if shared else a[0])
                    if key in pre:
                        gnt = struct.unpack("=i", r.bufs[2])[0]
                        if r.ret != 0 or gnt != sm.NT[pre[key]][0]:
                            raise Fail("SDdiminfo reports another number type than the scale was last set with",
                                       expected=sm.NT[pre[key]][0], observed=gnt, ret=r.ret)
                elif role == "getscale":
                    if ("scale", 0 if shared else a[0]) not in pre:
                        continue
                    want = pre[("scale", 0 if shared else a[0])]
                    if r.ret != 0 or r.bufs[0][:len(want)] != want:
                        raise Fail("SDgetdimscale differs", dim=a[0])
                elif role == "dimstrs":
                    if r.ret != 0:
                        raise Fail("SDsetdimstrs failed")
                    pre[("dimstrs", 0 if shared else a[0])] = a[1]
                elif role == "getdimstrs":
                    want = [x.encode() for x in pre[("dimstrs", 0 if shared else a[0])]]
                    if r.ret != 0 or list(r.bufs[:3]) != want:
                        raise Fail("SDgetdimstrs differs", expected=[str(x) for x in want],
                                   observed=[str(x) for x in r.bufs[:3]])
                elif role == "datastrs":
                    if r.ret != 0:
                        raise Fail("SDsetdatastrs failed")
                    pre[("datastrs", a[0])] = a[1]
                elif role == "getdatastrs":
                    want = [x.encode() for x in pre[("datastrs", a[0])]]
                    if r.ret != 0 or list(r.bufs[:4]) != want:
                        raise Fail("SDgetdatastrs differs", expected=[str(x) for x in want],
                                   observed=[str(x) for x in r.bufs[:4]])
                elif role == "cal":
                    if r.ret != 0:
                        raise Fail("SDsetcal failed")
                    pre[("cal", a[0])] = a[1]
                elif role == "getcal":
                    want = pre[("cal", a[0])]
                    got = [struct.unpack("=d", b)[0] for b in r.bufs[:4]]
                    gnt = struct.unpack("=i", r.bufs[4])[0]
                    if r.ret != 0 or got != want or gnt != 22:
                        raise Fail("SDgetcal differs", expected=want, observed=got, nt=gnt)
                elif role == "range":
                    if r.ret != 0:
                        raise Fail("SDsetrange failed")
                    pre[("range", a[0])] = (a[1], a[2])
                    pre[("range_set", a[0])] = True
                elif role == "getrange":
                    want = pre[("range", a[0])]
                    if r.ret != 0 or (r.bufs[0], r.bufs[1]) != want:
                        raise Fail("SDgetrange differs", expected=[want[0].hex(), want[1].hex()],
                                   observed=[r.bufs[0].hex(), r.bufs[1].hex()])
                elif role == "idtoref":
                    if r.ret <= 0:
                        raise Fail("SDidtoref failed")
                elif role == "reftoindex":
                    sds_index[("ref", a[0])] = r.ret
                    if r.ret < 0:
                        raise Fail("SDreftoindex failed for an existing dataset")
                elif role == "nametoindex":
                    if r.ret < 0:
                        raise Fail("SDnametoindex failed for an existing dataset")
                    if ("ref", a[0]) in sds_index and sds_index[("ref", a[0])] != r.ret:
                        raise Fail("name->index and ref->index disagree", dataset=a[0],
                                   by_ref=sds_index[("ref", a[0])], by_name=r.ret)
                elif role == "numvars":
                    if r.ret != 0 or un_i32s(r.bufs[0])[0] != 1:
                        raise Fail("SDgetnumvars_byname does not report exactly one variable for a dataset name no "
                                   "dimension uses", ret=r.ret, observed=un_i32s(r.bufs[0])[0])
                elif role == "nametoindices":
                    got = un_i32s(r.bufs[0])
                    if r.ret != 0 or got[1] != 0 or (("ref", a[0]) in sds_index and sds_index[("ref", a[0])] != got[0]):
                        raise Fail("SDnametoindices disagrees with SDreftoindex / does not report a dataset", ret=r.ret,
                                   observed=list(got), by_ref=sds_index.get(("ref", a[0])))
                elif role == "nametoindex_missing":
                    if r.ret != -1:
                        raise Fail("SDnametoindex found a dataset that does not exist", observed=r.ret)
            if not rr.done:
                raise Fail("crash", detail=rr.sanitizer_summary(), frames=rr.crash_frames(), text=rr.stderr[-1500:])
        except Fail as f:
            info = f.info
            info["known_keys"] = sorted(known_keys)
            info["program"] = p.text()[:5000]
            return CaseResult(labels=labels, failure=info, sample=sample_of(case), excluded=excluded)
    return CaseResult(labels=labels, sample=sample_of(case), excluded=excluded)


def sample_of(case):
    return {"ops": [str(o)[:90] for o in case["ops"][:25]]}


def known_match(case, failure, entry):
    if not case.get("no_exclude") or entry["key"] not in failure.get("known_keys", []):
        return False
    if entry["key"] == "C10-dimscale-retype":
        return failure.get("kind", "").startswith("SDgetdimscale")
    if entry["key"] == "C10-gr-attr-recount":
        return failure.get("kind", "").startswith("attribute") and failure.get("obj") in ("grfile", "ri")
    return False


RULE += (" " + 'Also generated: the valid range stored as the valid_max/valid_min attribute pair (read through SDgetrange), re-setting a dimension scale with the other signedness of the same width (SDdiminfo must report the type last set), SDgetnumvars_byname/SDnametoindices.')
