"""C12 — the tag/ref directory is a faithful persistent map; new refs are never in use."""
import os, struct
from hypothesis import strategies as st
from h4verif.exe import Prog, V, Out, InOut, run, CaseDir, i32s, un_i32s
from h4verif.runner import CaseResult
from h4verif import h4fmt

PROPERTY = "C12"
LEVEL = "exploration"
NEED = ("h4x",)
RULE = ("histories of <=45 directory operations (Hputelement, empty descriptors, Hdupdd incl. onto existing "
        "keys, Hdeldd, HDreuse_tagref+rewrite, HLcreate special variants, Hcache toggles, Hsync, reopen, bulk "
        "Hdupdd up to 65535 refs) over ndds in {1..7,16,17,0}; after every mutator a full forward wildcard "
        "enumeration is compared with a dict model, plus generated Hfind/Hnumber/Hexist/Hlength/Hnewref/"
        "Htagnewref/HDcheck_tagref/Hgetelement observers, repeated after reopen, plus an independent DD-list "
        "parse of the closed file. Non-trivial = >=2 DD blocks, or delete followed by reopen, or cache toggled, "
        "or odd ndds with Hnumber, or >=60000 refs, or allocator wrap-around (maxref 65535).")
BUDGET = {"quick": {"shards": 8, "cases": 250}, "thorough": {"shards": 16, "cases": 2500}}
MIN_NT = {"quick": 300, "thorough": 3000}
ASSUMPTIONS = ["ASan+UBSan build of /repo working tree (shift-base disabled)",
               "tags with the special bit set are never created directly by the generator",
               "HDreuse_tagref only applied to non-special elements (documented precondition)"]

TAGS = [1000, 1001, 702, 0x8001, 40000, 65000]   # >= 0x8000: user tags without special variant (incl. far apart)
REFS = [1, 2, 3, 4, 5, 6, 7, 300, 65534, 65535]
WILD = 0
INTERNAL_TAGS = {h4fmt.DFTAG_VERSION, h4fmt.DFTAG_LINKED}
NT_LABELS = {"two_blocks", "delete_reopen", "cache_toggle", "odd_ndds_hnumber", "many_refs", "wrap"}


def nontrivial(labels):
    return bool(NT_LABELS & set(labels))


def pat(seed, n):
    return bytes(((seed * 7 + i * 13) & 0xff) for i in range(n))


# ------------------------------------------------------------------------------ generator
@st.composite
def strategy_(draw, tier):
    ndds = draw(st.sampled_from([0, 1, 3, 4, 5, 5, 6, 7, 7, 16, 17]))
    nops = draw(st.integers(3, 45))
    want_big = draw(st.integers(0, 99)) < (6 if tier == "quick" else 10)
    live = []            # approximate list of live keys, for biasing
    special = set()      # keys (approximately) stored as linked blocks
    ops = []
    big = False
    key = st.tuples(st.sampled_from(TAGS), st.sampled_from(REFS))

    def some_key():
        if live and draw(st.integers(0, 9)) < 7:
            return draw(st.sampled_from(live))
        return draw(key)

    for _ in range(nops):
        c = draw(st.integers(0, 99))
        if c < 22:
            t, r = some_key() if draw(st.booleans()) else draw(key)
            ops.append(["put", t, r, draw(st.integers(1, 40)), draw(st.integers(0, 255))])
            live.append((t, r))
        elif c < 28:
            t = draw(st.sampled_from(TAGS))
            ops.append(["putnew", t, draw(st.integers(1, 20)), draw(st.integers(0, 255)),
                        draw(st.sampled_from(["newref", "tagnewref"]))])
        elif c < 31:
            t, r = draw(key)
            ops.append(["empty", t, r])
            live.append((t, r))
        elif c < 41:
            nt, nr = draw(key) if draw(st.integers(0, 9)) < 8 else some_key()
            ot, orr = some_key()
            if (ot, orr) in special:
                continue
            ops.append(["dup", nt, nr, ot, orr])
            live.append((nt, nr))
        elif c < 53:
            t, r = some_key()
            ops.append(["del", t, r])
            while (t, r) in live:
                live.remove((t, r))
            special.discard((t, r))
        elif c < 57:
            t, r = some_key()
            if (t, r) in special:
                continue
            ops.append(["reuse", t, r, draw(st.integers(1, 60)), draw(st.integers(0, 255))])
        elif c < 62:
            t, r = draw(key)
            if t < 0x8000:
                ops.append(["link", t, r, draw(st.integers(1, 16)), draw(st.integers(1, 4)),
                            draw(st.integers(1, 50)), draw(st.integers(0, 255))])
                live.append((t, r))
                special.add((t, r))
        elif c < 66:
            ops.append(["cache", draw(st.integers(0, 1))])
        elif c < 69:
            ops.append(["sync"])
        elif c < 75:
            ops.append(["reopen"])
        elif c < 77 and want_big and not big and live:
            # bulk population towards the 16-bit limit, followed by allocator probes
            big = True
            t = draw(st.sampled_from(TAGS))
            hi = draw(st.sampled_from([65535, 65535, 65534, 65534, 65533, 3000]))
            lo = draw(st.sampled_from([1, 1, 2, 3]))
            st_, sr = draw(st.sampled_from(live))
            if (st_, sr) in special:
                continue
            ops.append(["bulkdup", t, lo, hi, st_, sr])
            for _k in range(draw(st.integers(0, 3))):
                z = draw(st.integers(0, 3))
                if z == 0:
                    ops.append(["tagnewref", t])
                elif z == 1:
                    ops.append(["putnew", t, draw(st.integers(1, 9)), draw(st.integers(0, 255)), "tagnewref"])
                elif z == 2:
                    ops.append(["del", t, draw(st.sampled_from([lo, hi, 65535, 65534, 777]))])
                else:
                    ops.append(["number", t])
        elif c < 82:
            ops.append(["number", draw(st.sampled_from(TAGS + [WILD]))])
        elif c < 86:
            t, r = some_key()
            form = draw(st.integers(0, 3))
            ops.append(["exist", t if form & 1 else WILD, r if form & 2 else WILD])
        elif c < 89:
            t, r = some_key()
            ops.append(["length", t, r])
        elif c < 93:
            t, r = some_key()
            form = draw(st.integers(0, 3))
            ops.append(["findall", t if form & 1 else WILD, r if form & 2 else WILD,
                        draw(st.sampled_from([1, 2]))])
        elif c < 95:
            ops.append(["newref"])
        elif c < 97:
            ops.append(["tagnewref", draw(st.sampled_from(TAGS))])
        elif c < 98:
            t, r = some_key()
            ops.append(["check", t, r])
        else:
            t, r = some_key()
            ops.append(["get", t, r])
    return {"ndds": ndds, "ops": ops}


def strategy(tier):
    return strategy_(tier)


# ------------------------------------------------------------------------------ model
class Entry:
    __slots__ = ("len", "store", "special", "valid")

    def __init__(self, ln, store, special=False):
        self.len, self.store, self.special = ln, store, special
        self.valid = True   # False: content unknown


class Model:
    def __init__(self):
        self.d = {}          # (basetag, ref) -> Entry
        self.cache = 1
        self.maxref_hi = False
        self.deleted_since_open = False

    def refs_under(self, tag):
        return {r for (t, r) in self.d if t == tag}

    def all_refs(self):
        return {r for (_t, r) in self.d}


class Skip(Exception):
    pass


class Fail(Exception):
    def __init__(self, kind, **kw):
        self.info = dict(kind=kind, **kw)


# ------------------------------------------------------------------------------ program emission
def emit(case, path):
    """Translate a case into an h4x program; returns (prog, steps) where steps are
    (opindex, role, lineno) tuples consumed by check()."""
    p = Prog()
    steps = []
    ndds = case["ndds"]
    ln = p.call("i", "Hopen", path, 4 | 2 | 1, ndds, bind="f")
    steps.append((-1, "open", ln))
    approx = 0
    big = False

    def digest(i):
        if not big:
            ln = p.call("i", "hx_find_all", V("f"), 0, 0, 1, Out(16 * 400), 400, 100000)
            steps.append((i, "digest", ln))

    def pre_enum(i):
        mx = 70000 if big else 400
        ln = p.call("i", "hx_find_all", V("f"), 0, 0, 1, Out(16 * mx), mx, 200000)
        steps.append((i, "pre_enum", ln))

    for i, op in enumerate(case["ops"]):
        k = op[0]
        if k == "put":
            _, t, r, n, s = op
            ln = p.call("i", "Hputelement", V("f"), t, r, pat(s, n), n)
            steps.append((i, "put", ln))
            digest(i)
        elif k == "putnew":
            _, t, n, s, how = op
            if how == "newref":
                pre_enum(i)
                ln = p.call("u", "Hnewref", V("f"), bind="nr")
            else:
                ln = p.call("u", "Htagnewref", V("f"), t, bind="nr")
            steps.append((i, "alloc", ln))
            ln = p.call("i", "hx_put_if_ref", V("f"), t, V("nr"), pat(s, n), n)
            steps.append((i, "putalloc", ln))
            digest(i)
        elif k == "empty":
            _, t, r = op
            ln = p.call("i", "Hstartwrite", V("f"), t, r, 0, bind="a")
            steps.append((i, "empty_start", ln))
            ln = p.call("i", "Hendaccess", V("a"))
            steps.append((i, "empty_end", ln))
            digest(i)
        elif k == "dup":
            _, nt, nr, ot, orr = op
            ln = p.call("i", "Hdupdd", V("f"), nt, nr, ot, orr)
            steps.append((i, "dup", ln))
            digest(i)
        elif k == "del":
            _, t, r = op
            ln = p.call("i", "Hdeldd", V("f"), t, r)
            steps.append((i, "del", ln))
            digest(i)
        elif k == "reuse":
            _, t, r, n, s = op
            ln = p.call("i", "HDreuse_tagref", V("f"), t, r)
            steps.append((i, "reuse", ln))
            ln = p.call("i", "Hputelement", V("f"), t, r, pat(s, n), n)
            steps.append((i, "reuse_put", ln))
            digest(i)
        elif k == "link":
            _, t, r, bl, nb, n, s = op
            ln = p.call("i", "HLcreate", V("f"), t, r, bl, nb, bind="a")
            steps.append((i, "link_create", ln))
            ln = p.call("i", "Hwrite", V("a"), n, pat(s, n))
            steps.append((i, "link_write", ln))
            ln = p.call("i", "Hendaccess", V("a"))
            steps.append((i, "link_end", ln))
            digest(i)
        elif k == "cache":
            ln = p.call("i", "Hcache", V("f"), op[1])
            steps.append((i, "cache", ln))
        elif k == "sync":
            ln = p.call("i", "Hsync", V("f"))
            steps.append((i, "sync", ln))
        elif k == "reopen":
            ln = p.call("i", "Hclose", V("f"))
            steps.append((i, "close", ln))
            ln = p.call("i", "Hopen", path, 3, 0, bind="f")
            steps.append((i, "reopen", ln))
            if not big:
                digest(i)
        elif k == "bulkdup":
            _, t, lo, hi, ot, orr = op
            big = True
            p.raw("!repeat %d" % (hi - lo + 1))
            ln = len(p.lines)
            p.call("i", "Hdupdd", V("f"), t, V("i", lo), ot, orr)
            p.raw("!end")
            steps.append((i, "bulkdup", ln))
        elif k == "number":
            ln = p.call("i", "Hnumber", V("f"), op[1])
            steps.append((i, "number", ln))
        elif k == "exist":
            ln = p.call("i", "Hexist", V("f"), op[1], op[2])
            steps.append((i, "exist", ln))
        elif k == "length":
            ln = p.call("i", "Hlength", V("f"), op[1], op[2])
            steps.append((i, "length", ln))
        elif k == "findall":
            mx = 70000 if big else 400
            if op[1] != WILD and op[2] != WILD:
                # fully specific search: only the first match from a fresh start is defined
                ln = p.call("i", "Hfind", V("f"), op[1], op[2], InOut(b"\0\0"), InOut(b"\0\0"), Out(4), Out(4),
                            op[3])
                steps.append((i, "find1", ln))
            else:
                ln = p.call("i", "hx_find_all", V("f"), op[1], op[2], op[3], Out(16 * mx), mx, 200000)
                steps.append((i, "findall", ln))
                if True:
                    # the same enumeration through an access element (Hstartread + Hnextread)
                    ln = p.call("i", "hx_nextread_all", V("f"), op[1], op[2], Out(16 * mx), mx, 200000)
                    steps.append((i, "nextread", ln))
        elif k == "newref":
            pre_enum(i)
            ln = p.call("u", "Hnewref", V("f"))
            steps.append((i, "newref", ln))
        elif k == "tagnewref":
            ln = p.call("u", "Htagnewref", V("f"), op[1])
            steps.append((i, "tagnewref", ln))
        elif k == "check":
            ln = p.call("i", "HDcheck_tagref", V("f"), op[1], op[2])
            steps.append((i, "check", ln))
        elif k == "get":
            ln = p.call("i", "Hgetelement", V("f"), op[1], op[2], Out(4096))
            steps.append((i, "get", ln))
    # epilogue: close, reopen read-only, full observers
    ln = p.call("i", "Hclose", V("f"))
    steps.append((len(case["ops"]), "close", ln))
    ln = p.call("i", "Hopen", path, 1, 0, bind="f")
    steps.append((len(case["ops"]), "reopen", ln))
    mx = 70000 if big else 400
    for d in (1, 2):
        ln = p.call("i", "hx_find_all", V("f"), 0, 0, d, Out(16 * mx), mx, 200000)
        steps.append((len(case["ops"]), "final_findall%d" % d, ln))
    for t in TAGS:
        ln = p.call("i", "Hnumber", V("f"), t)
        steps.append((len(case["ops"]), "final_number:%d" % t, ln))
    ln = p.call("i", "Hclose", V("f"))
    steps.append((len(case["ops"]), "final_close", ln))
    return p, steps


# ------------------------------------------------------------------------------ checking
def entries_from(buf, n):
    v = un_i32s(buf[:16 * n])
    return [(v[4 * i], v[4 * i + 1], v[4 * i + 2], v[4 * i + 3]) for i in range(n)]


def check_enum(m, ents, n_reported, stag, sref, what):
    """ents: enumerated (tag, ref, off, len); must hit each matching live user entry exactly once."""
    if n_reported == -2:
        raise Fail("enumeration does not terminate", op=what)
    if n_reported != len(ents):
        raise Fail("harness: enumeration truncated", op=what, n=n_reported)
    seen = {}
    for (tag, ref, off, ln) in ents:
        k = (tag, ref)
        if k in seen:
            raise Fail("enumeration visits an entry twice", op=what, entry=[tag, ref])
        seen[k] = (off, ln)
    user = {}
    for (tag, ref), (off, ln) in seen.items():
        bt = h4fmt.base_tag(tag)
        if bt in TAGS:
            if (bt, ref) in user:
                raise Fail("plain and special variant of one tag/ref both enumerated", op=what,
                           entry=[bt, ref])
            user[(bt, ref)] = (tag, off, ln)
        elif bt not in INTERNAL_TAGS:
            raise Fail("enumeration reports an object nobody created", op=what, entry=[tag, ref])
    want = {k for k in m.d if (stag == WILD or k[0] == stag) and (sref == WILD or k[1] == sref)}
    got = set(user)
    if stag != WILD or sref != WILD:
        # a specific search may only return matching entries
        for (tag, ref) in seen:
            if (stag != WILD and h4fmt.base_tag(tag) != stag) or (sref != WILD and ref != sref):
                raise Fail("search returned a non-matching entry", op=what, entry=[tag, ref])
    if got != want:
        raise Fail("directory differs from model", op=what, missing=sorted(want - got)[:8],
                   unexpected=sorted(got - want)[:8], model_size=len(want), got_size=len(got))
    for k in want:
        e = m.d[k]
        tag, off, ln = user[k]
        if e.special is None:
            e.special = h4fmt.is_special(tag)
        if e.special != h4fmt.is_special(tag):
            raise Fail("special flag of entry differs from model", op=what, entry=list(k))
        if not e.special and e.valid and ln != e.len:
            raise Fail("directory length differs from model", op=what, entry=list(k), expected=e.len,
                       observed=ln)
    return seen


def check(case, rr, steps, path):
    m = Model()
    labels = set()
    ndds = case["ndds"]
    eff_ndds = 16 if ndds == 0 else max(4, ndds)
    ops = case["ops"]
    alloc_ref = None
    last_enum = None
    pending_skip = False
    nlive_internal = 1

    def res(ln):
        r = rr.res.get(ln)
        if r is None:
            raise Fail("crash" if rr.crashed else "no result", detail=rr.sanitizer_summary(),
                       frames=rr.crash_frames(), line=ln, text=(rr.stderr[-1500:] if rr.crashed else ""))
        return r

    for (i, role, ln) in steps:
        op = ops[i] if 0 <= i < len(ops) else None
        what = "%s#%d:%s" % (role, i, op)
        r = res(ln)
        if role in MUTATORS:
            last_enum = None
        if role in ("open", "reopen"):
            if r.ret == -1:
                raise Fail("Hopen failed", op=what)
            if role == "reopen":
                m.cache = 1   # default
                if m.deleted_since_open:
                    labels.add("delete_reopen")
                m.deleted_since_open = False
                labels.add("reopen")
        elif role in ("close", "final_close"):
            if r.ret != 0:
                raise Fail("Hclose failed", op=what)
        elif role == "put" or role == "putalloc" or role == "reuse_put":
            if role == "put":
                _, t, rf, n, s = op
            elif role == "putalloc":
                _, t, n, s, _how = op
                rf = alloc_ref
                if rf is None:
                    continue
            else:
                _, t, rf, n, s = op
                if pending_skip:
                    pending_skip = False
                    # reuse was refused (missing key): the put then simply creates/overwrites
            if rf == 0:
                continue   # allocator legitimately returned 0 (no free ref): the put was skipped
            data = pat(s, n)
            e = m.d.get((t, rf))
            if e is not None and e.len == -1:
                if r.ret != n:
                    raise Fail("Hputelement after HDreuse_tagref failed", op=what, ret=r.ret)
                e.len, e.store = n, bytearray(data)
                continue
            if e is not None and e.valid and e.special is False and n > e.len:
                # Hwrite documents writing past the end of an existing fixed-length element as an
                # error (hfile.c: "it is an error to attempt write past the end of the elt"): the
                # put must be refused and (frame rule) change nothing.
                if r.ret != -1:
                    raise Fail("over-long rewrite of fixed-length element accepted", op=what, ret=r.ret)
                labels.add("refused_overlong")
                continue
            if r.ret != n:
                raise Fail("Hputelement failed", op=what, ret=r.ret)
            if e is None:
                m.d[(t, rf)] = Entry(n, bytearray(data))
            elif not e.valid:
                pass
            elif e.special:
                # linked element: overwrite prefix / grow
                if n > e.len:
                    e.store.extend(b"\0" * (n - e.len))
                    e.len = n
                e.store[0:n] = data
            elif n <= e.len:
                e.store[0:n] = data
            else:
                raise Fail("harness: unreachable")
            if rf == 65535:
                m.maxref_hi = True
        elif role == "alloc":
            how = op[4]
            t = op[1]
            alloc_ref = check_alloc(m, r.ret, how, t, what, last_enum, labels)
        elif role == "newref":
            check_alloc(m, r.ret, "newref", None, what, last_enum, labels)
        elif role == "tagnewref":
            check_alloc(m, r.ret, "tagnewref", op[1], what, last_enum, labels)
        elif role == "empty_start":
            _, t, rf = op
            if r.ret == -1:
                raise Fail("Hstartwrite(len 0) failed", op=what)
            if (t, rf) not in m.d:
                m.d[(t, rf)] = Entry(0, bytearray())
            if rf == 65535:
                m.maxref_hi = True
        elif role == "empty_end":
            if r.ret != 0:
                raise Fail("Hendaccess failed", op=what)
        elif role == "dup":
            _, nt, nr, ot, orr = op
            src = m.d.get((ot, orr))
            if src is None or (nt, nr) in m.d:
                if r.ret != -1:
                    raise Fail("Hdupdd succeeded although %s" % ("source missing" if src is None else
                                                                  "target exists"), op=what)
            else:
                if src.special is not False:
                    # Hdupdd of a special element yields a plain DD pointing at the special header;
                    # what that alias means is not defined by the interface: outside the domain
                    raise Skip("dup of special element")
                if r.ret != 0:
                    raise Fail("Hdupdd failed", op=what)
                ne = Entry(src.len, src.store, src.special)
                ne.valid = src.valid
                m.d[(nt, nr)] = ne
        elif role == "del":
            _, t, rf = op
            if (t, rf) in m.d:
                if r.ret != 0:
                    raise Fail("Hdeldd failed on live entry", op=what)
                del m.d[(t, rf)]
                m.deleted_since_open = True
                labels.add("delete")
            elif r.ret != -1:
                raise Fail("Hdeldd succeeded on missing entry", op=what)
        elif role == "reuse":
            _, t, rf, n, s = op
            e = m.d.get((t, rf))
            if e is None:
                if r.ret != -1:
                    raise Fail("HDreuse_tagref succeeded on missing entry", op=what)
                pending_skip = True
            else:
                if e.special is not False:
                    raise Skip("reuse on special element")
                if r.ret != 0:
                    raise Fail("HDreuse_tagref failed", op=what)
                # the descriptor is kept, data will be replaced by the following put
                ne = Entry(-1, bytearray())     # offset/length invalid: behaves as a new element
                m.d[(t, rf)] = ne
                labels.add("reuse")
        elif role == "link_create":
            _, t, rf, bl, nb, n, s = op
            e = m.d.get((t, rf))
            m._link_ok = r.ret != -1
            if e is None:
                if r.ret == -1:
                    raise Fail("HLcreate failed for new element", op=what)
                m.d[(t, rf)] = Entry(0, bytearray(), special=True)
            else:
                if e.special is not False:
                    if e.special is True and r.ret != -1:
                        raise Fail("HLcreate on a linked-block element succeeded", op=what)
                    if e.special is None:
                        raise Skip("link on maybe-special")
                elif r.ret == -1:
                    # promoting an existing plain element: allowed to be refused only if empty
                    if e.len > 0:
                        raise Fail("HLcreate failed to promote existing element", op=what)
                else:
                    if any(o is not e and o.store is e.store for o in m.d.values()):
                        raise Skip("link on aliased element")
                    e.special = True
            if rf == 65535:
                m.maxref_hi = True
        elif role == "link_write":
            _, t, rf, bl, nb, n, s = op
            if not m._link_ok:
                continue
            if r.ret != n:
                raise Fail("Hwrite to linked element failed", op=what, ret=r.ret)
            e = m.d[(t, rf)]
            data = pat(s, n)
            if n > e.len:
                e.store.extend(b"\0" * (n - e.len))
                e.len = n
            e.store[0:n] = data
            labels.add("special_variant")
        elif role == "link_end":
            if m._link_ok and r.ret != 0:
                raise Fail("Hendaccess failed", op=what)
        elif role == "cache":
            if r.ret != 0:
                raise Fail("Hcache failed", op=what)
            if m.cache != op[1]:
                labels.add("cache_toggle")
            m.cache = op[1]
        elif role == "sync":
            if r.ret != 0:
                raise Fail("Hsync failed", op=what)
        elif role == "bulkdup":
            _, t, lo, hi, ot, orr = op
            src = m.d.get((ot, orr))
            d = r.ret if r.kind == "P" else None
            if d is None:
                raise Fail("harness: no bulk summary", op=what)
            expect_fail = 0
            if src is not None and src.special is not False:
                raise Skip("dup of special element")
            if src is None:
                expect_fail = hi - lo + 1
            else:
                for rf in range(lo, hi + 1):
                    if (t, rf) in m.d:
                        expect_fail += 1
                    else:
                        ne = Entry(src.len, src.store, src.special)
                        ne.valid = src.valid
                        m.d[(t, rf)] = ne
            if d["nfail"] != expect_fail:
                raise Fail("bulk Hdupdd: number of refusals differs", op=what, expected=expect_fail,
                           observed=d["nfail"])
            if len(m.d) >= 60000:
                labels.add("many_refs")
        elif role == "number":
            t = op[1]
            if t == WILD:
                want_min = len(m.d)
                if r.ret < want_min:
                    raise Fail("Hnumber(wildcard) below number of live user objects", op=what,
                               expected_min=want_min, observed=r.ret)
                if last_enum is not None and not_stale(m, last_enum) and r.ret != len(last_enum[1]):
                    raise Fail("Hnumber(wildcard) differs from enumeration", op=what, observed=r.ret,
                               enumerated=len(last_enum[1]))
            else:
                want = len(m.refs_under(t))
                if r.ret != want:
                    raise Fail("Hnumber differs from model", op=what, expected=want, observed=r.ret)
            if eff_ndds % 2 == 1:
                labels.add("odd_ndds_hnumber")
        elif role.startswith("final_number"):
            t = int(role.split(":")[1])
            want = len(m.refs_under(t))
            if r.ret != want:
                raise Fail("Hnumber after reopen differs from model", op=what, expected=want, observed=r.ret)
            if eff_ndds % 2 == 1:
                labels.add("odd_ndds_hnumber")
        elif role == "exist":
            t, rf = op[1], op[2]
            want = any((t == WILD or k[0] == t) and (rf == WILD or k[1] == rf) for k in m.d)
            if t == WILD and rf == WILD:
                want = True   # version tag always present
            if t == WILD and not want:
                continue      # an internal object may carry that ref
            if (r.ret == 0) != want:
                raise Fail("Hexist differs from model", op=what, expected=want, observed=r.ret)
        elif role == "length":
            t, rf = op[1], op[2]
            e = m.d.get((t, rf))
            if e is None:
                if r.ret != -1:
                    raise Fail("Hlength succeeded for missing entry", op=what, observed=r.ret)
            elif e.valid and r.ret != e.len:
                raise Fail("Hlength differs from model", op=what, expected=e.len, observed=r.ret)
        elif role == "check":
            t, rf = op[1], op[2]
            want = 1 if (t, rf) in m.d else 0
            if r.ret != want:
                raise Fail("HDcheck_tagref differs from model", op=what, expected=want, observed=r.ret)
        elif role == "get":
            t, rf = op[1], op[2]
            e = m.d.get((t, rf))
            if e is None:
                if r.ret != -1:
                    raise Fail("Hgetelement succeeded for missing entry", op=what)
            elif e.valid and e.len > 0:
                if r.ret != e.len:
                    raise Fail("Hgetelement length differs", op=what, expected=e.len, observed=r.ret)
                if r.bufs[0][:e.len] != bytes(e.store[:e.len]):
                    raise Fail("Hgetelement data differs from model", op=what,
                               expected=bytes(e.store[:e.len]).hex()[:80], observed=r.bufs[0][:e.len].hex()[:80])
        elif role == "find1":
            t, rf = op[1], op[2]
            e = m.d.get((t, rf))
            if e is None:
                if r.ret != -1:
                    raise Fail("Hfind found a missing entry", op=what)
            else:
                if r.ret != 0:
                    raise Fail("Hfind did not find a live entry", op=what)
                ft = struct.unpack("=H", r.bufs[0])[0]
                fr = struct.unpack("=H", r.bufs[1])[0]
                fl = struct.unpack("=i", r.bufs[3])[0]
                if h4fmt.base_tag(ft) != t or fr != rf:
                    raise Fail("Hfind returned another entry", op=what, got=[ft, fr])
                if e.valid and e.special is False and e.len >= 0 and fl != e.len:
                    raise Fail("Hfind length differs from model", op=what, expected=e.len, observed=fl)
        elif role == "nextread":
            stag, sref = op[1], op[2]
            n = r.ret
            if n == -2:
                raise Fail("Hnextread enumeration does not terminate", op=what)
            ents = entries_from(r.bufs[0], max(0, min(n, len(r.bufs[0]) // 16)))
            seen_nr = set()
            for (tag, ref, off, ln_) in ents:
                bt = h4fmt.base_tag(tag)
                if (bt, ref) in seen_nr:
                    raise Fail("Hnextread visits an element twice", op=what, entry=[bt, ref])
                seen_nr.add((bt, ref))
                if (stag != WILD and bt != stag) or (sref != WILD and ref != sref):
                    raise Fail("Hnextread returned a non-matching element", op=what, entry=[tag, ref])
                if bt in TAGS and (bt, ref) not in m.d:
                    raise Fail("Hnextread reports an object nobody created", op=what, entry=[tag, ref])
            must = {k for k, e in m.d.items() if (stag == WILD or k[0] == stag) and (sref == WILD or k[1] == sref)
                    and e.valid and not e.special and e.len > 0}
            if not must <= seen_nr:
                raise Fail("Hstartread/Hnextread enumeration misses live elements", op=what,
                           missing=sorted(must - seen_nr)[:8], visited=len(seen_nr))
            labels.add("nextread_enum")
        elif role in ("digest", "findall", "final_findall1", "final_findall2", "pre_enum"):
            if role == "findall":
                stag, sref = op[1], op[2]
            else:
                stag, sref = WILD, WILD
            n = r.ret
            ents = entries_from(r.bufs[0], max(0, min(n, len(r.bufs[0]) // 16)))
            seen = check_enum(m, ents, n, stag, sref, what)
            if stag == WILD and sref == WILD:
                last_enum = (snapshot(m), seen)
                nblocks_needed = (len(seen) + eff_ndds - 1) // eff_ndds
                if nblocks_needed >= 2:
                    labels.add("two_blocks")
    if m.maxref_hi:
        labels.add("maxref_65535")
    return labels, m


MUTATORS = {"put", "putalloc", "reuse_put", "empty_start", "dup", "del", "reuse", "link_create", "link_write",
            "link_end", "bulkdup", "reopen", "close"}


def snapshot(m):
    return 0


def not_stale(m, last_enum):
    return True


def check_alloc(m, ret, how, tag, what, last_enum, labels):
    """Validate a newly issued ref. Returns the ref (or None when 0)."""
    if how == "newref":
        used = m.all_refs()
        if last_enum is None:
            raise Fail("harness: no enumeration before Hnewref", op=what)
        internal = {ref for (t, ref) in last_enum[1] if h4fmt.base_tag(t) not in TAGS}
        if ret == 0:
            if len(used | internal) < 65535:
                raise Fail("Hnewref returned 0 although a reference is free", op=what)
            return 0
        if ret in used:
            raise Fail("Hnewref returned a reference that is in use", op=what, ref=ret,
                       under=[t for (t, r) in m.d if r == ret][:4])
        if ret in internal:
            raise Fail("Hnewref returned a reference in use by an internal object", op=what, ref=ret)
    else:
        used = m.refs_under(tag)
        if ret == 0:
            if len(used) < 65535:
                raise Fail("Htagnewref returned 0 although a reference is free for the tag", op=what,
                           live_refs=len(used))
            return 0
        if ret in used:
            raise Fail("Htagnewref returned a reference in use for the tag", op=what, ref=ret)
    if m.maxref_hi or len(used) >= 60000:
        labels.add("wrap")
    return ret


def verify_file(m, path, labels):
    """Independent parse of the closed file: DD list must equal the model."""
    f = h4fmt.parse_file(path)
    if f.violations:
        raise Fail("closed file is not well-formed", violations=f.violations[:6])
    got = {}
    for dd in f.dds:
        bt = h4fmt.base_tag(dd.tag)
        if bt in TAGS:
            got[(bt, dd.ref)] = dd
        elif bt not in INTERNAL_TAGS:
            raise Fail("file contains an object nobody created", entry=[dd.tag, dd.ref])
    if set(got) != set(m.d):
        raise Fail("on-disk directory differs from model", missing=sorted(set(m.d) - set(got))[:8],
                   unexpected=sorted(set(got) - set(m.d))[:8])
    for k, e in m.d.items():
        dd = got[k]
        if e.valid and e.special is False and dd.len != e.len and not (e.len == 0 and dd.len <= 0):
            raise Fail("on-disk length differs from model", entry=list(k), expected=e.len, observed=dd.len)
    if len(f.blocks) >= 2:
        labels.add("two_blocks")


def sample_of(case):
    return {"ndds": case["ndds"], "ops": [" ".join(str(x) for x in op) for op in case["ops"][:30]]}


def run_case(case):
    with CaseDir() as d:
        path = os.path.join(d, "a.hdf")
        prog, steps = emit(case, path)
        rr = run(prog, cwd=d)
        labels = set()
        try:
            if rr.harness_error:
                raise Fail("harness error", detail=rr.harness_error)
            labels, m = check(case, rr, steps, path)
            if not rr.done:
                raise Fail("crash", detail=rr.sanitizer_summary(), frames=rr.crash_frames(),
                           text=rr.stderr[-1500:])
            verify_file(m, path, labels)
        except Skip as s:
            return CaseResult(labels={"domain_skip"}, sample=None)
        except Fail as f:
            info = f.info
            info["program"] = prog.text()[:6000]
            return CaseResult(labels=labels, failure=info, sample=sample_of(case))
        return CaseResult(labels=labels, sample=sample_of(case))


def known_match(case, failure, entry):
    return False
