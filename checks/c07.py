"""C07 — Vdata tables return exactly the records written, for any schema and access."""
import os, struct
import numpy as np
from hypothesis import strategies as st
from h4verif.exe import Prog, V, Out, OutS, InOut, run, CaseDir, i32s, un_i32s
from h4verif.runner import CaseResult
from h4verif import sdmodel as sm

PROPERTY = "C07"
LEVEL = "exploration"
NEED = ("h4x",)
RULE = ("schemas of 1..7 uniquely named fields (one schema in four with names that are prefixes of one another) over all 10 number types with orders 1..5 (one regime with an order "
        "up to 300 / record sizes up to several KB), optional VSsetblocksize/VSsetnumblocks, optional name/class; "
        "histories of VSwrite (FULL or NO_INTERLACE user buffers, 1..60 records or bursts crossing the 1 MB transfer "
        "buffer / linked-block growth), VSseek, overwrite, append, VSread of any field subset/permutation in either "
        "interlace, VSdetach/VSattach r|w, Vend/Hclose/reopen, VSinquire/VSelts/VSsizeof/VSgetinterlace/VSfexist/VSfindex/VFnfields/VFfield*, "
        "VSfpack pack->unpack; numpy structured-table model. Non-trivial = >=2 fields of different sizes and "
        "(subset/permuted read, or NO_INTERLACE buffer, or overwrite after seek, or append after reopen).")
BUDGET = {"quick": {"shards": 8, "cases": 250}, "thorough": {"shards": 16, "cases": 3000}}
MIN_NT = {"quick": 400, "thorough": 6000}
ASSUMPTIONS = ["a Vdata stored with NO_INTERLACE (one case in six) is written by one call and read as a whole "
               "(the storage layout depends on the record count)", "field names unique",
               "VSsetfields for writing is issued once, on the empty vdata",
               "seeks stay within [0, nrecs]; reads stay within the stored records"]
NT_LABELS = {"subset_read", "nointerlace", "overwrite", "append_after_reopen"}
FULL, NOI = 0, 1


def nontrivial(labels):
    return "multi_size_fields" in labels and bool(NT_LABELS & set(labels))


class Fail(Exception):
    def __init__(self, kind, **kw):
        self.info = dict(kind=kind, **kw)


@st.composite
def strategy_(draw, tier):
    nf = draw(st.integers(1, 7))
    wide = draw(st.integers(0, 19)) == 0
    fields = []
    for i in range(nf):
        nt = draw(st.sampled_from(sorted(sm.NT)))
        order = draw(st.integers(1, 5))
        if wide and i == 0:
            order = draw(st.sampled_from([100, 300]))
        fields.append(["f%d_%s" % (i, nt[:2]), nt, order])
    if draw(st.integers(0, 3)) == 0 and nf >= 2:
        # names related by prefix / differing in case or in the last character only, longer name first
        pool = draw(st.permutations(["temp_max", "temp", "te", "idx", "id", "Temp", "temp_min"]))
        for i in range(nf):
            fields[i][0] = pool[i]
    ops = []
    nrec = 0
    for _ in range(draw(st.integers(2, 14))):
        c = draw(st.integers(0, 99))
        if c < 35:
            n = draw(st.integers(1, 60))
            if draw(st.integers(0, 39)) == 0 and not wide:
                n = draw(st.sampled_from([3000, 20000]))
            ops.append(["write", n, draw(st.sampled_from([FULL, FULL, NOI])), draw(st.integers(0, 999))])
        elif c < 50:
            ops.append(["seek", draw(st.integers(0, 80))])
        elif c < 80:
            k = draw(st.integers(1, nf))
            sub = draw(st.permutations(list(range(nf))))[:k]
            ops.append(["read", draw(st.integers(1, 70)), list(sub), draw(st.sampled_from([FULL, FULL, NOI]))])
        elif c < 87:
            ops.append(["reattach", draw(st.sampled_from(["r", "w", "w"]))])
        elif c < 92:
            ops.append(["reopen", draw(st.sampled_from(["r", "w", "w"]))])
        elif c < 94:
            ops.append(["inquire"])
        elif c < 98:
            # class / name edits of the (possibly already stored) table, of lengths around the current ones
            if draw(st.booleans()):
                # the typical later edit: re-attach the stored table, change its class/name, append
                ops.append(["reattach", "w"])
            ops.append([draw(st.sampled_from(["setclass", "setclass", "setname"])),
                        draw(st.sampled_from(["", "c", "raw", "tbl2", "calibrated", "temperature_table",
                                              "a class name that is longer than any of the table names"]))])
            if draw(st.booleans()):
                ops.append(["write", draw(st.integers(1, 8)), FULL, draw(st.integers(0, 999))])
        else:
            ops.append(["fpack", draw(st.integers(1, 5)), draw(st.integers(0, 99))])
    blocks = None
    if draw(st.integers(0, 9)) < 3:
        blocks = [draw(st.sampled_from([16, 64, 512, 4096])), draw(st.integers(1, 5))]
    return {"fields": fields, "ops": ops, "blocks": blocks, "name": draw(st.sampled_from([None, "tbl", "a b"])),
            "file_il": 1 if draw(st.integers(0, 5)) == 0 else 0}


def strategy(tier):
    return strategy_(tier)


def field_values(nt, order, seed, fi, n, base):
    dt = sm.NT[nt][1]
    rs = np.random.RandomState((seed * 131 + fi * 17 + base) % (2 ** 31))
    if nt.startswith("float"):
        return (rs.randint(-10 ** 6, 10 ** 6, size=(n, order)) / 8.0).astype(dt)
    info = np.iinfo(dt)
    return rs.randint(int(info.min), int(info.max) + 1, size=(n, order), dtype=np.int64).astype(dt)


def pack(cols, interlace):
    """cols: list of arrays (n, order) in list order -> bytes of the user buffer"""
    n = cols[0].shape[0]
    if interlace == NOI:
        return b"".join(np.ascontiguousarray(c).tobytes() for c in cols)
    recs = [np.ascontiguousarray(c).view(np.uint8).reshape(n, -1) for c in cols]
    return np.ascontiguousarray(np.concatenate(recs, axis=1)).tobytes()


def unpack(buf, specs, n, interlace):
    """specs: list of (dtype, order) -> list of arrays (n, order)"""
    out = []
    if interlace == NOI:
        pos = 0
        for dt, order in specs:
            sz = np.dtype(dt).itemsize * order * n
            out.append(np.frombuffer(buf[pos:pos + sz], dtype=dt).reshape(n, order))
            pos += sz
        return out
    rec = sum(np.dtype(dt).itemsize * order for dt, order in specs)
    a = np.frombuffer(buf[:rec * n], dtype=np.uint8).reshape(n, rec)
    pos = 0
    for dt, order in specs:
        sz = np.dtype(dt).itemsize * order
        out.append(np.ascontiguousarray(a[:, pos:pos + sz]).view(dt).reshape(n, order))
        pos += sz
    return out


def run_case(case):
    labels = set()
    fields = case["fields"]
    nf = len(fields)
    dts = [sm.NT[f[1]][1] for f in fields]
    sizes = [np.dtype(dts[i]).itemsize * fields[i][2] for i in range(nf)]
    if len(set(sizes)) >= 2:
        labels.add("multi_size_fields")
    recsize = sum(sizes)
    allnames = ",".join(f[0] for f in fields)
    table = [np.zeros((0, f[2]), dtype=dts[i]) for i, f in enumerate(fields)]
    with CaseDir() as d:
        path = os.path.join(d, "v.hdf")
        p = Prog()
        checks = []
        p.call("i", "Hopen", path, 7, 0, bind="f")
        checks.append((p.call("i", "Vinitialize", V("f")), "ret0", "Vstart"))
        checks.append((p.call("i", "VSattach", V("f"), -1, "w", bind="vs"), "nofail", "VSattach new"))
        for f in fields:
            checks.append((p.call("i", "VSfdefine", V("vs"), f[0], sm.NT[f[1]][0], f[2]), "ret0", "VSfdefine %s" % f))
        if case["name"]:
            checks.append((p.call("i", "VSsetname", V("vs"), case["name"]), "ret0", "VSsetname"))
        checks.append((p.call("i", "VSsetfields", V("vs"), allnames), "ret0", "VSsetfields(all)"))
        file_il = case.get("file_il", 0)
        if file_il:
            # field-after-field storage: all records are written by one call and read back as a whole
            checks.append((p.call("i", "VSsetinterlace", V("vs"), NOI), "ret0", "VSsetinterlace"))
            labels.add("file_nointerlace")
        if case["blocks"]:
            checks.append((p.call("i", "VSsetblocksize", V("vs"), case["blocks"][0]), "ret0", "VSsetblocksize"))
            checks.append((p.call("i", "VSsetnumblocks", V("vs"), case["blocks"][1]), "ret0", "VSsetnumblocks"))
        checks.append((p.call("i", "VSQueryref", V("vs"), bind="ref"), "nofail", "VSQueryref"))
        pos = 0
        mode = "w"
        fmode = "w"
        wrote = False
        reopened = False

        def nrecs():
            return table[0].shape[0]

        curname = case["name"]
        curclass = None
        for op in case["ops"]:
            k = op[0]
            if k == "write":
                _, n, il, seed = op
                if mode != "w":
                    continue
                if file_il and (wrote or pos != 0):
                    continue
                if n * recsize > 6_000_000:
                    n = max(1, 6_000_000 // recsize)
                cols = [field_values(fields[i][1], fields[i][2], seed, i, n, pos) for i in range(nf)]
                buf = pack(cols, il)
                checks.append((p.call("i", "VSwrite", V("vs"), buf, n, il), "retn", (n, "VSwrite %d @%d il=%d" % (
                    n, pos, il))))
                if pos < nrecs():
                    labels.add("overwrite")
                if pos == nrecs() and reopened and nrecs() > 0:
                    labels.add("append_after_reopen")
                if il == NOI and nf > 1:
                    labels.add("nointerlace")
                end = pos + n
                for i in range(nf):
                    t = table[i]
                    if end > t.shape[0]:
                        nt_ = np.zeros((end, fields[i][2]), dtype=dts[i])
                        nt_[:t.shape[0]] = t
                        t = nt_
                    t[pos:end] = cols[i]
                    table[i] = t
                pos = end
                wrote = True
                if n * recsize > 1_000_000:
                    labels.add("big_transfer")
            elif k == "seek":
                if nrecs() == 0 or file_il:
                    continue
                tgt = min(op[1], nrecs() - 1)
                checks.append((p.call("i", "VSseek", V("vs"), tgt), "retn", (tgt, "VSseek %d" % tgt)))
                pos = tgt
            elif k == "read":
                _, n, sub, il = op
                if file_il and nrecs() > 0:
                    checks.append((p.call("i", "VSseek", V("vs"), 0), "retn", (0, "VSseek 0")))
                    pos, n = 0, nrecs()
                if nrecs() == 0 or pos >= nrecs():
                    continue
                n = min(n, nrecs() - pos)
                names = ",".join(fields[i][0] for i in sub)
                checks.append((p.call("i", "VSsetfields", V("vs"), names), "ret0", "VSsetfields(%s)" % names))
                specs = [(dts[i], fields[i][2]) for i in sub]
                size = sum(sizes[i] for i in sub) * n
                ln = p.call("i", "VSread", V("vs"), Out(size), n, il)
                exp = [table[i][pos:pos + n].copy() for i in sub]
                checks.append((ln, "read", (n, specs, il, exp, "VSread %d @%d fields %s il=%d" % (n, pos, sub, il))))
                pos += n
                if len(sub) < nf or sub != sorted(sub):
                    labels.add("subset_read")
                if il == NOI and len(sub) > 1:
                    labels.add("nointerlace")
            elif k in ("reattach", "reopen"):
                newmode = op[1]
                checks.append((p.call("i", "VSdetach", V("vs")), "ret0", "VSdetach"))
                if k == "reopen":
                    checks.append((p.call("i", "Vfinish", V("f")), "ret0", "Vend"))
                    checks.append((p.call("i", "Hclose", V("f")), "ret0", "Hclose"))
                    fmode = "w" if newmode == "w" else "r"
                    checks.append((p.call("i", "Hopen", path, 3 if fmode == "w" else 1, 0, bind="f"), "nofail",
                                   "Hopen"))
                    checks.append((p.call("i", "Vinitialize", V("f")), "ret0", "Vstart"))
                    reopened = True
                if newmode == "w" and fmode != "w":
                    newmode = "r"
                checks.append((p.call("i", "VSattach", V("f"), V("ref"), newmode, bind="vs"), "nofail",
                               "VSattach %s" % newmode))
                mode = newmode
                pos = 0
                if mode == "w" and nrecs() > 0 and k == "reopen" and not file_il:
                    # typical append: position at the end
                    checks.append((p.call("i", "VSseek", V("vs"), nrecs() - 1), "retn", (nrecs() - 1, "VSseek last")))
                    checks.append((p.call("i", "VSsetfields", V("vs"), allnames), "ret0", "VSsetfields(all)"))
                    size = recsize
                    ln = p.call("i", "VSread", V("vs"), Out(size), 1, FULL)
                    exp = [table[i][nrecs() - 1:nrecs()].copy() for i in range(nf)]
                    checks.append((ln, "read", (1, [(dts[i], fields[i][2]) for i in range(nf)], FULL, exp,
                                                "VSread last record")))
                    pos = nrecs()
            elif k == "inquire":
                ln = p.call("i", "VSinquire", V("vs"), Out(4), Out(4), OutS(2000), Out(4), OutS(300))
                checks.append((ln, "inquire", (nrecs(), allnames, recsize, curname, file_il)))
                checks.append((p.call("i", "VSgetinterlace", V("vs")), "retn", (file_il, "VSgetinterlace")))
                checks.append((p.call("i", "VSfexist", V("vs"), allnames), "retn", (1, "VSfexist(all)")))
                checks.append((p.call("i", "VSfexist", V("vs"), "no_such_field"), "retn", (-1, "VSfexist(absent)")))
                ln2 = p.call("i", "VSfindex", V("vs"), fields[-1][0], Out(4))
                checks.append((ln2, "findex", (nf - 1, fields[-1][0])))
                checks.append((p.call("i", "VSelts", V("vs")), "retn", (nrecs(), "VSelts")))
                checks.append((p.call("i", "VFnfields", V("vs")), "retn", (nf, "VFnfields")))
                for i in range(nf):
                    checks.append((p.call("s", "VFfieldname", V("vs"), i), "rets", (fields[i][0].encode(),
                                                                                   "VFfieldname %d" % i)))
                    checks.append((p.call("i", "VFfieldtype", V("vs"), i), "retn", (sm.NT[fields[i][1]][0],
                                                                                   "VFfieldtype %d" % i)))
                    checks.append((p.call("i", "VFfieldorder", V("vs"), i), "retn", (fields[i][2],
                                                                                    "VFfieldorder %d" % i)))
                    checks.append((p.call("i", "VFfieldesize", V("vs"), i), "retn", (sizes[i], "VFfieldesize %d" % i)))
                    checks.append((p.call("i", "VFfieldisize", V("vs"), i), "retn", (sizes[i], "VFfieldisize %d" % i)))
                checks.append((p.call("i", "VSsizeof", V("vs"), allnames), "retn", (recsize, "VSsizeof(all)")))
                checks.append((p.call("i", "VSsizeof", V("vs"), fields[-1][0]), "retn", (sizes[-1], "VSsizeof(last)")))
            elif k in ("setclass", "setname"):
                if mode != "w":
                    continue
                if k == "setclass":
                    curclass = op[1]
                    checks.append((p.call("i", "VSsetclass", V("vs"), curclass), "ret0", "VSsetclass"))
                else:
                    curname = op[1]
                    checks.append((p.call("i", "VSsetname", V("vs"), curname), "ret0", "VSsetname (rename)"))
                checks.append((p.call("i", "VSgetclass", V("vs"), OutS(300)), "outs", ((curclass or "").encode(), "VSgetclass")))
                if curname is not None:
                    checks.append((p.call("i", "VSgetname", V("vs"), OutS(300)), "outs", (curname.encode(), "VSgetname")))
                labels.add("class_or_name_edit")
            elif k == "fpack":
                # pack n records of all fields from per-field buffers, unpack again: must round-trip
                n, seed = op[1], op[2]
                cols = [field_values(fields[i][1], fields[i][2], seed, i, n, 7) for i in range(nf)]
                full = pack(cols, FULL)
                checks.append((p.call("i", "hx_fpack_roundtrip", V("vs"), allnames, full, len(full), n, nf,
                                      Out(len(full))), "fpack", (full, "VSfpack round trip")))
                labels.add("fpack")
        # final: detach, close, reopen read-only, read whole table in both interlaces
        checks.append((p.call("i", "VSdetach", V("vs")), "ret0", "VSdetach"))
        checks.append((p.call("i", "Vfinish", V("f")), "ret0", "Vend"))
        checks.append((p.call("i", "Hclose", V("f")), "ret0", "Hclose"))
        checks.append((p.call("i", "Hopen", path, 1, 0, bind="f"), "nofail", "Hopen"))
        checks.append((p.call("i", "Vinitialize", V("f")), "ret0", "Vstart"))
        checks.append((p.call("i", "VSattach", V("f"), V("ref"), "r", bind="vs"), "nofail", "VSattach r"))
        n = nrecs()
        checks.append((p.call("i", "VSelts", V("vs")), "retn", (n, "VSelts final")))
        checks.append((p.call("i", "VSgetclass", V("vs"), OutS(300)), "outs", ((curclass or "").encode(), "VSgetclass final")))
        if curname is not None:
            checks.append((p.call("i", "VSgetname", V("vs"), OutS(300)), "outs", (curname.encode(), "VSgetname final")))
        if n > 0:
            for il in (FULL, NOI):
                checks.append((p.call("i", "VSseek", V("vs"), 0), "retn", (0, "VSseek 0")))
                checks.append((p.call("i", "VSsetfields", V("vs"), allnames), "ret0", "VSsetfields(all)"))
                ln = p.call("i", "VSread", V("vs"), Out(recsize * n), n, il)
                checks.append((ln, "read", (n, [(dts[i], fields[i][2]) for i in range(nf)], il,
                                            [t.copy() for t in table], "final full read il=%d" % il)))
        checks.append((p.call("i", "VSdetach", V("vs")), "ret0", "VSdetach"))
        checks.append((p.call("i", "Vfinish", V("f")), "ret0", "Vend"))
        checks.append((p.call("i", "Hclose", V("f")), "ret0", "Hclose"))
        rr = run(p, cwd=d)
        try:
            if rr.harness_error:
                raise Fail("harness error", detail=rr.harness_error)
            for ln, ck, pay in checks:
                r = rr.res.get(ln)
                if r is None:
                    raise Fail("crash" if rr.crashed else "no result", detail=rr.sanitizer_summary(),
                               frames=rr.crash_frames(), call=p.lines[ln - 1][:100],
                               text=rr.stderr[-1500:] if rr.crashed else "")
                if ck == "nofail":
                    if r.ret == -1:
                        raise Fail("%s failed" % pay)
                elif ck == "ret0":
                    if r.ret != 0:
                        raise Fail("%s failed" % pay, ret=r.ret)
                elif ck == "retn":
                    if r.ret != pay[0]:
                        raise Fail("%s returned wrong value" % pay[1], expected=pay[0], observed=r.ret)
                elif ck == "rets":
                    if r.ret != pay[0]:
                        raise Fail("%s returned wrong string" % pay[1], expected=str(pay[0]), observed=str(r.ret))
                elif ck == "outs":
                    if r.ret != 0 or r.bufs[0] != pay[0]:
                        raise Fail("%s differs from what was set" % pay[1], expected=str(pay[0]), observed=str(r.bufs[0]), ret=r.ret)
                elif ck == "read":
                    n, specs, il, exp, what = pay
                    if r.ret != n:
                        raise Fail("VSread returned wrong count", what=what, expected=n, observed=r.ret)
                    got = unpack(r.bufs[0], specs, n, il)
                    for j, (g, e) in enumerate(zip(got, exp)):
                        if g.tobytes() != e.tobytes():
                            bad = np.argwhere(g.view(np.uint8).reshape(n, -1) != e.view(np.uint8).reshape(n, -1))
                            rec = int(bad[0][0])
                            raise Fail("VSread value differs from table model", what=what, field_pos_in_list=j,
                                       record=rec, expected=str(e[rec][:4]), observed=str(g[rec][:4]))
                elif ck == "inquire":
                    n, names, rs, nm = pay[:4]
                    FULL_ = pay[4] if len(pay) > 4 else FULL
                    if r.ret != 0:
                        raise Fail("VSinquire failed")
                    gn = struct.unpack("=i", r.bufs[0])[0]
                    gil = struct.unpack("=i", r.bufs[1])[0]
                    gf = r.bufs[2]
                    gs = struct.unpack("=i", r.bufs[3])[0]
                    if gn != n or gil != FULL_ or gf != names.encode() or gs != rs:
                        raise Fail("VSinquire differs", expected=[n, FULL_, names, rs],
                                   observed=[gn, gil, str(gf), gs])
                    if nm is not None and r.bufs[4] != nm.encode():
                        raise Fail("VSinquire name differs", expected=nm, observed=str(r.bufs[4]))
                elif ck == "findex":
                    idx = struct.unpack("=i", r.bufs[0])[0]
                    if r.ret != 0 or idx != pay[0]:
                        raise Fail("VSfindex differs", field=pay[1], expected=pay[0], observed=idx, ret=r.ret)
                elif ck == "fpack":
                    if r.ret != 0 or r.bufs[0] != pay[0]:
                        raise Fail("VSfpack pack->unpack does not round-trip", ret=r.ret)
            if not rr.done:
                raise Fail("crash", detail=rr.sanitizer_summary(), frames=rr.crash_frames(), text=rr.stderr[-1500:])
        except Fail as f:
            info = f.info
            info["program"] = p.text()[:3000]
            return CaseResult(labels=labels, failure=info, sample=sample_of(case))
    return CaseResult(labels=labels, sample=sample_of(case))


def sample_of(case):
    return {"fields": case["fields"], "ops": [str(o) for o in case["ops"][:15]], "blocks": case["blocks"]}


def known_match(case, failure, entry):
    return False


RULE += (" " + 'Class and name of stored tables are edited (VSsetclass/VSsetname with strings shorter, equal and longer than the current ones) and read back at once and after the final reopen.')
