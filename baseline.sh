#!/bin/sh
# Runs the repository's pinned baseline (405 ctest tests) with the verification guard OFF.
set -e
cd /repo/_build
cmake --build . >/dev/null 2>&1 || { echo "BUILD FAILED"; exit 2; }
ctest -j8 --timeout 900 2>&1 | grep -E "tests passed|tests failed|Failed|\*\*\*" 
