#!/usr/bin/env python3
"""dbg.py <replay.json|program.txt>: run the recorded program in a scratch dir and print line/result pairs."""
import sys, os, json, re, subprocess, tempfile
sys.path.insert(0, '/verif/py')
from h4verif import exe
src = sys.argv[1]
t = open(src).read()
if src.endswith('.json'):
    t = json.loads(t)['failure']['program']
d = tempfile.mkdtemp(prefix='dbg.', dir='/dev/shm')
t = re.sub(r's:/dev/shm/h4verif[^/ ]*/c\d+/', 's:%s/' % d, t)
rr = exe.run_text(t, cwd=d, wlog=os.path.join(d, 'wlog') if len(sys.argv) > 2 else None)
for i, l in enumerate(t.split('\n'), 1):
    r = rr.res.get(i)
    print('%3d %-60s -> %s' % (i, l[:60], (r.raw[:100] if r else '')))
print(rr.stderr[-3000:])
print('dir:', d)
