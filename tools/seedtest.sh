#!/bin/bash
# seedtest.sh <CNN> [tier] [other check ids...]: apply /verif/seeded/<CNN>/patch.diff to /repo's working tree, run the
# property's check (and optionally others), restore /repo. Never leaves /repo modified.
set -u
id=$1; tier=${2:-quick}; shift; shift || true
others="$@"
cd /repo || exit 2
git diff --quiet || { echo "repo dirty"; exit 2; }
git apply /verif/seeded/$id/patch.diff || { echo "patch does not apply"; exit 2; }
cd /verif
for c in $id $others; do
  s=$(date +%s)
  out=$(VERIF_SEED=${VERIF_SEED:-1} VERIF_TIER=$tier python3-vt run.py $c --tier $tier 2>&1)
  rc=$?
  echo "$c rc=$rc $(( $(date +%s)-s ))s $(echo "$out" | grep -E "evaluations=" | cut -c1-90)"
  echo "$out" | grep -E "VIOLATION|CHECK-ERROR" | head -3
done
git -C /repo checkout -- .
make -C /verif -s -j16 build tools >/dev/null 2>&1
