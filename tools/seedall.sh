#!/bin/bash
# seedall.sh [round ...]: re-run every kept seeded change out of tree against the CURRENT checks and the CURRENT /repo HEAD:
# for each seeded*/<id>/patch.diff a scratch worktree of /repo is created under /tmp, the patch applied (3-way if needed),
# the machinery built from it into a private directory, the property's quick tier run, and everything removed again.
# Output: one line per seed "round id rc ..." ; rc=1 means caught, rc=0 missed, "noapply" = patch no longer applies.
cd /verif
rounds=${@:-seeded seeded2 seeded3 seeded4 seeded5 seeded6 seeded7}
for r in $rounds; do
  for dir in $r/C*; do
    id=$(basename $dir)
    [ -f $dir/patch.diff ] || continue
    wt=/tmp/sa_${r}_$id
    git -C /repo worktree add --detach $wt HEAD >/dev/null 2>&1 || { echo "$r $id worktree-failed"; continue; }
    if git -C $wt apply $PWD/$dir/patch.diff 2>/dev/null || git -C $wt apply -3 $PWD/$dir/patch.diff 2>/dev/null; then
      res=$(tools/seedtest2.sh $wt $id quick 2>&1 | grep -E "^$id rc=" | cut -c1-120)
      echo "$r $res"
    else
      echo "$r $id noapply"
    fi
    git -C /repo worktree remove --force $wt >/dev/null 2>&1
    rm -rf /dev/shm/sb_$(basename $wt)
  done
done
git -C /repo worktree prune
