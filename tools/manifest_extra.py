register("C01", "exploration",
         "Generated H-level histories over 4 elements / 6 interleaved access ids (write, seek in 3 origins incl. past "
         "the end, read, truncate, explicit and silent promotion to linked blocks, external elements, aliases, "
         "delete, cache toggle, reopen) compared op-by-op with a byte-array model with known/unknown/gap cells; "
         "every element read back after a final reopen; closed file structurally validated by the independent reader.",
         TB + "; domain restrictions listed in evidence.assumptions", "model-based property testing (Hypothesis) "
         "with sanitizers", "DESIGN.md §3 C01")
