#!/bin/bash
# seedtest2.sh <worktree> <CNN> [tier]: build the machinery against a patched scratch worktree (H4_SRC) into a private
# build directory and run one check against it. /repo is not touched. Evidence goes to a scratch file.
set -u
wt=$1; id=$2; tier=${3:-quick}
b=/dev/shm/sb_$(basename $wt)
make -C /verif -s -j8 H4_SRC=$wt B=$b build tools >/dev/null 2>&1 || { echo "build failed for $wt"; exit 2; }
cd /verif
s=$(date +%s)
out=$(H4_BUILD=$b H4_SRC=$wt VERIF_EVIDENCE_DIR=/dev/shm/sb_evidence VERIF_SEED=${VERIF_SEED:-1} python3-vt run.py $id --tier $tier --no-build 2>&1)
rc=$?
echo "$id rc=$rc $(( $(date +%s)-s ))s $(echo "$out" | grep -E "evaluations=" | cut -c1-90)"
echo "$out" | grep -E "VIOLATION|CHECK-ERROR" | head -3
rm -rf $b
