#!/usr/bin/env python3
"""famloop.py CNN strategy_fn seed n : run one strategy of a check module n times (development aid)."""
import sys, json
sys.path.insert(0, '/verif'); sys.path.insert(0, '/verif/py')
import importlib
from hypothesis import given, settings, seed, HealthCheck, Phase
mod = importlib.import_module('checks.' + sys.argv[1].lower())
fn = getattr(mod, sys.argv[2])
try:
    strat = fn()
except TypeError:
    strat = fn('quick')
fails = []
labels = {}

@seed(int(sys.argv[3]))
@settings(max_examples=int(sys.argv[4]), database=None, deadline=None, suppress_health_check=list(HealthCheck))
@given(strat)
def t(case):
    r = mod.run_case(case)
    for l in r.labels:
        labels[l] = labels.get(l, 0) + 1
    if r.failure:
        fails.append((case, {k: v for k, v in r.failure.items() if k not in ('program', 'text', 'reader')}))
        raise AssertionError(r.failure['kind'])
try:
    t()
except Exception as e:
    print('FAIL', str(e)[:200])
if fails:
    print(json.dumps(fails[-1], default=repr)[:2500])
print(labels)
