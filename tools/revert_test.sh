#!/bin/bash
# revert_test.sh <commit> <CNN> [tier]: reverse-apply a /repo commit in the working tree, run the check, restore.
# development aid for sensitivity testing; never leaves /repo modified.
set -u
c=$1; prop=$2; tier=${3:-quick}
cd /repo || exit 2
git diff --quiet || { echo "repo dirty"; exit 2; }
git show $c | git apply -R || { echo "cannot revert $c"; exit 2; }
cd /verif
VERIF_TIER=$tier python3-vt run.py $prop --tier $tier 2>&1 | grep -E "VIOLATION|KNOWN|CHECK-ERROR|evaluations=" | cut -c1-300
git -C /repo checkout -- .
make -C /verif -s -j16 build >/dev/null 2>&1
