#!/bin/bash
# allthorough.sh [seed]: run every claimed property's thorough command sequentially and summarise (development aid)
seed=${1:-1}
cd /verif
for id in $(python3 -c "import json;print(' '.join(p['property_id'] for p in json.load(open('/verif/MANIFEST.json'))['checks']))"); do
  s=$(date +%s)
  out=$(VERIF_SEED=$seed VERIF_TIER=thorough python3-vt run.py $id --tier thorough 2>&1)
  rc=$?
  echo "$id rc=$rc $(( $(date +%s)-s ))s $(echo "$out" | grep -E "evaluations=" | cut -c1-110)"
  echo "$out" | grep -E "VIOLATION|CHECK-ERROR" | head -5
  echo "$out" | grep -E "failure:" | head -3 | cut -c1-600
done
