#!/usr/bin/env python3
"""runcase.py CNN '<case json>' | file.json : run one case through a check module and print the outcome."""
import sys, json, os
sys.path.insert(0, '/verif'); sys.path.insert(0, '/verif/py')
import importlib
mod = importlib.import_module('checks.' + sys.argv[1].lower())
a = sys.argv[2]
c = json.load(open(a)) if os.path.exists(a) else json.loads(a)
if 'case' in c and 'property' in c:
    c = c['case']
r = mod.run_case(c)
f = r.failure or {}
print('labels', sorted(r.labels))
print('failure', json.dumps({k: v for k, v in f.items() if k not in ('program', 'text')}, indent=1)[:3000])
if '-p' in sys.argv:
    print(f.get('program', ''))
    print(f.get('text', ''))
