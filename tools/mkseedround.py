#!/usr/bin/env python3
"""mkseedround.py <round-number> [ids...]: prepare scratch worktrees /tmp/seed<R>_<id> of /repo HEAD with
seed/PROMPT.md and seed/property.json for a new round of independent seeded changes (nothing from /verif is copied
except the property's own record and one-sentence summaries of earlier seeds, so that a new mechanism is chosen)."""
import sys, os, json, subprocess
R = sys.argv[1]
props = {}
for l in open('/verif/properties.jsonl'):
    d = json.loads(l)
    props[d['id']] = d
ids = sys.argv[2:] or sorted(props)
T = '''You are helping evaluate a verification suite by playing the role of a developer who accidentally introduces a realistic bug.

Your private scratch copy of the HDF4 C library (HDFGroup/hdf4) is the git worktree at {W} . Work ONLY inside that directory. Do not read or write /repo or /verif (they are off limits), and there is no network.

The semantic property you must break is described in {W}/seed/property.json (title, statement, quantifier, anchors = where the relevant code lives). Read it first.

Task: make ONE small, realistic change to the library or tool SOURCE code under {W} (hdf/src, mfhdf/src, mfhdf/hrepack, mfhdf/hdiff, mfhdf/hdp, mfhdf/hdfimport -- never the tests, never build files) such that:
  1. the tree still compiles and the existing test suite still passes completely:
       cd {W} && cmake -G Ninja -B _build -S . -DCMAKE_BUILD_TYPE=RelWithDebInfo -DBUILD_TESTING=ON -DHDF4_BUILD_TOOLS=ON -DHDF4_BUILD_EXAMPLES=ON >/dev/null && cmake --build _build >/dev/null && ctest --test-dir _build -j8 --timeout 900 | tail -3
     (about 20-60 seconds; must end with "100% tests passed, 0 tests failed out of 405"; if your change makes a test fail, choose a different change);
  2. the property in property.json no longer holds: there is at least one input / call sequence / option combination for which the observable behaviour contradicts the property's statement;
  3. the bug needs something specific to manifest (a particular size, type, order of calls, boundary, option, layout ...) -- the kind of slip a maintainer could make in a refactoring (off-by-one, wrong comparison, a dropped update of a counter/flag, swapped arguments, a missing case, a stale cache entry, wrong byte-order branch, missing error check, ...). It must NOT break everything and must NOT be a deliberate backdoor keyed on a magic constant.

Then write, inside {W}/seed/ :
  - patch.diff : output of `git -C {W} diff` (only your source change);
  - demo.c (or demo.sh) : a small stand-alone demonstration that uses the PUBLIC API (or the tool binaries in {W}/_build/bin) and prints "PROPERTY HOLDS" on the original code and "PROPERTY VIOLATED: <what>" on your patched code. For a C demo, give the exact build+run command (link against the libraries in {W}/_build/bin, e.g. gcc demo.c -I{W}/hdf/src -I{W}/mfhdf/src -I{W}/_build -I{W}/_build/hdf/src -L{W}/_build/bin -lmfhdf -lhdf -lm -ljpeg -lz -Wl,-rpath,{W}/_build/bin ; check the actual library names in _build/bin). Verify it yourself on both the patched tree and the original (IMPORTANT: do NOT use `git stash` -- the stash is shared between all worktrees of the repository and other people are working in sibling worktrees; instead save your change with `git diff > seed/patch.diff`, undo it with `git apply -R seed/patch.diff`, rebuild and run the demo on the original, then re-apply with `git apply seed/patch.diff` and rebuild) and report both outputs;
  - meta.json : {{"property": "<id>", "summary": "...one sentence...", "files": ["..."], "trigger": "...what is needed for the bug to show...", "why_tests_pass": "...", "demo_cmd": "...", "output_original": "...", "output_patched": "..."}}.

Leave the worktree with your patch APPLIED when you finish. In your final answer give: the one-sentence summary, the trigger, and the two demo outputs. Be efficient: explore the anchored code, pick a change, build, test, demo -- do not spend time on anything else.

Additional requirements for this round:
* h4config.h is generated into {W}/_build (use -I{W}/_build when compiling a demo).
* Earlier volunteers already seeded the changes listed below for the same property -- choose a DIFFERENT mechanism, in a different function (ideally a different source file), and a different kind of trigger:
{EARLIER}
* Prefer bugs in less obvious places named in the property's anchors, or in code paths the property quantifies over but that look rarely exercised (unusual number types, ranks >= 3, strides, partial operations, second and third sessions on an existing file, special-element combinations, boundary sizes, option combinations, error paths, interactions between two interfaces).
* To demonstrate I/O failures or crashes you may interpose stdio functions in the demo with dlsym(RTLD_NEXT, ...) (add -ldl).
'''
for pid in ids:
    W = '/tmp/seed%s_%s' % (R, pid)
    subprocess.run(['git', '-C', '/repo', 'worktree', 'add', '--detach', W, 'HEAD'], stdout=subprocess.DEVNULL,
                   stderr=subprocess.DEVNULL)
    os.makedirs(W + '/seed', exist_ok=True)
    json.dump(props[pid], open(W + '/seed/property.json', 'w'), indent=1)
    earlier = []
    for d in ('seeded', 'seeded2', 'seeded3', 'seeded4', 'seeded5', 'seeded6', 'seeded7'):
        mp = '/verif/%s/%s/meta.json' % (d, pid)
        if os.path.exists(mp):
            try:
                m = json.load(open(mp))
                earlier.append('    - "%s"  (trigger: %s)' % (str(m.get('summary', ''))[:500], str(m.get('trigger', ''))[:400]))
            except Exception:
                pass
    open(W + '/seed/PROMPT.md', 'w').write(T.format(W=W, EARLIER='\n'.join(earlier) or '    (none)'))
    print(W)
