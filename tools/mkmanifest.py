#!/usr/bin/env python3
"""Regenerates /verif/MANIFEST.json from the table below (kept in one place so the file is always valid)."""
import json, os, sys
VERIF = os.path.dirname(os.path.dirname(os.path.abspath(__file__)))

CHECKS = {}   # filled by register()


def register(pid, category, text, note, technique, design_ref, engine="hypothesis+h4x"):
    CHECKS[pid] = dict(property_id=pid,
                       quick_cmd="python3-vt run.py %s --tier quick" % pid,
                       thorough_cmd="python3-vt run.py %s --tier thorough" % pid,
                       evidence_file="evidence/%s.json" % pid,
                       replay_cmd_template="python3-vt run.py %s --replay {path}" % pid,
                       engine=engine,
                       level_claimed=dict(category=category, text=text, design_ref=design_ref),
                       level_note=note, technique=technique)


TB = ("trusted base: clang ASan/UBSan build of /repo's working tree (shift-base disabled), the h4x executor "
      "(generic dlsym call interpreter), Hypothesis 6.168 generation/shrinking, the Python reference model in "
      "the check module")

register("C12", "exploration",
         "Generated directory histories (create/dup/delete/reuse/special variants/cache toggles/reopen/bulk to "
         "65535 refs) compared op-by-op with a dict model; full wildcard enumeration after every mutator; "
         "allocator results checked against model + enumeration; independent DD parse of the closed file. "
         "Exploration is the right level: the property quantifies over unbounded histories.",
         TB + "; h4fmt.py DD-chain parser", "model-based property testing (Hypothesis) with sanitizers + "
         "independent format reader", "DESIGN.md §3 C12")

NOT_YET = {}
ALL = ["C%02d" % i for i in range(1, 21)]


def main():
    extra = os.path.join(VERIF, "tools", "manifest_extra.py")
    if os.path.exists(extra):
        exec(open(extra).read(), globals())
    man = dict(
        version=1,
        setup_cmd="make -C /verif -j16 -s build tools",
        hooks=dict(guard="H4_VERIF",
                   enable="checks compile /repo's working tree directly with -DH4_VERIF (Makefile); no source "
                          "hooks exist, interposition is done at link level (-Wl,--wrap) on the harness binary",
                   baseline_off_cmd="/verif/baseline.sh",
                   source_commits=[], add_only=True),
        engines=[dict(name="hypothesis+h4x", path="run.py", serves_properties=sorted(CHECKS),
                      kind_free_text="Hypothesis model-based generators driving a sanitizer-built generic "
                                     "executor (build/h4x) of the HDF4 API; failures shrink to JSON replays")],
        checks=[CHECKS[k] for k in sorted(CHECKS)],
        not_applicable=[dict(property_id=p, reason=NOT_YET.get(p, "check not built yet in this round; planned "
                                                                  "per DESIGN.md §3 (same technique)"))
                        for p in ALL if p not in CHECKS],
        notes="All checks: python3-vt run.py <ID> --tier quick|thorough; exit 0 ok, 1 VIOLATION, 2 CHECK-ERROR. "
              "Known/fixed findings: known_findings.json. See DESIGN.md.")
    with open(os.path.join(VERIF, "MANIFEST.json"), "w") as f:
        json.dump(man, f, indent=1)
    try:
        import jsonschema
        jsonschema.validate(man, json.load(open("/root/.vp/MANIFEST.schema.json")))
        print("MANIFEST.json valid; claimed:", sorted(CHECKS))
    except ImportError:
        print("written (jsonschema unavailable)")


if __name__ == "__main__":
    main()
