#!/usr/bin/env python3
"""mkdesign.py: regenerate /verif/DESIGN.md from design_head.md, the check modules, known_findings.json,
seeded/*/meta.json + seeded/results.json, design_notes.json, the evidence files and design_tail.md."""
import os, sys, json, importlib, textwrap, glob
V = os.path.dirname(os.path.dirname(os.path.abspath(__file__)))
sys.path.insert(0, V)
sys.path.insert(0, os.path.join(V, "py"))

props = {}
for l in open(os.path.join(V, "properties.jsonl")):
    d = json.loads(l)
    props[d["id"]] = d
kf = json.load(open(os.path.join(V, "known_findings.json")))["findings"]
notes = json.load(open(os.path.join(V, "tools", "design_notes.json")))
seed_results = {}
p = os.path.join(V, "seeded", "results.json")
if os.path.exists(p):
    seed_results = json.load(open(p))
manifest = json.load(open(os.path.join(V, "MANIFEST.json")))
mchecks = {c["property_id"]: c for c in manifest["checks"]}


def wrap(s, ind="  ", width=110):
    return "\n".join(textwrap.wrap(s, width=width, initial_indent=ind, subsequent_indent=ind))


out = []
head = open(os.path.join(V, "tools", "design_head.md")).read()
nf = sum(1 for e in kf if e["status"] == "fixed")
nk = sum(1 for e in kf if e["status"] == "known")
head = head.replace("{NTOTAL}", str(nf + nk)).replace("{NFIXED}", str(nf)).replace("{NKNOWN}", str(nk))
out.append(head)
out.append("\n" + "-" * 110 + "\n\n## 3. Per-property checks\n")
out.append("Each entry is generated from the module's `RULE`, `ASSUMPTIONS`, `BUDGET`, `MIN_NT` and from the last "
           "committed evidence file. *Domain / oracle / non-trivial rule* is the text that also goes into the evidence "
           "file's `coverage.rule`.\n")
for pid in sorted(props):
    mod = importlib.import_module("checks." + pid.lower())
    pr = props[pid]
    out.append("### %s — %s\n" % (pid, pr["title"]))
    mc = mchecks.get(pid, {})
    out.append("* **Technique:** %s" % mc.get("technique", "?"))
    out.append("* **Level claimed:** %s" % mc.get("level_claimed", {}).get("category", "?"))
    out.append("* **Domain, oracle, non-trivial rule:**\n%s" % wrap(mod.RULE, "  "))
    ass = getattr(mod, "ASSUMPTIONS", [])
    if ass:
        out.append("* **Assumptions (domain restrictions taken from the code/documentation):**")
        for a in ass:
            out.append(wrap(a, "  - ").replace("\n  - ", "\n    "))
    b = mod.BUDGET
    out.append("* **Budget:** quick %d shards x %d cases (minimum %d distinct non-trivial), thorough %d x %d (minimum %d)%s." % (
        b["quick"]["shards"], b["quick"]["cases"], mod.MIN_NT["quick"], b["thorough"]["shards"], b["thorough"]["cases"],
        mod.MIN_NT["thorough"], "; plus the deterministic `extra` phase" if hasattr(mod, "extra") else ""))
    evp = os.path.join(V, "evidence", pid + ".json")
    if os.path.exists(evp):
        ev = json.load(open(evp))
        cov = ev.get("coverage", {})
        out.append("* **Last committed run:** tier %s, seed %s: %s evaluations, %s distinct non-trivial, %s violations, %.0f s." % (
            ev.get("tier"), ev.get("seed"), cov.get("evaluations"), cov.get("distinct_nontrivial"),
            ev.get("violations", 0) if isinstance(ev.get("violations", 0), int) else len(ev.get("violations", [])),
            ev.get("wall_seconds", ev.get("wall_s", 0)) or 0))
    mine = [e for e in kf if e["property"] == pid]
    if mine:
        out.append("* **Findings:** %d fixed, %d known (section 4)." % (sum(1 for e in mine if e["status"] == "fixed"),
                                                                         sum(1 for e in mine if e["status"] == "known")))
    fa = notes["false_alarms"].get(pid)
    if fa:
        out.append("* **False alarms corrected while building the check:** %d (section 5)." % len(fa))
    sr = seed_results.get(pid)
    if sr:
        out.append("* **Seeded change:** %s (section 6)." % sr["verdict"])
    out.append("")

out.append("-" * 110 + "\n\n## 4. Genuine defects found on the pinned tree\n")
out.append("Every entry was demonstrated against the real code by a minimal case that is now in `corpus/<id>/`. "
           "**Fixed** entries are separate unguarded `fix:` commits in `/repo` (the 405-test suite passes after each); "
           "their corpus case is replayed on every run and nothing is suppressed. **Known** entries are not repaired "
           "(reason: not a small, safe patch, or a design limitation); the check prints one `KNOWN-FINDING` line per entry "
           "and still reports any other violation of the property.\n")
out.append("### 4.1 Fixed (%d)\n" % nf)
out.append("| property | commit | what failed |\n|---|---|---|")
for e in kf:
    if e["status"] == "fixed":
        t = e["text"]
        t = t.split(e.get("commit", "\0"), 1)[-1].strip() if e.get("commit") and e["commit"] in t else t
        out.append("| %s | `%s` | %s |" % (e["property"], e.get("commit", "?"), t.replace("|", "/")))
out.append("\n### 4.2 Known, not repaired (%d)\n" % nk)
out.append("| property | key | what fails | trigger excluded from generation |\n|---|---|---|---|")
for e in kf:
    if e["status"] == "known":
        out.append("| %s | `%s` | %s | %s |" % (e["property"], e["key"], e["text"].replace("|", "/"),
                                                  (e.get("trigger") or "").replace("|", "/")))
out.append("")
out.append("-" * 110 + "\n\n## 5. False alarms and how the machinery was corrected\n")
out.append("Each of these was first reported by a check on the unchanged tree, turned out to be the check demanding "
           "more than the property or the documentation states (or a harness error), and was corrected in the "
           "machinery; none is listed as a finding.\n")
for pid in sorted(notes["false_alarms"]):
    out.append("* **%s**" % pid)
    for a in notes["false_alarms"][pid]:
        out.append(wrap(a, "  - ").replace("\n  - ", "\n    "))
out.append("")
out.append("-" * 110 + "\n\n## 6. Sensitivity: do the checks catch realistic breakage?\n")
out.append("### 6.1 Reverting fixes\n")
for k, v in notes["sensitivity"].items():
    out.append(wrap("%s: %s" % (k, v), "* ").replace("\n* ", "\n  "))
# summary over all rounds
rows = []
for rdir in ("seeded", "seeded2", "seeded3", "seeded4", "seeded5", "seeded6", "seeded7"):
    pr = os.path.join(V, rdir, "results.json")
    if not os.path.exists(pr):
        continue
    rj = json.load(open(pr))
    n = len(rj)
    imm = sum(1 for v in rj.values() if v.get("verdict", "").startswith("caught by the quick tier"))
    rows.append((rdir, n, imm, n - imm))
if rows:
    out.append("\n### 6.1b Seeding rounds at a glance\n")
    out.append("Each round: one fresh sub-agent per property, told only the property record (and, from round 2 on, one-"
               "sentence summaries of the earlier seeds so that it picks a new mechanism). *At once* = the quick tier of "
               "the checks as they stood when the seed arrived exits 1; *after extension* = missed first, then the "
               "generator/oracle was extended (never weakened) until the quick tier reports it; the extension is "
               "described in the round's table. Several extensions exposed genuine defects of the pinned tree "
               "(section 4).\n")
    out.append("| round | seeds | caught at once | caught after extension | still missed |\n|---|---|---|---|---|")
    for rdir, n, imm, late in rows:
        out.append("| %s | %d | %d | %d | 0 |" % (rdir, n, imm, late))
    out.append("")
out.append("\n### 6.2 Changes seeded by independent sub-agents\n")
out.append("For every property a fresh sub-agent was given only the property's record and a private scratch worktree "
           "of `/repo` (nothing from `/verif`) and asked for one realistic change that breaks the property while the "
           "tree still compiles and all 405 tests pass, with a demonstration. Patch, demo and description are kept in "
           "`seeded/<id>/`. Each patch was applied to `/repo`'s working tree with `tools/seedtest.sh`, the property's "
           "quick tier was run, and the tree was restored.\n")
out.append("| property | seeded change | trigger | result |\n|---|---|---|---|")
for pid in sorted(props):
    mp = os.path.join(V, "seeded", pid, "meta.json")
    if not os.path.exists(mp):
        continue
    try:
        m = json.load(open(mp))
    except Exception:
        continue
    sr = seed_results.get(pid, {})
    out.append("| %s | %s | %s | %s |" % (pid, str(m.get("summary", "")).replace("|", "/")[:400],
                                         str(m.get("trigger", "")).replace("|", "/")[:300],
                                         sr.get("result", "not yet run").replace("|", "/")))
out.append("")
ROUNDS = [("seeded2", "6.3 Second round of seeded changes",
           "A second set of fresh sub-agents got the same brief plus the one-sentence summary of the first round's "
           "change for their property, and had to choose a different mechanism, function and kind of trigger, "
           "preferring rarely exercised paths."),
          ("seeded3", "6.4 Third round of seeded changes",
           "A third set of fresh sub-agents, told the summaries of both earlier changes for their property, again had "
           "to choose a different mechanism, function and kind of trigger (error paths, later sessions, interactions "
           "between two interfaces were suggested)."),
          ("seeded4", "6.5 Fourth round of seeded changes",
           "A fourth set of fresh sub-agents, told the summaries of the three earlier changes for their property."),
          ("seeded5", "6.6 Fifth round of seeded changes",
           "A fifth set of fresh sub-agents, told the summaries of the four earlier changes for their property."),
          ("seeded6", "6.6b Sixth round of seeded changes",
           "A sixth set of fresh sub-agents, told the summaries of the five earlier changes for their property."),
          ("seeded7", "6.6c Seventh round of seeded changes",
           "A seventh set of fresh sub-agents, told the summaries of the six earlier changes for their property.")]
for rdir, title, intro in ROUNDS:
    p2 = os.path.join(V, rdir, "results.json")
    if not os.path.exists(p2):
        continue
    r2 = json.load(open(p2))
    out.append("### %s\n" % title)
    out.append(intro + " Kept in `%s/<id>/`. These were run **out of tree** with `tools/seedtest2.sh` (the machinery is "
               "built from the patched scratch worktree via `H4_SRC`, into a private build directory; `/repo` is not "
               "touched).\n" % rdir)
    out.append("| property | seeded change | trigger | result |\n|---|---|---|---|")
    for pid in sorted(props):
        mp = os.path.join(V, rdir, pid, "meta.json")
        if not os.path.exists(mp):
            continue
        try:
            m = json.load(open(mp))
        except Exception:
            continue
        sr = r2.get(pid, {})
        out.append("| %s | %s | %s | %s |" % (pid, str(m.get("summary", "")).replace("|", "/")[:400],
                                             str(m.get("trigger", "")).replace("|", "/")[:300],
                                             sr.get("result", "not yet run").replace("|", "/")))
    out.append("")
p3 = os.path.join(V, "seeded_runs", "seedall_last_run.txt")
if os.path.exists(p3):
    lines = [l for l in open(p3).read().split("\n") if l.strip()]
    caught = sum(1 for l in lines if " rc=1 " in l)
    out.append("### 6.7 All kept seeds against the final checks\n")
    out.append("`tools/seedall.sh` re-applies every kept patch of all rounds to a scratch worktree of the current "
               "`/repo` HEAD (i.e. on top of all `fix:` commits), builds the machinery from it and runs the property's "
               "quick tier: **%d of %d seeded changes are reported** (exit 1 with VIOLATION lines) by the checks as "
               "committed; the log of that run is `seeded_runs/seedall_last_run.txt`.\n" % (caught, len(lines)))
out.append(open(os.path.join(V, "tools", "design_tail.md")).read())
open(os.path.join(V, "DESIGN.md"), "w").write("\n".join(out))
print("DESIGN.md written: %d lines" % len("\n".join(out).split("\n")))
