/*
 * c06_enum — exhaustive / stratified enumeration of number-type conversion (property C06).
 *
 * For every 8/16/32-bit number type x {standard, little-endian, native} it pushes bit patterns
 * through DFKconvert in both directions and checks
 *   (1) file representation == independent byte-order reference (explicit shifts),
 *   (2) round trip back to memory is bit-identical,
 *   (3) in-place conversion == out-of-place conversion,
 *   (4) strided conversion (source and destination strides >= element size) == contiguous,
 *   (5) in-place conversion with a source stride larger than the destination stride (packing) == out-of-place.
 * 64-bit floats: structured + pseudo-random patterns (all single bits, exponent boundaries,
 * denormals, NaN payloads).
 *
 * usage: c06_enum <quick|thorough> <seed> <out.json> [workers]
 * DFKconvert keeps its conversion table in globals, so parallelism is by fork(), not threads.
 */
#define _GNU_SOURCE
#include <stdint.h>
#include <stdio.h>
#include <stdlib.h>
#include <string.h>
#include <sys/wait.h>
#include <unistd.h>
#include "hdf.h"

typedef struct {
    const char *name;
    int32       code;
    int         size;
} nt_t;

static nt_t NTS[] = {{"uchar8", DFNT_UCHAR8, 1}, {"char8", DFNT_CHAR8, 1},   {"int8", DFNT_INT8, 1},
                     {"uint8", DFNT_UINT8, 1},   {"int16", DFNT_INT16, 2},   {"uint16", DFNT_UINT16, 2},
                     {"int32", DFNT_INT32, 4},   {"uint32", DFNT_UINT32, 4}, {"float32", DFNT_FLOAT32, 4},
                     {"float64", DFNT_FLOAT64, 8}};
#define NNT ((int)(sizeof(NTS) / sizeof(NTS[0])))
static const char *FLV[]   = {"standard", "little", "native"};
static int32       FLVB[]  = {0, DFNT_LITEND, DFNT_NATIVE};

#define BLK (1u << 16)

typedef struct {
    unsigned long long evals;    /* conversions checked (all modes) */
    unsigned long long patterns; /* distinct bit patterns pushed through */
    unsigned long long mism;
    char               first[256];
} stat_t;

/* reference file representation of one element given as native-endian bytes (x86: little) */
static void
ref_bytes(const uint8_t *mem, int size, int flavour, uint8_t *out)
{
    /* value v = sum mem[i] << 8i on a little-endian host */
    uint64_t v = 0;
    for (int i = 0; i < size; i++)
        v |= (uint64_t)mem[i] << (8 * i);
    for (int i = 0; i < size; i++) {
        if (flavour == 0) /* standard: most significant byte first */
            out[i] = (uint8_t)(v >> (8 * (size - 1 - i)));
        else /* little-endian, and native on this little-endian host */
            out[i] = (uint8_t)(v >> (8 * i));
    }
}

static void
note(stat_t *st, const char *what, const nt_t *nt, int flv, uint64_t pat)
{
    st->mism++;
    if (!st->first[0])
        snprintf(st->first, sizeof st->first, "%s nt=%s flavour=%s pattern=0x%llx", what, nt->name, FLV[flv],
                 (unsigned long long)pat);
}

/* check one block of n patterns (native-endian elements in mem) */
static void
check_block(const nt_t *nt, int flv, const uint8_t *mem, uint32_t n, int extra_modes, stat_t *st)
{
    int      sz   = nt->size;
    int32    code = nt->code | FLVB[flv];
    uint8_t *file = malloc((size_t)n * sz), *back = malloc((size_t)n * sz), *ref = malloc((size_t)n * sz);
    memset(file, 0xEE, (size_t)n * sz);
    if (DFKconvert((void *)mem, file, code, (int32)n, DFACC_WRITE, 0, 0) == FAIL)
        note(st, "DFKconvert(write) failed", nt, flv, 0);
    for (uint32_t i = 0; i < n; i++)
        ref_bytes(mem + (size_t)i * sz, sz, flv, ref + (size_t)i * sz);
    if (memcmp(file, ref, (size_t)n * sz) != 0) {
        for (uint32_t i = 0; i < n; i++)
            if (memcmp(file + (size_t)i * sz, ref + (size_t)i * sz, sz)) {
                uint64_t p = 0;
                memcpy(&p, mem + (size_t)i * sz, sz);
                note(st, "file byte order differs from reference", nt, flv, p);
                break;
            }
    }
    memset(back, 0xDD, (size_t)n * sz);
    if (DFKconvert(file, back, code, (int32)n, DFACC_READ, 0, 0) == FAIL)
        note(st, "DFKconvert(read) failed", nt, flv, 0);
    if (memcmp(back, mem, (size_t)n * sz) != 0) {
        for (uint32_t i = 0; i < n; i++)
            if (memcmp(back + (size_t)i * sz, mem + (size_t)i * sz, sz)) {
                uint64_t p = 0;
                memcpy(&p, mem + (size_t)i * sz, sz);
                note(st, "round trip changes the bit pattern", nt, flv, p);
                break;
            }
    }
    st->evals += n;
    st->patterns += n;
    if (extra_modes) {
        /* in place, both directions */
        uint8_t *ip = malloc((size_t)n * sz);
        memcpy(ip, mem, (size_t)n * sz);
        DFKconvert(ip, ip, code, (int32)n, DFACC_WRITE, 0, 0);
        if (memcmp(ip, file, (size_t)n * sz))
            note(st, "in-place write conversion differs from out-of-place", nt, flv, 0);
        DFKconvert(ip, ip, code, (int32)n, DFACC_READ, 0, 0);
        if (memcmp(ip, mem, (size_t)n * sz))
            note(st, "in-place read conversion differs from out-of-place", nt, flv, 0);
        free(ip);
        /* strided: source stride sz+ss, dest stride sz+ds (both >= element size, as callers use) */
        for (int variant = 0; variant < 3; variant++) {
            int      ss = sz + (variant == 0 ? 0 : variant == 1 ? 3 : sz);
            int      ds = sz + (variant == 0 ? 5 : variant == 1 ? 0 : 1);
            uint32_t m  = n > 4096 ? 4096 : n;
            uint8_t *src = malloc((size_t)m * ss + 16), *dst = malloc((size_t)m * ds + 16);
            memset(src, 0x77, (size_t)m * ss + 16);
            memset(dst, 0x99, (size_t)m * ds + 16);
            for (uint32_t i = 0; i < m; i++)
                memcpy(src + (size_t)i * ss, mem + (size_t)i * sz, sz);
            DFKconvert(src, dst, code, (int32)m, DFACC_WRITE, ss, ds);
            for (uint32_t i = 0; i < m; i++) {
                if (memcmp(dst + (size_t)i * ds, file + (size_t)i * sz, sz)) {
                    uint64_t p = 0;
                    memcpy(&p, mem + (size_t)i * sz, sz);
                    note(st, "strided write conversion differs from contiguous", nt, flv, p);
                    break;
                }
                /* bytes between elements must be untouched */
                for (int k = sz; k < ds; k++)
                    if (dst[(size_t)i * ds + k] != 0x99) {
                        note(st, "strided conversion wrote between elements", nt, flv, 0);
                        i = m;
                        break;
                    }
            }
            /* and back */
            memset(src, 0x55, (size_t)m * ss + 16);
            DFKconvert(dst, src, code, (int32)m, DFACC_READ, ds, ss);
            for (uint32_t i = 0; i < m; i++)
                if (memcmp(src + (size_t)i * ss, mem + (size_t)i * sz, sz)) {
                    note(st, "strided read conversion differs from contiguous", nt, flv, 0);
                    break;
                }
            st->evals += m;
            free(src);
            free(dst);
        }
        /* in place with different strides: packing the first field of wider records (source stride larger
           than destination stride: every element is read before its place is overwritten) */
        for (int dir = 0; dir < 2; dir++) {
            int      ss = 3 * sz, ds = sz;
            uint32_t m  = n > 2048 ? 2048 : n;
            uint8_t *buf = malloc((size_t)m * ss + 16);
            memset(buf, 0x77, (size_t)m * ss + 16);
            const uint8_t *in  = dir == 0 ? mem : file;
            const uint8_t *exp = dir == 0 ? file : mem;
            for (uint32_t i = 0; i < m; i++)
                memcpy(buf + (size_t)i * ss, in + (size_t)i * sz, sz);
            DFKconvert(buf, buf, code, (int32)m, dir == 0 ? DFACC_WRITE : DFACC_READ, ss, ds);
            if (memcmp(buf, exp, (size_t)m * sz))
                note(st, dir == 0 ? "in-place strided (packing) write conversion differs from out-of-place"
                                  : "in-place strided (packing) read conversion differs from out-of-place",
                     nt, flv, 0);
            st->evals += m;
            free(buf);
        }
    }
    free(file);
    free(back);
    free(ref);
}

static uint64_t
splitmix(uint64_t *x)
{
    uint64_t z = (*x += 0x9E3779B97F4A7C15ull);
    z          = (z ^ (z >> 30)) * 0xBF58476D1CE4E5B9ull;
    z          = (z ^ (z >> 27)) * 0x94D049BB133111EBull;
    return z ^ (z >> 31);
}

/* worker w of W handles slices of every (type, flavour) space */
static void
worker(int w, int W, int thorough, uint64_t seed, stat_t stats[NNT][3], int exhaustive[NNT])
{
    uint8_t *mem = malloc((size_t)BLK * 8);
    for (int t = 0; t < NNT; t++) {
        const nt_t *nt = &NTS[t];
        for (int f = 0; f < 3; f++) {
            stat_t *st = &stats[t][f];
            if (nt->size == 1) {
                if (w != (t * 3 + f) % W)
                    continue;
                for (uint32_t i = 0; i < 256; i++)
                    mem[i] = (uint8_t)i;
                check_block(nt, f, mem, 256, 1, st);
                exhaustive[t] = 1;
            }
            else if (nt->size == 2) {
                if (w != (t * 3 + f) % W)
                    continue;
                for (uint32_t i = 0; i < 65536; i++) {
                    uint16_t v = (uint16_t)i;
                    memcpy(mem + 2 * i, &v, 2);
                }
                check_block(nt, f, mem, 65536, 1, st);
                exhaustive[t] = 1;
            }
            else if (nt->size == 4) {
                /* 2^16 blocks of 2^16 patterns; quick: every 256th block (2^24 patterns) with a
                   seed-dependent offset so that different seeds cover different strata */
                uint32_t step = thorough ? 1 : 32;
                uint32_t off  = thorough ? 0 : (uint32_t)(seed % 32);
                uint32_t k    = 0;
                for (uint32_t hi = off; hi < 65536; hi += step, k++) {
                    if ((int)(k % (uint32_t)W) != w)
                        continue;
                    for (uint32_t lo = 0; lo < 65536; lo++) {
                        /* high half varies slowest in thorough; in quick spread the sampled blocks over
                           both halves by mixing hi into the low half as well */
                        uint32_t v = thorough ? ((hi << 16) | lo) : ((hi << 16) | lo) ^ (lo << 16);
                        memcpy(mem + 4 * (size_t)lo, &v, 4);
                    }
                    check_block(nt, f, mem, 65536, (k % 64) == 0, st);
                }
                exhaustive[t] = thorough;
            }
            else { /* 8-byte: structured + random */
                if (w != (t * 3 + f) % W)
                    continue;
                uint32_t n = 0;
                uint64_t v;
                for (int b = 0; b < 64; b++) {
                    v = 1ull << b;
                    memcpy(mem + 8 * n++, &v, 8);
                    v = ~(1ull << b);
                    memcpy(mem + 8 * n++, &v, 8);
                }
                uint64_t specials[] = {0ull,
                                       0x8000000000000000ull,
                                       0x7FF0000000000000ull,
                                       0xFFF0000000000000ull,
                                       0x7FF8000000000001ull,
                                       0x7FF0000000000001ull,
                                       0xFFF8DEADBEEF0001ull,
                                       0x0000000000000001ull,
                                       0x000FFFFFFFFFFFFFull,
                                       0x0010000000000000ull,
                                       0x7FEFFFFFFFFFFFFFull,
                                       0x3FF0000000000000ull,
                                       0x0123456789ABCDEFull,
                                       0xFEDCBA9876543210ull};
                for (unsigned s = 0; s < sizeof specials / 8; s++)
                    memcpy(mem + 8 * n++, &specials[s], 8);
                uint64_t x = seed * 77 + 5;
                while (n < BLK) {
                    v = splitmix(&x);
                    memcpy(mem + 8 * n++, &v, 8);
                }
                check_block(nt, f, mem, BLK, 1, st);
                if (thorough)
                    for (int r = 0; r < 15; r++) {
                        for (n = 0; n < BLK; n++) {
                            v = splitmix(&x);
                            memcpy(mem + 8 * n, &v, 8);
                        }
                        check_block(nt, f, mem, BLK, 0, st);
                    }
            }
        }
    }
    free(mem);
}

int
main(int argc, char **argv)
{
    if (argc < 4) {
        fprintf(stderr, "usage: c06_enum quick|thorough seed out.json [workers]\n");
        return 2;
    }
    int      thorough = strcmp(argv[1], "thorough") == 0;
    uint64_t seed     = strtoull(argv[2], NULL, 10);
    int      W        = argc > 4 ? atoi(argv[4]) : 16;
    int      fds[64][2];
    if (W > 64)
        W = 64;
    for (int w = 0; w < W; w++) {
        if (pipe(fds[w]))
            return 2;
        pid_t pid = fork();
        if (pid == 0) {
            static stat_t stats[NNT][3];
            static int    exhaustive[NNT];
            close(fds[w][0]);
            worker(w, W, thorough, seed, stats, exhaustive);
            if (write(fds[w][1], stats, sizeof stats) != (ssize_t)sizeof stats)
                _exit(3);
            if (write(fds[w][1], exhaustive, sizeof exhaustive) != (ssize_t)sizeof exhaustive)
                _exit(3);
            _exit(0);
        }
        close(fds[w][1]);
    }
    static stat_t tot[NNT][3];
    static int    exh[NNT];
    int           bad_workers = 0;
    for (int w = 0; w < W; w++) {
        static stat_t s[NNT][3];
        static int    e[NNT];
        size_t        got = 0;
        while (got < sizeof s) {
            ssize_t k = read(fds[w][0], (char *)s + got, sizeof s - got);
            if (k <= 0)
                break;
            got += (size_t)k;
        }
        size_t got2 = 0;
        while (got == sizeof s && got2 < sizeof e) {
            ssize_t k = read(fds[w][0], (char *)e + got2, sizeof e - got2);
            if (k <= 0)
                break;
            got2 += (size_t)k;
        }
        if (got != sizeof s || got2 != sizeof e) {
            bad_workers++;
            continue;
        }
        for (int t = 0; t < NNT; t++) {
            exh[t] |= e[t];
            for (int f = 0; f < 3; f++) {
                tot[t][f].evals += s[t][f].evals;
                tot[t][f].patterns += s[t][f].patterns;
                tot[t][f].mism += s[t][f].mism;
                if (!tot[t][f].first[0] && s[t][f].first[0])
                    memcpy(tot[t][f].first, s[t][f].first, sizeof s[t][f].first);
            }
        }
    }
    int status, crashed = 0;
    while (wait(&status) > 0)
        if (!WIFEXITED(status) || WEXITSTATUS(status) != 0)
            crashed++;
    FILE *o = fopen(argv[3], "w");
    if (!o)
        return 2;
    unsigned long long evals = 0, mism = 0, pats = 0;
    fprintf(o, "{\"types\": [");
    for (int t = 0; t < NNT; t++)
        for (int f = 0; f < 3; f++) {
            evals += tot[t][f].evals;
            pats += tot[t][f].patterns;
            mism += tot[t][f].mism;
            fprintf(o, "%s{\"nt\": \"%s\", \"flavour\": \"%s\", \"patterns\": %llu, \"exhaustive\": %s, \"mismatches\": %llu, \"first\": \"%s\"}",
                    (t || f) ? ", " : "", NTS[t].name, FLV[f], tot[t][f].patterns, exh[t] ? "true" : "false",
                    tot[t][f].mism, tot[t][f].first);
        }
    fprintf(o, "], \"evaluations\": %llu, \"patterns\": %llu, \"mismatches\": %llu, \"crashed_workers\": %d, \"bad_workers\": %d}\n",
            evals, pats, mism, crashed, bad_workers);
    fclose(o);
    return (mism || crashed || bad_workers) ? 1 : 0;
}
