/*
 * wrapio — link-level interposition (-Wl,--wrap=...) of the stdio calls the HDF4 library
 * makes (HI_* macros in hfile_priv.h).  Provides (DESIGN.md §2.6):
 *   - per-kind call counters and a global ordinal over all calls on tracked streams;
 *   - a fault plan from the environment:  H4X_FAULT=<ordinal>:<sticky 0|1>:<errno>:<mode>[:<kind>]
 *       the call with that ordinal (0-based, counted over tracked streams, restricted to
 *       <kind> when given) fails; sticky=1 makes every later call fail too.
 *       mode: 0 = fwrite writes nothing / fread reads nothing, 1 = strict prefix (half)
 *   - an ordered write log (H4X_WLOG=<path>): O/W/F/C/M records, one per line.
 * Streams are "tracked" when opened through the wrapped fopen and (if H4X_TRACK is set)
 * their path contains that substring.  stdin/stdout/stderr and the harness's own files are
 * never tracked.
 */
#define _GNU_SOURCE
#include <errno.h>
#include <stdio.h>
#include <stdio_ext.h>
#include <stdlib.h>
#include <string.h>

FILE  *__real_fopen(const char *, const char *);
int    __real_fclose(FILE *);
size_t __real_fread(void *, size_t, size_t, FILE *);
size_t __real_fwrite(const void *, size_t, size_t, FILE *);
int    __real_fseek(FILE *, long, int);
long   __real_ftell(FILE *);
int    __real_fflush(FILE *);

enum { K_FOPEN, K_FCLOSE, K_FREAD, K_FWRITE, K_FSEEK, K_FTELL, K_FFLUSH, K_N };
static const char *kname[K_N] = {"fopen", "fclose", "fread", "fwrite", "fseek", "ftell", "fflush"};

#define MAXS 256
static struct {
    FILE *f;
    int   id;
    char  path[512];
} streams[MAXS];
static int  nstreams = 0, next_id = 1;
static long counts[K_N];
static long ordinal     = 0; /* all tracked calls */
static long kordinal    = 0; /* tracked calls of the planned kind */
void __sanitizer_print_stack_trace(void);
static long fault_at    = -1;
static int  fault_sticky = 0, fault_errno = EIO, fault_mode = 0, fault_kind = -1;
static int  fault_fired = 0;
static long faults_delivered = 0;
static FILE *wlog       = NULL;
static FILE *trace      = NULL; /* H4X_TRACE: one line per tracked stdio call + marks */
static const char *track = NULL;

void
wrapio_init(void)
{
    const char *e = getenv("H4X_FAULT");
    if (e && *e) {
        char kind[32] = "";
        int  n = sscanf(e, "%ld:%d:%d:%d:%31s", &fault_at, &fault_sticky, &fault_errno, &fault_mode, kind);
        if (n < 1)
            fault_at = -1;
        if (n >= 5)
            for (int k = 0; k < K_N; k++)
                if (strcmp(kind, kname[k]) == 0)
                    fault_kind = k;
    }
    e = getenv("H4X_WLOG");
    if (e && *e)
        wlog = __real_fopen(e, "wb");
    track = getenv("H4X_TRACK");
    e     = getenv("H4X_TRACE");
    if (e && *e)
        trace = __real_fopen(e, "wb");
}

static int
find(FILE *f)
{
    for (int i = 0; i < nstreams; i++)
        if (streams[i].f == f)
            return i;
    return -1;
}

/* returns 1 when this call must fail */
static int
tick(int kind)
{
    counts[kind]++;
    if (trace)
        fprintf(trace, "%ld %s\n", ordinal, kname[kind]);
    long my = (fault_kind < 0) ? ordinal : kordinal;
    ordinal++;
    int fail = 0;
    if (fault_kind < 0 || fault_kind == kind) {
        if (fault_kind == kind)
            kordinal++;
        if (fault_at >= 0) {
            if (my == fault_at) {
                fail        = 1;
                fault_fired = 1;
            }
            else if (fault_sticky && fault_fired)
                fail = 1;
        }
    }
    else if (fault_sticky && fault_fired)
        fail = 1;
    if (fail) {
        faults_delivered++;
        if (faults_delivered == 1 && getenv("H4X_FAULT_STACK")) {
            /* call site of the failing stdio call (used to identify known findings by call site) */
            fflush(stdout);
            fprintf(stderr, "H4X-FAULT-STACK\n");
            __sanitizer_print_stack_trace();
            fprintf(stderr, "H4X-FAULT-STACK-END\n");
        }
        errno = fault_errno;
        if (wlog) {
            fprintf(wlog, "X %s %ld\n", kname[kind], ordinal - 1);
        }
    }
    return fail;
}

void
wrapio_mark(const char *text)
{
    if (wlog) {
        fprintf(wlog, "M %s\n", text);
        __real_fflush(wlog);
    }
    if (trace) {
        fprintf(trace, "M %s\n", text);
        __real_fflush(trace);
    }
}

void
wrapio_counts(FILE *out)
{
    fprintf(out, "total=%ld faults=%ld", ordinal, faults_delivered);
    for (int k = 0; k < K_N; k++)
        fprintf(out, " %s=%ld", kname[k], counts[k]);
}

FILE *
__wrap_fopen(const char *path, const char *mode)
{
    int tracked = (!track || strstr(path, track) != NULL);
    if (!tracked)
        return __real_fopen(path, mode);
    if (tick(K_FOPEN))
        return NULL;
    FILE *f = __real_fopen(path, mode);
    if (f && nstreams < MAXS) {
        streams[nstreams].f  = f;
        streams[nstreams].id = next_id++;
        strncpy(streams[nstreams].path, path, sizeof(streams[nstreams].path) - 1);
        if (wlog) {
            fprintf(wlog, "O %d %s %s\n", streams[nstreams].id, mode, path);
            __real_fflush(wlog);
        }
        nstreams++;
    }
    return f;
}

int
__wrap_fclose(FILE *f)
{
    int i = find(f);
    if (i < 0)
        return __real_fclose(f);
    int id   = streams[i].id;
    int fail = tick(K_FCLOSE);
    if (fail) {
        int e = errno;
        /* what ENOSPC/EIO at close time does: pending buffered output is lost */
        __fpurge(f);
        errno = e;
    }
    if (wlog) {
        fprintf(wlog, "C %d %d\n", id, fail);
        __real_fflush(wlog);
    }
    streams[i] = streams[--nstreams];
    int e = errno;
    int r = __real_fclose(f);
    if (fail) {
        errno = e;
        return EOF;
    }
    return r;
}

size_t
__wrap_fread(void *p, size_t sz, size_t n, FILE *f)
{
    int i = find(f);
    if (i < 0)
        return __real_fread(p, sz, n, f);
    if (tick(K_FREAD)) {
        if (fault_mode == 1 && sz * n > 1) {
            int    e = errno;
            size_t r = __real_fread(p, 1, (sz * n) / 2, f);
            errno    = e;
            return sz ? r / sz : 0;
        }
        return 0;
    }
    return __real_fread(p, sz, n, f);
}

size_t
__wrap_fwrite(const void *p, size_t sz, size_t n, FILE *f)
{
    int i = find(f);
    if (i < 0)
        return __real_fwrite(p, sz, n, f);
    int    fail  = tick(K_FWRITE);
    size_t bytes = sz * n;
    if (fail)
        bytes = (fault_mode == 1) ? bytes / 2 : 0;
    if (wlog && bytes > 0) {
        long off = __real_ftell(f);
        fprintf(wlog, "W %d %ld %zu ", streams[i].id, off, bytes);
        for (size_t k = 0; k < bytes; k++)
            fprintf(wlog, "%02x", ((const unsigned char *)p)[k]);
        fputc('\n', wlog);
        __real_fflush(wlog);
    }
    if (fail) {
        int e = errno;
        size_t r = bytes ? __real_fwrite(p, 1, bytes, f) : 0;
        errno = e;
        return sz ? r / sz : 0;
    }
    return __real_fwrite(p, sz, n, f);
}

int
__wrap_fseek(FILE *f, long off, int whence)
{
    int i = find(f);
    if (i < 0)
        return __real_fseek(f, off, whence);
    if (tick(K_FSEEK))
        return -1;
    return __real_fseek(f, off, whence);
}

long
__wrap_ftell(FILE *f)
{
    int i = find(f);
    if (i < 0)
        return __real_ftell(f);
    if (tick(K_FTELL))
        return -1;
    return __real_ftell(f);
}

int
__wrap_fflush(FILE *f)
{
    int i = (f ? find(f) : -1);
    if (i < 0)
        return __real_fflush(f);
    int fail = tick(K_FFLUSH);
    if (wlog) {
        fprintf(wlog, "F %d %d\n", streams[i].id, fail);
        __real_fflush(wlog);
    }
    if (fail)
        return EOF;
    return __real_fflush(f);
}
