/* Small C helpers callable by name from h4x programs (struct layout self-description etc.). */
#include <stdint.h>
#include <stddef.h>
#include <string.h>
#include "hdf.h"
#include "mfhdf.h"
#include "hcomp.h"

/* Writes sizes/offsets of the public unions/structs the Python side packs by hand, so the
 * Python side can assert its layout assumptions against the compiled headers. */
int32
hx_layout(int32 *o, int32 n)
{
    int32 v[] = {
        (int32)sizeof(comp_info),
        (int32)offsetof(comp_info, nbit.nt),
        (int32)offsetof(comp_info, nbit.sign_ext),
        (int32)offsetof(comp_info, nbit.fill_one),
        (int32)offsetof(comp_info, nbit.start_bit),
        (int32)offsetof(comp_info, nbit.bit_len),
        (int32)offsetof(comp_info, skphuff.skp_size),
        (int32)offsetof(comp_info, deflate.level),
        (int32)sizeof(HDF_CHUNK_DEF),
        (int32)offsetof(HDF_CHUNK_DEF, chunk_lengths),
        (int32)offsetof(HDF_CHUNK_DEF, comp.chunk_lengths),
        (int32)offsetof(HDF_CHUNK_DEF, comp.comp_type),
        (int32)offsetof(HDF_CHUNK_DEF, comp.model_type),
        (int32)offsetof(HDF_CHUNK_DEF, comp.cinfo),
        (int32)offsetof(HDF_CHUNK_DEF, comp.minfo),
        (int32)offsetof(HDF_CHUNK_DEF, nbit.chunk_lengths),
        (int32)offsetof(HDF_CHUNK_DEF, nbit.start_bit),
        (int32)offsetof(HDF_CHUNK_DEF, nbit.bit_len),
        (int32)offsetof(HDF_CHUNK_DEF, nbit.sign_ext),
        (int32)offsetof(HDF_CHUNK_DEF, nbit.fill_one),
        (int32)sizeof(model_info),
        (int32)MAX_VAR_DIMS,
    };
    int32 k = (int32)(sizeof(v) / sizeof(v[0]));
    for (int32 i = 0; i < k && i < n; i++)
        o[i] = v[i];
    return k;
}

/* Enumerate with Hfind until it fails (or max entries); each entry is 4 int32: tag, ref, offset, length.
 * Returns the number of entries found (may exceed max: then only max are stored), or -2 if the
 * enumeration did not terminate within `limit` steps. */
int32
hx_find_all(int32 fid, int32 stag, int32 sref, int32 dir, int32 *o, int32 max, int32 limit)
{
    uint16 ft = 0, fr = 0;
    int32  off = 0, len = 0, n = 0;
    while (Hfind(fid, (uint16)stag, (uint16)sref, &ft, &fr, &off, &len, dir) != FAIL) {
        if (n < max) {
            o[4 * n + 0] = ft;
            o[4 * n + 1] = fr;
            o[4 * n + 2] = off;
            o[4 * n + 3] = len;
        }
        n++;
        if (n > limit)
            return -2;
    }
    return n;
}

/* Reserve (Hstartwrite, nothing written) an element that ends exactly at file offset 2^31 + delta.
 * The current end of the file is found by writing a 1-byte element first.
 * Returns 1 if the reservation was accepted, 0 if it was refused, < -1 on harness problems. */
int32
hx_reserve_to_boundary(int32 fid, int32 tag, int32 ref, int32 delta)
{
    uint8  one = 0x5a;
    int32  off = 0, len = 0, aid;
    int64_t end, want;
    if (Hputelement(fid, (uint16)tag, (uint16)(ref + 1), &one, 1) != 1)
        return -2;
    aid = Hstartread(fid, (uint16)tag, (uint16)(ref + 1));
    if (aid == FAIL)
        return -3;
    if (Hinquire(aid, NULL, NULL, NULL, &len, &off, NULL, NULL, NULL) == FAIL) {
        Hendaccess(aid);
        return -4;
    }
    Hendaccess(aid);
    end  = (int64_t)off + len;
    want = ((int64_t)1 << 31) + delta - end;
    if (want <= 0 || want > 0x7fffffff)
        return -5;
    aid = Hstartwrite(fid, (uint16)tag, (uint16)ref, (int32)want);
    if (aid == FAIL)
        return 0;
    Hendaccess(aid);
    return 1;
}

/* Enumerate the data elements matching tag/ref (0 = wildcard) by Hstartread + Hnextread(DF_CURRENT).
 * Stores (tag, ref, offset, length) as reported by Hinquire; returns the count, -2 if not terminating. */
int32
hx_nextread_all(int32 fid, int32 stag, int32 sref, int32 *o, int32 max, int32 limit)
{
    int32 aid = Hstartread(fid, (uint16)stag, (uint16)sref);
    int32 n   = 0;
    if (aid == FAIL)
        return 0;
    for (;;) {
        uint16 t = 0, r = 0;
        int32  len = 0, off = 0;
        if (Hinquire(aid, NULL, &t, &r, &len, &off, NULL, NULL, NULL) == FAIL) {
            Hendaccess(aid);
            return -3;
        }
        if (n < max) {
            o[4 * n + 0] = t;
            o[4 * n + 1] = r;
            o[4 * n + 2] = off;
            o[4 * n + 3] = len;
        }
        n++;
        if (n > limit) {
            Hendaccess(aid);
            return -2;
        }
        if (Hnextread(aid, (uint16)stag, (uint16)sref, DF_CURRENT) == FAIL)
            break;
    }
    Hendaccess(aid);
    return n;
}

/* Hputelement unless the freshly allocated ref is 0 ("no ref free"): every real caller checks
 * the allocator's result before using it.  Returns -3 when skipped. */
int32
hx_put_if_ref(int32 fid, int32 tag, int32 ref, const uint8 *data, int32 len)
{
    if (ref == 0)
        return -3;
    return Hputelement(fid, (uint16)tag, (uint16)ref, data, len);
}

/* SDsetchunk/GRsetchunk take the 176-byte HDF_CHUNK_DEF union by value: wrappers taking a pointer */
int32
hx_SDsetchunk(int32 sdsid, HDF_CHUNK_DEF *def, int32 flags)
{
    return SDsetchunk(sdsid, *def, flags);
}

int32
hx_GRsetchunk(int32 riid, HDF_CHUNK_DEF *def, int32 flags)
{
    return GRsetchunk(riid, *def, flags);
}

/* VSfpack round trip: unpack a fully interlaced buffer of all listed fields into exact-size per-field
 * buffers, pack them again into `out`.  Returns 0, or a negative code naming the failing step. */
int32
hx_fpack_roundtrip(int32 vs, const char *fields, uint8 *packed, int32 bufsz, int32 nrecs, int32 nfields, uint8 *out)
{
    void *ptrs[64];
    char  names[4096];
    int32 ret = 0;
    int   k   = 0;
    if (nfields > 64 || strlen(fields) >= sizeof names)
        return -10;
    strcpy(names, fields);
    for (char *tok = strtok(names, ","); tok && k < nfields; tok = strtok(NULL, ","), k++) {
        int32 sz = VSsizeof(vs, tok);
        if (sz <= 0)
            return -11;
        ptrs[k] = malloc((size_t)sz * (size_t)nrecs);
        memset(ptrs[k], 0x5A, (size_t)sz * (size_t)nrecs);
    }
    if (k != nfields)
        return -12;
    if (VSfpack(vs, _HDF_VSUNPACK, fields, packed, bufsz, nrecs, fields, ptrs) == FAIL)
        ret = -13;
    else if (VSfpack(vs, _HDF_VSPACK, fields, out, bufsz, nrecs, fields, ptrs) == FAIL)
        ret = -14;
    for (int i = 0; i < k; i++)
        free(ptrs[i]);
    return ret;
}

/* iterate Vgetid / VSgetid over the whole file */
int32
hx_vgetid_all(int32 f, int32 *o, int32 max)
{
    int32 id = -1, n = 0;
    while ((id = Vgetid(f, id)) != FAIL) {
        if (n < max)
            o[n] = id;
        if (++n > 100000)
            return -2;
    }
    return n;
}

int32
hx_vsgetid_all(int32 f, int32 *o, int32 max)
{
    int32 id = -1, n = 0;
    while ((id = VSgetid(f, id)) != FAIL) {
        if (n < max)
            o[n] = id;
        if (++n > 100000)
            return -2;
    }
    return n;
}

/* delete the member at position `pos` of a vgroup (looked up with Vgettagref); -5 when there is none */
int32
hx_vdelete_at(int32 vkey, int32 pos)
{
    int32 tag, ref;
    if (pos >= Vntagrefs(vkey) || Vgettagref(vkey, pos, &tag, &ref) == FAIL)
        return -5;
    return Vdeletetagref(vkey, tag, ref);
}

/* ---- annotation helpers (C11) ---- */
/* list annotations of `type` for an object (or, for file types, all of that type): each entry 3 int32:
 * ann_tag, ann_ref, length.  Returns ANnumann's count (entries stored up to max), or a negative step code. */
int32
hx_an_list(int32 an_id, int32 type, int32 tag, int32 ref, int32 *o, int32 max)
{
    int32 n = ANnumann(an_id, (ann_type)type, (uint16)tag, (uint16)ref);
    if (n == FAIL)
        return -1;
    if (n == 0)
        return 0;
    int32 *ids = (int32 *)malloc((size_t)n * sizeof(int32)); /* exact size: overruns are visible */
    int32  m   = ANannlist(an_id, (ann_type)type, (uint16)tag, (uint16)ref, ids);
    if (m != n) {
        free(ids);
        return -20 - (m == FAIL ? 0 : 1);
    }
    for (int32 i = 0; i < n && i < max; i++) {
        uint16 at = 0, ar = 0;
        if (ANid2tagref(ids[i], &at, &ar) == FAIL) {
            free(ids);
            return -30;
        }
        o[3 * i]     = at;
        o[3 * i + 1] = ar;
        o[3 * i + 2] = ANannlen(ids[i]);
        ANendaccess(ids[i]);
    }
    free(ids);
    return n;
}

/* enumerate all annotations of a type through ANselect: entries of 5 int32:
 * ann_tag, ann_ref, length, and the tag/ref reported by ANget_tagref for the same index. */
int32
hx_an_all(int32 an_id, int32 type, int32 *o, int32 max)
{
    int32 c[4];
    if (ANfileinfo(an_id, &c[0], &c[1], &c[2], &c[3]) == FAIL)
        return -1;
    int32 n = type == AN_FILE_LABEL ? c[0] : type == AN_FILE_DESC ? c[1] : type == AN_DATA_LABEL ? c[2] : c[3];
    for (int32 i = 0; i < n && i < max; i++) {
        int32  id = ANselect(an_id, i, (ann_type)type);
        uint16 at = 0, ar = 0, gt = 0, gr = 0;
        if (id == FAIL)
            return -10;
        if (ANid2tagref(id, &at, &ar) == FAIL)
            return -11;
        if (ANget_tagref(an_id, i, (ann_type)type, &gt, &gr) == FAIL)
            return -12;
        o[5 * i]     = at;
        o[5 * i + 1] = ar;
        o[5 * i + 2] = ANannlen(id);
        o[5 * i + 3] = gt;
        o[5 * i + 4] = gr;
        ANendaccess(id);
    }
    return n;
}

/* read one annotation identified by its own tag/ref into an exact-size buffer */
int32
hx_an_read(int32 an_id, int32 ann_tag, int32 ann_ref, uint8 *out, int32 maxlen)
{
    int32 id = ANtagref2id(an_id, (uint16)ann_tag, (uint16)ann_ref);
    if (id == FAIL)
        return -10;
    int32 len = ANannlen(id);
    if (len == FAIL) {
        ANendaccess(id);
        return -11;
    }
    if (ANreadann(id, (char *)out, maxlen) == FAIL) {
        ANendaccess(id);
        return -12;
    }
    ANendaccess(id);
    return len;
}

/* rewrite an existing annotation identified by its own tag/ref */
int32
hx_an_rewrite(int32 an_id, int32 ann_tag, int32 ann_ref, const char *text, int32 len)
{
    int32 id = ANtagref2id(an_id, (uint16)ann_tag, (uint16)ann_ref);
    if (id == FAIL)
        return -10;
    int32 r = ANwriteann(id, text, len);
    ANendaccess(id);
    return r;
}

/* attach (read) to a named vdata / vgroup of a file, for handle-safety programs (C13) */
int32
hx_vsattach_named(int32 f, const char *name)
{
    int32 ref = VSfind(f, name);
    if (ref <= 0)
        return FAIL;
    return VSattach(f, ref, "r");
}

int32
hx_vattach_named(int32 f, const char *name)
{
    int32 ref = Vfind(f, name);
    if (ref <= 0)
        return FAIL;
    return Vattach(f, ref, "r");
}

/* start write access on an existing element and end it again (modifies nothing): tells whether the
 * file handle really has write access */
int32
hx_probe_write_access(int32 f, int32 tag, int32 ref)
{
    int32 aid = Hstartaccess(f, (uint16)tag, (uint16)ref, DFACC_WRITE);
    if (aid == FAIL)
        return FAIL;
    return Hendaccess(aid);
}

/* netCDF-layer error reporting switch (NC_VERBOSE = 2 prints the reason of a failure to stderr) */
extern int H4_ncopts;
int32
hx_set_ncopts(int32 v)
{
    int32 old = H4_ncopts;
    H4_ncopts = v;
    return old;
}

/* Enumerate the file labels (islabel) or file descriptions with the documented DFAN loop: length, then text, first
 * call with isfirst = 1.  Stores (length, byte sum) per annotation; returns the count, -2 if the loop does not end
 * within limit iterations, -3 if a text cannot be read after its length was reported. */
int32
hx_dfan_file_enum(int32 fid, int32 islabel, int32 *o, int32 max, int32 limit)
{
    int32 n = 0;
    for (;;) {
        int   first = (n == 0);
        int32 len   = islabel ? DFANgetfidlen(fid, first) : DFANgetfdslen(fid, first);
        char *buf;
        int32 got, sum = 0, i;
        if (len < 0)
            break;
        buf = (char *)calloc((size_t)len + 2, 1);
        got = islabel ? DFANgetfid(fid, buf, len + 1, first) : DFANgetfds(fid, buf, len + 1, first);
        if (got < 0) {
            free(buf);
            return -3;
        }
        for (i = 0; i < len; i++)
            sum = (sum + (unsigned char)buf[i] * (i % 7 + 1)) & 0x7fffffff;
        free(buf);
        if (n < max) {
            o[2 * n]     = len;
            o[2 * n + 1] = sum;
        }
        n++;
        if (n > limit)
            return -2;
    }
    return n;
}
