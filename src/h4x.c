/*
 * h4x — generic executor for HDF4 API programs (see DESIGN.md §2.2).
 *
 * Reads a line-oriented program on stdin (or from the file named by argv[1]), resolves API
 * functions by name with dlsym() in its own image (the whole sanitised library is linked in
 * with --whole-archive -rdynamic), calls them through a universal x86-64 SysV prototype
 * and prints one result line per operation.  All API knowledge (signatures, struct
 * layouts, models) lives on the Python side; this file knows nothing about HDF4.
 *
 * Line grammar (tokens separated by single spaces):
 *   [=name] <rt> <func> <arg>...        call;  rt: i int32, u uint16, q int64, v void, s char*
 *   !mark <text>                        marker in the stdio write log
 *   !counts                             print stdio call counters
 *   !copy <src> <dst>                   copy a file with unwrapped stdio
 *   !repeat <n> / !end                  repeat the enclosed lines n times, $i = 0..n-1;
 *                                       prints one summary line P <n> <nfail> <firstret> <lastret>
 *   !set <name> <intexpr>
 * Args:
 *   123 | -1 | 0x10          integer literal
 *   $v | $v+3 | $v-3         variable (bound by =name or by o:N=name) plus optional offset
 *   s:<pct-escaped>          C string (exact-size heap copy)
 *   x:<hex>                  input buffer (exact-size heap copy; ASan red zones at both ends)
 *   o:<N>[=name]             output buffer of N bytes pre-filled with 0xA5, dumped after the call;
 *                            =name binds its first 4 (N>=4, int32) or 2 (N==2, uint16) bytes
 *   io:<hex>[=name]          in/out buffer
 *   n                        NULL pointer
 *   d:<float>                double argument (passed in the next xmm register)
 *   os:<N>                   output char buffer dumped only up to the first NUL (pct-escaped)
 * Result lines:
 *   R <lineno> <ret> [<hex-or-string> ...]
 *   E <lineno> <message>                harness-level error (exit code 3)
 */
#define _GNU_SOURCE
#include <dlfcn.h>
#include <sys/resource.h>
#include <errno.h>
#include <signal.h>
#include <stdint.h>
#include <stdio.h>
#include <stdlib.h>
#include <string.h>
#include <unistd.h>

extern void  wrapio_mark(const char *text);
extern void  wrapio_counts(FILE *out);
extern void  wrapio_init(void);
extern FILE *__real_fopen(const char *, const char *);
extern int   __real_fclose(FILE *);
extern size_t __real_fread(void *, size_t, size_t, FILE *);
extern size_t __real_fwrite(const void *, size_t, size_t, FILE *);

typedef intptr_t (*ufn_t)(intptr_t, intptr_t, intptr_t, intptr_t, intptr_t, intptr_t, intptr_t, intptr_t,
                          intptr_t, intptr_t, intptr_t, intptr_t, double, double, double, double, double,
                          double);

#define MAXVARS 4096
#define MAXARGS 12
#define MAXDBL  6

typedef struct {
    char    name[48];
    int64_t val;
} var_t;
static var_t vars[MAXVARS];
static int   nvars = 0;

static FILE *out;

static void
die(int lineno, const char *msg, const char *detail)
{
    fprintf(out, "E %d %s %s\n", lineno, msg, detail ? detail : "");
    fflush(out);
    _exit(3);
}

static void
setvar(const char *name, int64_t v)
{
    for (int i = 0; i < nvars; i++)
        if (strcmp(vars[i].name, name) == 0) {
            vars[i].val = v;
            return;
        }
    if (nvars >= MAXVARS)
        die(0, "too many variables", name);
    strncpy(vars[nvars].name, name, sizeof(vars[nvars].name) - 1);
    vars[nvars].val = v;
    nvars++;
}

static int
getvar(const char *name, int64_t *v)
{
    for (int i = 0; i < nvars; i++)
        if (strcmp(vars[i].name, name) == 0) {
            *v = vars[i].val;
            return 1;
        }
    return 0;
}

static int
hexval(int c)
{
    if (c >= '0' && c <= '9')
        return c - '0';
    if (c >= 'a' && c <= 'f')
        return c - 'a' + 10;
    if (c >= 'A' && c <= 'F')
        return c - 'A' + 10;
    return -1;
}

/* integer expression: literal | $v | $v+N | $v-N */
static int64_t
intexpr(const char *t, int lineno)
{
    if (t[0] == '$') {
        char        nm[48];
        size_t      k = 0;
        const char *p = t + 1;
        while (*p && *p != '+' && *p != '-' && k < sizeof(nm) - 1)
            nm[k++] = *p++;
        nm[k] = 0;
        int64_t v;
        if (!getvar(nm, &v))
            die(lineno, "unbound variable", nm);
        if (*p)
            v += strtoll(p, NULL, 0);
        return v;
    }
    char   *end;
    int64_t v = strtoll(t, &end, 0);
    if (*end)
        die(lineno, "bad integer", t);
    return v;
}

typedef struct {
    int            kind; /* 0 none, 1 out hex, 2 out string */
    unsigned char *p;
    size_t         n;
    char           bind[48];
} outbuf_t;

static unsigned char *
exact_alloc(size_t n)
{
    /* exact-size allocation so that ASan red zones sit directly at both ends */
    unsigned char *p = (unsigned char *)malloc(n ? n : 1);
    if (!p)
        die(0, "oom", NULL);
    return p;
}

static void
print_pct(FILE *f, const unsigned char *s, size_t n)
{
    if (n == 0)
        fputs("%", f); /* explicit empty marker */
    for (size_t i = 0; i < n; i++) {
        unsigned char c = s[i];
        if (c > 0x20 && c < 0x7f && c != '%')
            fputc(c, f);
        else
            fprintf(f, "%%%02x", c);
    }
}

static void
exec_call(char *line, int lineno, int quiet, int64_t *retout)
{
    char *tok[MAXARGS + 8];
    int   nt = 0;
    for (char *p = strtok(line, " "); p && nt < MAXARGS + 8; p = strtok(NULL, " "))
        tok[nt++] = p;
    int         ti   = 0;
    const char *bind = NULL;
    if (nt > 0 && tok[0][0] == '=') {
        bind = tok[0] + 1;
        ti++;
    }
    if (nt - ti < 2)
        die(lineno, "short line", NULL);
    char        rt  = tok[ti++][0];
    const char *fn  = tok[ti++];
    void       *sym = dlsym(RTLD_DEFAULT, fn);
    if (!sym)
        die(lineno, "no such function", fn);

    intptr_t ia[MAXARGS];
    double   da[MAXDBL];
    outbuf_t ob[MAXARGS];
    void    *tofree[MAXARGS];
    int      ni = 0, nd = 0, nob = 0, nfree = 0;
    memset(ia, 0, sizeof ia);
    memset(da, 0, sizeof da);

    for (; ti < nt; ti++) {
        char *t = tok[ti];
        if (ni >= MAXARGS)
            die(lineno, "too many args", fn);
        if (t[0] == 'n' && t[1] == 0) {
            ia[ni++] = 0;
        }
        else if (t[0] == 's' && t[1] == ':') {
            const char    *s = t + 2;
            size_t         L = strlen(s), k = 0;
            unsigned char *b = exact_alloc(L + 1);
            for (size_t i = 0; i < L; i++) {
                if (s[i] == '%' && i + 2 < L + 1 && hexval(s[i + 1]) >= 0 && hexval(s[i + 2]) >= 0) {
                    b[k++] = (unsigned char)(hexval(s[i + 1]) * 16 + hexval(s[i + 2]));
                    i += 2;
                }
                else if (s[i] == '%') { /* lone % = empty marker */
                }
                else
                    b[k++] = (unsigned char)s[i];
            }
            /* shrink to exact size */
            unsigned char *e = exact_alloc(k + 1);
            memcpy(e, b, k);
            e[k] = 0;
            free(b);
            tofree[nfree++] = e;
            ia[ni++]        = (intptr_t)e;
        }
        else if ((t[0] == 'x' && t[1] == ':') || (t[0] == 'i' && t[1] == 'o' && t[2] == ':')) {
            int         io = (t[0] == 'i');
            const char *h  = t + (io ? 3 : 2);
            char       *eq = strchr(h, '=');
            if (eq)
                *eq = 0;
            size_t L = strlen(h);
            if (L % 2)
                die(lineno, "odd hex", fn);
            unsigned char *b = exact_alloc(L / 2);
            for (size_t i = 0; i < L / 2; i++) {
                int a = hexval(h[2 * i]), c = hexval(h[2 * i + 1]);
                if (a < 0 || c < 0)
                    die(lineno, "bad hex", fn);
                b[i] = (unsigned char)(a * 16 + c);
            }
            tofree[nfree++] = b;
            ia[ni++]        = (intptr_t)b;
            if (io) {
                ob[nob].kind = 1;
                ob[nob].p    = b;
                ob[nob].n    = L / 2;
                ob[nob].bind[0] = 0;
                if (eq)
                    strncpy(ob[nob].bind, eq + 1, sizeof(ob[nob].bind) - 1);
                nob++;
            }
        }
        else if (t[0] == 'o' && (t[1] == ':' || (t[1] == 's' && t[2] == ':'))) {
            int   str = (t[1] == 's');
            char *num = t + (str ? 3 : 2);
            char *eq  = strchr(num, '=');
            if (eq)
                *eq = 0;
            size_t         n = (size_t)strtoull(num, NULL, 0);
            unsigned char *b = exact_alloc(n);
            memset(b, 0xA5, n ? n : 1);
            tofree[nfree++] = b;
            ia[ni++]        = (intptr_t)b;
            ob[nob].kind    = str ? 2 : 1;
            ob[nob].p       = b;
            ob[nob].n       = n;
            ob[nob].bind[0] = 0;
            if (eq)
                strncpy(ob[nob].bind, eq + 1, sizeof(ob[nob].bind) - 1);
            nob++;
        }
        else if (t[0] == 'z' && t[1] == ':') { /* zero-filled input buffer of N bytes (lazily mapped) */
            size_t n = (size_t)strtoull(t + 2, NULL, 0);
            void  *b = calloc(n ? n : 1, 1);
            if (!b)
                die(lineno, "calloc failed", fn);
            tofree[nfree++] = b;
            ia[ni++]        = (intptr_t)b;
        }
        else if (t[0] == 'd' && t[1] == ':') {
            if (nd >= MAXDBL)
                die(lineno, "too many doubles", fn);
            da[nd++] = strtod(t + 2, NULL);
        }
        else {
            ia[ni++] = (intptr_t)intexpr(t, lineno);
        }
    }

    intptr_t r = ((ufn_t)sym)(ia[0], ia[1], ia[2], ia[3], ia[4], ia[5], ia[6], ia[7], ia[8], ia[9], ia[10],
                              ia[11], da[0], da[1], da[2], da[3], da[4], da[5]);
    int64_t  rv;
    switch (rt) {
        case 'i':
            rv = (int32_t)r;
            break;
        case 'u':
            rv = (uint16_t)r;
            break;
        case 'b':
            rv = (int8_t)r;
            break;
        case 'q':
        case 's':
            rv = (int64_t)r;
            break;
        default:
            rv = 0;
    }
    if (bind)
        setvar(bind, rv);
    for (int k = 0; k < nob; k++) {
        if (ob[k].bind[0]) {
            if (ob[k].n >= 4) {
                int32_t v;
                memcpy(&v, ob[k].p, 4);
                setvar(ob[k].bind, v);
            }
            else if (ob[k].n == 2) {
                uint16_t v;
                memcpy(&v, ob[k].p, 2);
                setvar(ob[k].bind, v);
            }
        }
    }
    if (retout)
        *retout = rv;
    if (!quiet) {
        if (rt == 's') {
            fprintf(out, "R %d ", lineno);
            if (r == 0)
                fputs("NULL", out);
            else {
                fputs("S:", out);
                print_pct(out, (const unsigned char *)r, strlen((const char *)r));
            }
        }
        else
            fprintf(out, "R %d %lld", lineno, (long long)rv);
        for (int k = 0; k < nob; k++) {
            fputc(' ', out);
            if (ob[k].kind == 2) {
                size_t L = 0;
                while (L < ob[k].n && ob[k].p[L])
                    L++;
                fputs(L < ob[k].n ? "S:" : "U:", out); /* U: = unterminated within N */
                print_pct(out, ob[k].p, L);
            }
            else {
                if (ob[k].n == 0)
                    fputc('-', out);
                for (size_t i = 0; i < ob[k].n; i++)
                    fprintf(out, "%02x", ob[k].p[i]);
            }
        }
        fputc('\n', out);
        fflush(out);
    }
    for (int k = 0; k < nfree; k++)
        free(tofree[k]);
}

static void
copy_file(const char *src, const char *dst, int lineno)
{
    FILE *a = __real_fopen(src, "rb");
    if (!a) {
        fprintf(out, "R %d -1\n", lineno);
        return;
    }
    FILE *b = __real_fopen(dst, "wb");
    if (!b)
        die(lineno, "cannot create", dst);
    char   buf[65536];
    size_t n;
    long   tot = 0;
    while ((n = __real_fread(buf, 1, sizeof buf, a)) > 0) {
        __real_fwrite(buf, 1, n, b);
        tot += (long)n;
    }
    __real_fclose(a);
    __real_fclose(b);
    fprintf(out, "R %d %ld\n", lineno, tot);
}

static char *
read_all(FILE *f, size_t *len)
{
    size_t cap = 1 << 16, n = 0;
    char  *b   = malloc(cap);
    for (;;) {
        size_t k = __real_fread(b + n, 1, cap - n - 1, f);
        if (k == 0)
            break;
        n += k;
        if (cap - n < 4096) {
            cap *= 2;
            b = realloc(b, cap);
        }
    }
    b[n] = 0;
    *len = n;
    return b;
}

int
main(int argc, char **argv)
{
    out = stdout;
    setvbuf(stdout, NULL, _IOFBF, 1 << 16);
    const char *to = getenv("H4X_TIMEOUT");
    alarm(to ? (unsigned)atoi(to) : 60);
    wrapio_init();

    FILE *in = stdin;
    if (argc > 1) {
        in = __real_fopen(argv[1], "rb");
        if (!in) {
            fprintf(stderr, "h4x: cannot open %s\n", argv[1]);
            return 3;
        }
    }
    size_t len;
    char  *prog = read_all(in, &len);

    /* split into lines */
    size_t nl  = 0, cap = 1024;
    char **lines = malloc(cap * sizeof(char *));
    for (char *p = prog; *p;) {
        char *e = strchr(p, '\n');
        if (e)
            *e = 0;
        if (nl >= cap) {
            cap *= 2;
            lines = realloc(lines, cap * sizeof(char *));
        }
        lines[nl++] = p;
        if (!e)
            break;
        p = e + 1;
    }

    for (size_t li = 0; li < nl; li++) {
        char *line   = lines[li];
        int   lineno = (int)li + 1;
        if (line[0] == 0 || line[0] == '#')
            continue;
        if (line[0] == '!') {
            if (strncmp(line, "!mark ", 6) == 0) {
                wrapio_mark(line + 6);
            }
            else if (strcmp(line, "!counts") == 0) {
                fprintf(out, "C %d ", lineno);
                wrapio_counts(out);
                fputc('\n', out);
                fflush(out);
            }
            else if (strncmp(line, "!copy ", 6) == 0) {
                char *src = line + 6;
                char *sp  = strchr(src, ' ');
                if (!sp)
                    die(lineno, "bad !copy", NULL);
                *sp = 0;
                copy_file(src, sp + 1, lineno);
                fflush(out);
            }
            else if (strncmp(line, "!set ", 5) == 0) {
                char *nm = line + 5;
                char *sp = strchr(nm, ' ');
                if (!sp)
                    die(lineno, "bad !set", NULL);
                *sp = 0;
                setvar(nm, intexpr(sp + 1, lineno));
            }
            else if (strncmp(line, "!repeat ", 8) == 0) {
                long   n     = strtol(line + 8, NULL, 0);
                size_t start = li + 1, end = start;
                while (end < nl && strcmp(lines[end], "!end") != 0)
                    end++;
                if (end >= nl)
                    die(lineno, "!repeat without !end", NULL);
                long    nfail = 0, firstfail = -1;
                int64_t first = 0, last = 0;
                for (long it = 0; it < n; it++) {
                    setvar("i", it);
                    for (size_t k = start; k < end; k++) {
                        if (lines[k][0] == 0 || lines[k][0] == '#' || lines[k][0] == '!')
                            continue;
                        char *dup = strdup(lines[k]);
                        int64_t rv = 0;
                        exec_call(dup, (int)k + 1, 1, &rv);
                        free(dup);
                        if (rv == -1) {
                            nfail++;
                            if (firstfail < 0)
                                firstfail = it;
                        }
                        if (it == 0 && k == start)
                            first = rv;
                        last = rv;
                    }
                }
                fprintf(out, "P %d %ld %ld %lld %lld %ld\n", lineno, n, nfail, (long long)first, (long long)last,
                        firstfail);
                fflush(out);
                li = end;
            }
            else if (strncmp(line, "!rlimit nofile ", 15) == 0) {
                struct rlimit rl;
                rl.rlim_cur = rl.rlim_max = (rlim_t)strtol(line + 15, NULL, 0);
                if (setrlimit(RLIMIT_NOFILE, &rl) != 0)
                    die(lineno, "setrlimit failed", NULL);
            }
            else if (strcmp(line, "!end") == 0) {
            }
            else
                die(lineno, "unknown directive", line);
            continue;
        }
        exec_call(line, lineno, 0, NULL);
    }
    fprintf(out, "Z done\n");
    fflush(out);
    /* no library teardown: HPend is registered with atexit by the library itself */
    return 0;
}
