/* hx_describe: writes a canonical, reference-free description of everything the library's API presents for a
 * file (datasets, images, vdatas, vgroups, attributes, palettes, annotations, layouts), one object per line.
 * Used as the API-level content comparator of C18/C19 (independent of hdiff and of hdp).
 *
 * Line grammar (fields separated by one space, strings %-escaped, bytes as hex):
 *   SDGATTR name nt count hex
 *   SDS name rank dims nt rec comp chunk empty hex          (chunk = "-" or "flags:d1xd2")
 *   SDSATTR sdsname idx name nt count hex
 *   SDSDIM sdsname i name size nt hex
 *   DIMATTR sdsname i name nt count hex
 *   GRGATTR name nt count hex
 *   RI name xdim ydim ncomp nt comp chunk hex lut
 *   RIATTR riname name nt count hex
 *   VS name class nrec fields interlace hex                 (fields = n:type:order,...)
 *   VSATTR vsname findex name nt count hex
 *   VG name class members                                   (members = kind:name,... in order)
 *   VGATTR vgname name nt count hex
 *   AN kind target text                                     (kind flabel|fdesc|olabel|odesc)
 */
#include <stdio.h>
#include <stdlib.h>
#include <string.h>
#include "hdf.h"
#include "mfhdf.h"
#include "hcomp.h"

static void
pstr(FILE *o, const char *s)
{
    if (!s || !*s) {
        fputc('%', o);
        return;
    }
    for (const unsigned char *p = (const unsigned char *)s; *p; p++) {
        if (*p > 0x20 && *p < 0x7f && *p != '%')
            fputc(*p, o);
        else
            fprintf(o, "%%%02x", *p);
    }
}

static void
phex(FILE *o, const void *b, size_t n)
{
    const unsigned char *p = b;
    if (n == 0) {
        fputc('-', o);
        return;
    }
    for (size_t i = 0; i < n; i++)
        fprintf(o, "%02x", p[i]);
}

static size_t
ntsize(int32 nt)
{
    int s = DFKNTsize((nt | DFNT_NATIVE) & (~DFNT_LITEND));
    return s > 0 ? (size_t)s : 1;
}

#define MAXB (8u << 20)

static void
attr_line(FILE *o, const char *kind, const char *owner, int idx, int useidx, const char *name, int32 nt, int32 count,
          const void *val)
{
    fprintf(o, "%s ", kind);
    if (owner) {
        pstr(o, owner);
        fputc(' ', o);
    }
    if (useidx)
        fprintf(o, "%d ", idx);
    pstr(o, name);
    fprintf(o, " %d %d ", (int)nt, (int)count);
    phex(o, val, ntsize(nt) * (size_t)(count > 0 ? count : 0));
    fputc('\n', o);
}

/* name of the object a tag/ref designates, for vgroup member lists and annotation targets */
static void
member_name(FILE *o, int32 f, int32 sd, int32 gr, int32 tag, int32 ref)
{
    char name[H4_MAX_NC_NAME * 2 + 8];
    if (tag == DFTAG_VH || tag == DFTAG_VS) {
        int32 v = VSattach(f, ref, "r");
        if (v != FAIL) {
            char  vsname[VSNAMELENMAX + 1] = "";
            char  cls[VSNAMELENMAX + 1]    = "";
            VSgetname(v, vsname);
            VSgetclass(v, cls);
            VSdetach(v);
            fprintf(o, "vs:");
            pstr(o, vsname);
            return;
        }
    }
    else if (tag == DFTAG_VG) {
        int32 g = Vattach(f, ref, "r");
        if (g != FAIL) {
            uint16 n = 0;
            char  *nm;
            char   cls[300] = "";
            Vgetnamelen(g, &n);
            nm = calloc((size_t)n + 2, 1);
            Vgetname(g, nm);
            Vgetclass(g, cls);
            /* the vgroups that represent datasets and images are named by what they represent */
            if (!strcmp(cls, "Var0.0"))
                fprintf(o, "sds:");
            else if (!strcmp(cls, "RI0.0"))
                fprintf(o, "ri:");
            else
                fprintf(o, "vg:");
            pstr(o, nm);
            free(nm);
            Vdetach(g);
            return;
        }
    }
    else if (tag == DFTAG_NDG || tag == DFTAG_SDG || tag == DFTAG_SD) {
        int32 idx = (sd != FAIL) ? SDreftoindex(sd, ref) : FAIL;
        if (idx != FAIL) {
            int32 s = SDselect(sd, idx), rank, dims[H4_MAX_VAR_DIMS], nt, na;
            if (s != FAIL && SDgetinfo(s, name, &rank, dims, &nt, &na) != FAIL) {
                fprintf(o, "sds:");
                pstr(o, name);
                SDendaccess(s);
                return;
            }
        }
    }
    else if (tag == DFTAG_RIG || tag == DFTAG_RI || tag == DFTAG_CI || tag == DFTAG_RI8 || tag == DFTAG_CI8) {
        int32 idx = (gr != FAIL) ? GRreftoindex(gr, (uint16)ref) : FAIL;
        if (idx != FAIL) {
            int32 ri = GRselect(gr, idx), nc, nt, il, dims[2], na;
            if (ri != FAIL && GRgetiminfo(ri, name, &nc, &nt, &il, dims, &na) != FAIL) {
                fprintf(o, "ri:");
                pstr(o, name);
                GRendaccess(ri);
                return;
            }
        }
    }
    fprintf(o, "tag%d", (int)tag);
}

int32
hx_describe(const char *path, const char *outpath)
{
    FILE *o = fopen(outpath, "w");
    if (!o)
        return -2;
    int32 sd = SDstart(path, DFACC_READ);
    int32 f  = Hopen(path, DFACC_READ, 0);
    int32 gr = FAIL;
    if (f == FAIL) {
        fclose(o);
        if (sd != FAIL)
            SDend(sd);
        return -3;
    }
    Vstart(f);
    gr = GRstart(f);
    char name[H4_MAX_NC_NAME * 4 + 8];
    /* ------------------------------------------------------------------ SD */
    if (sd != FAIL) {
        int32 nds = 0, ngat = 0;
        SDfileinfo(sd, &nds, &ngat);
        for (int32 a = 0; a < ngat; a++) {
            int32 nt, cnt;
            if (SDattrinfo(sd, a, name, &nt, &cnt) == FAIL)
                continue;
            void *v = calloc(ntsize(nt) * (size_t)(cnt + 1), 1);
            SDreadattr(sd, a, v);
            attr_line(o, "SDGATTR", NULL, 0, 0, name, nt, cnt, v);
            free(v);
        }
        for (int32 i = 0; i < nds; i++) {
            int32 s = SDselect(sd, i), rank, dims[H4_MAX_VAR_DIMS], nt, na;
            if (s == FAIL || SDgetinfo(s, name, &rank, dims, &nt, &na) == FAIL)
                continue;
            if (SDiscoordvar(s)) {
                SDendaccess(s);
                continue; /* presented through its dimension below */
            }
            char          sname[sizeof name];
            comp_coder_t  ct = COMP_CODE_NONE;
            comp_info     ci;
            HDF_CHUNK_DEF cd;
            int32         cflags = 0;
            int           empty  = 0;
            strcpy(sname, name);
            memset(&ci, 0, sizeof ci);
            memset(&cd, 0, sizeof cd);
            SDcheckempty(s, &empty);
            if (!empty)
                SDgetcompinfo(s, &ct, &ci);
            SDgetchunkinfo(s, &cd, &cflags);
            fprintf(o, "SDS ");
            pstr(o, sname);
            fprintf(o, " %d ", (int)rank);
            for (int j = 0; j < rank; j++)
                fprintf(o, "%s%d", j ? "," : "", (int)dims[j]);
            if (rank == 0)
                fputc('-', o);
            fprintf(o, " %d %d %d ", (int)nt, (int)SDisrecord(s), (int)ct);
            if (cflags & HDF_CHUNK) {
                fprintf(o, "%d:", (int)cflags);
                for (int j = 0; j < rank; j++)
                    fprintf(o, "%s%d", j ? "x" : "", (int)cd.chunk_lengths[j]);
            }
            else
                fputc('-', o);
            fprintf(o, " %d ", empty);
            size_t n = ntsize(nt);
            for (int j = 0; j < rank; j++)
                n *= (size_t)(dims[j] > 0 ? dims[j] : 0);
            if (rank > 0 && n > 0 && n <= MAXB) {
                int32 start[H4_MAX_VAR_DIMS] = {0};
                void *buf                    = calloc(n, 1);
                if (SDreaddata(s, start, NULL, dims, buf) == FAIL)
                    fprintf(o, "READFAIL");
                else
                    phex(o, buf, n);
                free(buf);
            }
            else
                fputc('-', o);
            fputc('\n', o);
            for (int32 a = 0; a < na; a++) {
                int32 ant, cnt;
                if (SDattrinfo(s, a, name, &ant, &cnt) == FAIL)
                    continue;
                void *v = calloc(ntsize(ant) * (size_t)(cnt + 1), 1);
                SDreadattr(s, a, v);
                attr_line(o, "SDSATTR", sname, a, 0, name, ant, cnt, v);
                free(v);
            }
            for (int j = 0; j < rank; j++) {
                int32 dm = SDgetdimid(s, j), size, dnt, dna;
                if (dm == FAIL || SDdiminfo(dm, name, &size, &dnt, &dna) == FAIL)
                    continue;
                fprintf(o, "SDSDIM ");
                pstr(o, sname);
                fprintf(o, " %d ", j);
                if (!strncmp(name, "fakeDim", 7))
                    fprintf(o, "fakeDim"); /* generated names carry a file-wide counter */
                else
                    pstr(o, name);
                fprintf(o, " %d %d ", (int)size, (int)dnt);
                if (dnt != 0) {
                    int32 len = size ? size : dims[j];
                    void *v   = calloc(ntsize(dnt) * (size_t)(len + 1), 1);
                    if (SDgetdimscale(dm, v) != FAIL)
                        phex(o, v, ntsize(dnt) * (size_t)len);
                    else
                        fprintf(o, "NOSCALE");
                    free(v);
                }
                else
                    fputc('-', o);
                fputc('\n', o);
                for (int32 a = 0; a < dna; a++) {
                    int32 ant, cnt;
                    if (SDattrinfo(dm, a, name, &ant, &cnt) == FAIL)
                        continue;
                    void *v = calloc(ntsize(ant) * (size_t)(cnt + 1), 1);
                    SDreadattr(dm, a, v);
                    attr_line(o, "DIMATTR", sname, j, 1, name, ant, cnt, v);
                    free(v);
                }
            }
            SDendaccess(s);
        }
    }
    /* ------------------------------------------------------------------ GR */
    if (gr != FAIL) {
        int32 nimg = 0, ngat = 0;
        GRfileinfo(gr, &nimg, &ngat);
        for (int32 a = 0; a < ngat; a++) {
            int32 nt, cnt;
            if (GRattrinfo(gr, a, name, &nt, &cnt) == FAIL)
                continue;
            void *v = calloc(ntsize(nt) * (size_t)(cnt + 1), 1);
            GRgetattr(gr, a, v);
            attr_line(o, "GRGATTR", NULL, 0, 0, name, nt, cnt, v);
            free(v);
        }
        for (int32 i = 0; i < nimg; i++) {
            int32 ri = GRselect(gr, i), nc, nt, il, dims[2], na;
            if (ri == FAIL || GRgetiminfo(ri, name, &nc, &nt, &il, dims, &na) == FAIL)
                continue;
            char          rname[sizeof name];
            comp_coder_t  ct = COMP_CODE_NONE;
            comp_info     ci;
            HDF_CHUNK_DEF cd;
            int32         cflags = 0;
            strcpy(rname, name);
            memset(&ci, 0, sizeof ci);
            memset(&cd, 0, sizeof cd);
            GRgetcompinfo(ri, &ct, &ci);
            GRgetchunkinfo(ri, &cd, &cflags);
            fprintf(o, "RI ");
            pstr(o, rname);
            fprintf(o, " %d %d %d %d %d ", (int)dims[0], (int)dims[1], (int)nc, (int)nt, (int)ct);
            if (cflags & HDF_CHUNK)
                fprintf(o, "%d:%dx%d", (int)cflags, (int)cd.chunk_lengths[0], (int)cd.chunk_lengths[1]);
            else
                fputc('-', o);
            fputc(' ', o);
            size_t n = ntsize(nt) * (size_t)nc * (size_t)dims[0] * (size_t)dims[1];
            if (n > 0 && n <= MAXB) {
                int32 start[2] = {0, 0};
                void *buf      = calloc(n, 1);
                GRreqimageil(ri, MFGR_INTERLACE_PIXEL);
                if (GRreadimage(ri, start, NULL, dims, buf) == FAIL)
                    fprintf(o, "READFAIL");
                else
                    phex(o, buf, n);
                free(buf);
            }
            else
                fputc('-', o);
            fputc(' ', o);
            int32 lut = GRgetlutid(ri, 0), lnc = 0, lnt = 0, lil = 0, lne = 0;
            if (lut != FAIL && GRgetlutinfo(lut, &lnc, &lnt, &lil, &lne) != FAIL && lne > 0 && lnc > 0) {
                size_t ln  = ntsize(lnt) * (size_t)lnc * (size_t)lne;
                void  *buf = calloc(ln + 1, 1);
                if (GRreadlut(lut, buf) != FAIL)
                    phex(o, buf, ln);
                else
                    fprintf(o, "LUTFAIL");
                free(buf);
            }
            else
                fputc('-', o);
            fputc('\n', o);
            for (int32 a = 0; a < na; a++) {
                int32 ant, cnt;
                if (GRattrinfo(ri, a, name, &ant, &cnt) == FAIL)
                    continue;
                void *v = calloc(ntsize(ant) * (size_t)(cnt + 1), 1);
                GRgetattr(ri, a, v);
                attr_line(o, "RIATTR", rname, 0, 0, name, ant, cnt, v);
                free(v);
            }
            GRendaccess(ri);
        }
    }
    /* ------------------------------------------------------------------ Vdata */
    for (int32 ref = VSgetid(f, -1); ref != FAIL; ref = VSgetid(f, ref)) {
        int32 v = VSattach(f, ref, "r");
        if (v == FAIL)
            continue;
        char vsname[VSNAMELENMAX + 1] = "", cls[VSNAMELENMAX + 1] = "";
        VSgetname(v, vsname);
        VSgetclass(v, cls);
        if (VSisattr(v) || VSisinternal(cls)) {
            VSdetach(v);
            continue;
        }
        int32 nrec = 0, il = 0, vsize = 0;
        char  fields[VSFIELDMAX * (FIELDNAMELENMAX + 1)] = "";
        VSinquire(v, &nrec, &il, fields, &vsize, NULL);
        int32 nf = VFnfields(v);
        fprintf(o, "VS ");
        pstr(o, vsname);
        fputc(' ', o);
        pstr(o, cls);
        fprintf(o, " %d ", (int)nrec);
        if (nf <= 0)
            fputc('-', o);
        size_t rs = 0;
        for (int32 j = 0; j < nf; j++) {
            if (j)
                fputc(',', o);
            pstr(o, VFfieldname(v, j));
            fprintf(o, ":%d:%d", (int)VFfieldtype(v, j), (int)VFfieldorder(v, j));
            rs += (size_t)VFfieldesize(v, j);
        }
        fprintf(o, " %d ", (int)il);
        if (nf > 0 && nrec > 0 && rs * (size_t)nrec <= MAXB && VSsetfields(v, fields) != FAIL) {
            void *buf = calloc(rs * (size_t)nrec + 8, 1);
            if (VSread(v, buf, nrec, FULL_INTERLACE) != nrec)
                fprintf(o, "READFAIL");
            else
                phex(o, buf, rs * (size_t)nrec);
            free(buf);
        }
        else
            fputc('-', o);
        fputc('\n', o);
        for (int32 fi = -1; fi < nf; fi++) {
            int na = VSfnattrs(v, fi);
            for (int a = 0; a < na; a++) {
                int32 ant, cnt, sz;
                if (VSattrinfo(v, fi, a, name, &ant, &cnt, &sz) == FAIL)
                    continue;
                void *val = calloc((size_t)sz + ntsize(ant) * (size_t)(cnt + 1), 1);
                VSgetattr(v, fi, a, val);
                fprintf(o, "VSATTR ");
                pstr(o, vsname);
                fprintf(o, " %d ", (int)fi);
                pstr(o, name);
                fprintf(o, " %d %d ", (int)ant, (int)cnt);
                phex(o, val, ntsize(ant) * (size_t)cnt);
                fputc('\n', o);
                free(val);
            }
        }
        VSdetach(v);
    }
    /* ------------------------------------------------------------------ Vgroup */
    for (int32 ref = Vgetid(f, -1); ref != FAIL; ref = Vgetid(f, ref)) {
        int32 g = Vattach(f, ref, "r");
        if (g == FAIL)
            continue;
        if (Vgisinternal(g) == TRUE) {
            Vdetach(g);
            continue;
        }
        uint16 nl = 0;
        char   cls[300] = "";
        Vgetnamelen(g, &nl);
        char *gname = calloc((size_t)nl + 2, 1);
        Vgetname(g, gname);
        Vgetclass(g, cls);
        int32 n = Vntagrefs(g);
        fprintf(o, "VG ");
        pstr(o, gname);
        fputc(' ', o);
        pstr(o, cls);
        fputc(' ', o);
        if (n <= 0)
            fputc('-', o);
        for (int32 j = 0; j < n; j++) {
            int32 t, r;
            if (Vgettagref(g, j, &t, &r) == FAIL)
                continue;
            if (j)
                fputc(',', o);
            member_name(o, f, sd, gr, t, r);
        }
        fputc('\n', o);
        int na = Vnattrs(g);
        for (int a = 0; a < na; a++) {
            int32 ant, cnt, sz;
            if (Vattrinfo(g, a, name, &ant, &cnt, &sz) == FAIL)
                continue;
            void *val = calloc((size_t)sz + ntsize(ant) * (size_t)(cnt + 1), 1);
            Vgetattr(g, a, val);
            attr_line(o, "VGATTR", gname, 0, 0, name, ant, cnt, val);
            free(val);
        }
        free(gname);
        Vdetach(g);
    }
    /* ------------------------------------------------------------------ annotations */
    int32 an = ANstart(f);
    if (an != FAIL) {
        int32             cnt[4] = {0, 0, 0, 0};
        static const char *kn[4] = {"olabel", "odesc", "flabel", "fdesc"};
        ANfileinfo(an, &cnt[2], &cnt[3], &cnt[0], &cnt[1]);
        for (int ty = 0; ty < 4; ty++) {
            for (int32 i = 0; i < cnt[ty]; i++) {
                int32 id = ANselect(an, i, (ann_type)ty);
                if (id == FAIL)
                    continue;
                int32 len = ANannlen(id);
                char *txt = calloc((size_t)(len > 0 ? len : 0) + 2, 1);
                if (len > 0)
                    ANreadann(id, txt, len + 1);
                fprintf(o, "AN %s ", kn[ty]);
                if (ty < 2) {
                    /* the object the annotation belongs to: stored right behind the annotation's own tag/ref */
                    uint16 atag, aref;
                    int32  et = 0, er = 0;
                    if (ANid2tagref(id, &atag, &aref) != FAIL) {
                        uint8 hd[4];
                        int32 aid = Hstartread(f, atag, aref);
                        if (aid != FAIL) {
                            if (Hread(aid, 4, hd) == 4) {
                                et = (hd[0] << 8) | hd[1];
                                er = (hd[2] << 8) | hd[3];
                            }
                            Hendaccess(aid);
                        }
                    }
                    member_name(o, f, sd, gr, et, er);
                }
                else
                    fputc('-', o);
                fputc(' ', o);
                phex(o, txt, (size_t)(len > 0 ? len : 0));
                fputc('\n', o);
                free(txt);
                ANendaccess(id);
            }
        }
        ANend(an);
    }
    if (gr != FAIL)
        GRend(gr);
    Vend(f);
    Hclose(f);
    if (sd != FAIL)
        SDend(sd);
    fclose(o);
    return 0;
}
