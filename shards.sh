#!/bin/sh
# dev helper: shards.sh CNN nshards cases [seed]  -> prints per-shard summaries
P=$1; N=$2; C=$3; S=${4:-1}
mkdir -p /dev/shm/t
make -s -j16 -C /verif build 2>&1 | tail -3
i=0; while [ $i -lt $N ]; do python3-vt /verif/run.py $P --shard $i --cases $C --out /dev/shm/t/s$i.json --seed $S --no-build --tier ${TIER:-quick} >/dev/shm/t/s$i.log 2>&1 & i=$((i+1)); done; wait
i=0; while [ $i -lt $N ]; do python3 -c "
import json,sys
try: d=json.load(open('/dev/shm/t/s$i.json'))
except Exception as e: print(open('/dev/shm/t/s$i.log').read()[-3000:]); sys.exit()
print({k:v for k,v in d.items() if k not in ('nt_hashes','samples','fail_case','failure','error_text')}, 'NT=',len(d['nt_hashes']))
if d.get('error_text'): print(d['error_text'][-2500:])
f=d['failure'] or {}; prog=f.pop('program',None); f.pop('text',None)
if f: print(json.dumps(f)[:1800]); print(json.dumps(d['fail_case'])[:3000])
"; i=$((i+1)); done
